"""Gen/Accessors.v: every closed-form `offset = rinfo->offset + header->..._blob_size + ...;`
expression of the gi*info.c accessors, translated into a Gallina function of the counts stored
in the container blob, the blob sizes stored in the header, the blob's own offset and the
index n.  The field-walk loops (embedded callbacks) are recognised textually (fail-closed)."""
import os
import re
from genutil import write_gen, TranslationError, REPO
import cexpr

FILES = ['giobjectinfo.c', 'giinterfaceinfo.c', 'gistructinfo.c', 'giunioninfo.c', 'gienuminfo.c']

LOOP = re.compile(r'for\s*\(i\s*=\s*0;\s*i\s*<\s*n;\s*i\+\+\)\s*\{\s*'
                  r'field_blob\s*=\s*\(FieldBlob\s*\*\)\s*&rinfo->typelib->data\[offset\];\s*'
                  r'offset\s*\+=\s*header->field_blob_size;\s*'
                  r'if\s*\(field_blob->has_embedded_type\)\s*offset\s*\+=\s*header->callback_blob_size;\s*\}')


def functions(src):
    """yield (name, body) for top-level function definitions"""
    for m in re.finditer(r'^(\w+)\s*\(([^;{]*?)\)\s*\{', src, flags=re.M | re.S):
        name = m.group(1)
        i = m.end()
        depth = 1
        while depth and i < len(src):
            if src[i] == '{':
                depth += 1
            elif src[i] == '}':
                depth -= 1
            i += 1
        yield name, src[m.end():i]


def main():
    defs = []
    idents = set()
    walks = []
    for fn in FILES:
        src = open(os.path.join(REPO, 'girepository', fn)).read()
        src = re.sub(r'/\*.*?\*/', '', src, flags=re.S)
        for name, body in functions(src):
            for m in re.finditer(r'rinfo->offset\s*\+\s*header->\w+_blob_size', body):
                # extend to the end of the expression: ';' or ',' or an unbalanced ')'
                i, depth = m.start(), 0
                while i < len(body):
                    c = body[i]
                    if c == '(':
                        depth += 1
                    elif c == ')':
                        if depth == 0:
                            break
                        depth -= 1
                    elif c in ';,' and depth == 0:
                        break
                    i += 1
                expr = ' '.join(body[m.start():i].split())
                try:
                    e = cexpr.parse(expr)
                except cexpr.CExprError as ex:
                    raise TranslationError('%s:%s: %s in %r' % (fn, name, ex, expr))
                ids = cexpr.idents(e)
                for i2 in ids:
                    if not re.match(r'^(rinfo\.offset|header\.\w+_blob_size|blob\.n_\w+|n)$', i2):
                        raise TranslationError('%s:%s: unexpected identifier %s' % (fn, name, i2))
                    idents.add(i2)
                defs.append((fn, name, expr, e))
            if re.search(r'for\s*\(i\s*=\s*0;\s*i\s*<\s*n;', body):
                if not LOOP.search(' '.join(body.split())):
                    raise TranslationError('%s:%s: field walk loop has an unexpected shape' % (fn, name))
                walks.append((fn, name))
    if len(defs) < 20 or len(walks) < 2:
        raise TranslationError('too few accessor expressions recognised (%d, %d walks)' % (len(defs), len(walks)))

    def field(i):
        return {'rinfo.offset': 'base'}.get(i) or i.split('.')[-1]
    fields = sorted(({field(i) for i in idents} | {'base', 'callback_blob_size', 'field_blob_size'}) - {'n'})
    lines = ['From Coq Require Import ZArith List.', 'Local Open Scope Z_scope.',
             '(* the values an accessor reads: blob offset, index, counts in the container blob, sizes in the header *)',
             'Record cnt := { %s }.' % '; '.join('%s : Z' % f for f in fields)]
    seen = {}
    for fn, name, expr, e in defs:
        k = '%s_%s' % (fn[:-2], name)
        seen[k] = seen.get(k, 0) + 1
        ident = 'acc_%s%s' % (name, '' if seen[k] == 1 else '_%d' % seen[k])
        term = cexpr.to_coq(e, rename=lambda i: 'n' if i == 'n' else '(%s e)' % field(i))
        lines.append('(* %s: %s  --  offset = %s *)' % (fn, name, expr))
        lines.append('Definition %s (e : cnt) (n : Z) : Z := %s.' % (ident, term))
    # struct methods: after the walk over all fields
    ssrc = ' '.join(re.sub(r'/\*.*?\*/', '', open(os.path.join(REPO, 'girepository', 'gistructinfo.c')).read(), flags=re.S).split())
    if 'offset = g_struct_get_field_offset (info, blob->n_fields) + n * header->function_blob_size;' not in ssrc or \
            'offset = g_struct_get_field_offset (info, blob->n_fields);' not in ssrc:
        raise TranslationError('gistructinfo.c: method offset expressions not recognised')
    lines.append('(* gistructinfo.c: offset = g_struct_get_field_offset (info, blob->n_fields) + n * header->function_blob_size *)')
    lines.append('Definition acc_g_struct_info_get_method (fields_end : Z) (e : cnt) (n : Z) : Z := fields_end + n * function_blob_size e.')
    # gitypeinfo.c: the element type of an array, the n-th type of a list or hash table (recognised textually, fail-closed); the
    # builder's side are the member offsets of ArrayTypeBlob.type and ParamTypeBlob.type in Gen/BlobLayout.v
    tsrc = ' '.join(re.sub(r'/\*.*?\*/', '', open(os.path.join(REPO, 'girepository', 'gitypeinfo.c')).read(), flags=re.S).split())
    mt = re.search(r'case GI_TYPE_TAG_ARRAY: case GI_TYPE_TAG_GLIST: case GI_TYPE_TAG_GSLIST: case GI_TYPE_TAG_GHASH: '
                   r'return _g_type_info_new \(\(GIBaseInfo\*\)info, rinfo->typelib, (rinfo->offset \+ sizeof \(ParamTypeBlob\) '
                   r'\+ sizeof \(SimpleTypeBlob\) \* n)\);', tsrc)
    if not mt:
        raise TranslationError('gitypeinfo.c: g_type_info_get_param_type offset expression not recognised')
    lines.append('(* gitypeinfo.c: g_type_info_get_param_type  --  offset = %s *)' % mt.group(1))
    lines.append('Definition acc_g_type_info_get_param_type (base sizeof_ParamTypeBlob sizeof_SimpleTypeBlob n : Z) : Z := '
                 'base + sizeof_ParamTypeBlob + sizeof_SimpleTypeBlob * n.')
    # gitypeinfo.c: what the API says about the dimensions of an array (recognised textually, fail-closed)
    if 'if (blob->has_length) return blob->dimensions.length;' not in tsrc or 'if (blob->has_size) return blob->dimensions.size;' not in tsrc \
            or tsrc.count('return -1;') < 2:
        raise TranslationError('gitypeinfo.c: g_type_info_get_array_length / _fixed_size not recognised')
    lines.append('(* gitypeinfo.c: g_type_info_get_array_length  --  if (blob->has_length) return blob->dimensions.length; ... return -1 *)')
    lines.append('Definition acc_g_type_info_get_array_length (has_length : bool) (dimension : Z) : Z := if has_length then dimension else -1.')
    lines.append('(* gitypeinfo.c: g_type_info_get_array_fixed_size  --  if (blob->has_size) return blob->dimensions.size; ... return -1 *)')
    lines.append('Definition acc_g_type_info_get_array_fixed_size (has_size : bool) (dimension : Z) : Z := if has_size then dimension else -1.')
    # gitypeinfo.c / gibaseinfo.c: the test that tells a basic type stored in place from the offset of a type blob; every accessor
    # of a type must use this one test (fail-closed: the number of places and their text)
    bsrc = ' '.join(re.sub(r'/\*.*?\*/', '', open(os.path.join(REPO, 'girepository', 'gibaseinfo.c')).read(), flags=re.S).split())
    test = 'type->flags.reserved == 0 && type->flags.reserved2 == 0'
    n_t, n_b = tsrc.count(test), bsrc.count(test)
    if n_t < 8 or n_b < 2 or tsrc.count('flags.reserved') != 2 * n_t or bsrc.count('flags.reserved') != 2 * n_b \
            or re.search(r'type->offset\s*&|offset\s*&\s*0x', tsrc + bsrc):
        raise TranslationError('gitypeinfo.c/gibaseinfo.c: the inline-type test is not the recognised one in every place')
    lines.append('(* gitypeinfo.c (%d places), gibaseinfo.c (%d places): %s *)' % (n_t, n_b, test))
    lines.append('Definition acc_type_is_inline (reserved reserved2 : Z) : bool := (reserved =? 0) && (reserved2 =? 0).')
    # the builder's alignment macro
    nsrc = open(os.path.join(REPO, 'girepository', 'girnode.c')).read()
    m = re.search(r'^#define\s+ALIGN_VALUE\s*\(\s*(\w+)\s*,\s*(\w+)\s*\)\s*\\?\s*\n?\s*(.*)$', nsrc, flags=re.M)
    if not m:
        raise TranslationError('ALIGN_VALUE not found in girnode.c')
    ea = cexpr.parse(m.group(3))
    lines.append('(* girnode.c: #define ALIGN_VALUE(%s, %s) %s *)' % (m.group(1), m.group(2), m.group(3)))
    lines.append('Definition node_align (this boundary : Z) : Z := %s.'
                 % cexpr.to_coq(ea, rename=lambda i: {m.group(1): 'this', m.group(2): 'boundary'}[i]))
    lines.append('(* field walks recognised: %s *)' % ', '.join('%s:%s' % w for w in walks))
    lines.append('Definition field_walks_recognised : nat := %d.' % len(walks))
    write_gen('Accessors.v', '\n'.join(lines) + '\n')


if __name__ == '__main__':
    main()
