"""Gen/BlobLayout.v: size of every blob struct of gitypelib-internal.h and, for every member,
its absolute bit offset and width (or byte offset and size for aggregate members), obtained by
compiling a generated C prober against the header of the working tree: each scalar member is
set to all-ones in a zeroed struct and the bytes are inspected."""
import os
import re
import subprocess
import sys
from genutil import write_gen, TranslationError, REPO, ROOT
sys.path.insert(0, os.path.join(ROOT, 'harness'))
import common

SCALAR = {'guint8', 'gint8', 'guint16', 'gint16', 'guint32', 'gint32', 'guint', 'gint', 'guint64', 'gchar'}


def parse_structs(src):
    src = re.sub(r'/\*.*?\*/', '', src, flags=re.S)
    out = []
    for m in re.finditer(r'typedef\s+(struct|union)\s*(\w*)\s*\{(.*?)\}\s*(\w+)\s*;', src, flags=re.S):
        kind, tag, body, name = m.groups()
        if '{' in body:       # nested anonymous struct (SimpleTypeBlob union): handled by hand in the decoder
            continue
        fields = []
        for decl in body.split(';'):
            decl = ' '.join(decl.split())
            if not decl:
                continue
            fm = re.match(r'^(\w+)\s+(\w+)\s*(?::\s*(\d+))?\s*(\[\s*\d*\s*\])?$', decl)
            if not fm:
                raise TranslationError('cannot parse member %r of %s' % (decl, name))
            fields.append((fm.group(1), fm.group(2), fm.group(3), fm.group(4)))
        out.append((kind, name, fields))
    return out


def main():
    hdr = os.path.join(REPO, 'girepository', 'gitypelib-internal.h')
    structs = parse_structs(open(hdr).read())
    names = [s[1] for s in structs]
    for need in ('Header', 'DirEntry', 'ArgBlob', 'SignatureBlob', 'FunctionBlob', 'CallbackBlob', 'SignalBlob', 'VFuncBlob',
                 'PropertyBlob', 'FieldBlob', 'ValueBlob', 'ConstantBlob', 'StructBlob', 'UnionBlob', 'EnumBlob',
                 'ObjectBlob', 'InterfaceBlob', 'AttributeBlob', 'Section', 'InterfaceTypeBlob', 'ArrayTypeBlob',
                 'ParamTypeBlob', 'ErrorTypeBlob', 'SimpleTypeBlobFlags'):
        if need not in names:
            raise TranslationError('struct %s not found in gitypelib-internal.h' % need)
    c = ['#include <stdio.h>', '#include <string.h>', '#include <stddef.h>', '#include <glib.h>',
         '#include "gitypelib-internal.h"',
         'static void probe (const char *s, const char *f, const unsigned char *p, size_t n) {',
         '  long first = -1, count = 0; for (size_t i = 0; i < n * 8; i++) if (p[i / 8] >> (i % 8) & 1) { if (first < 0) first = i; count++; }',
         '  printf ("F %s %s %ld %ld\\n", s, f, first, count); }',
         'int main (void) {']
    for kind, name, fields in structs:
        c.append('  printf ("S %s %%d\\n", (int) sizeof (%s));' % (name, name))
        for ty, f, bits, arr in fields:
            if arr is not None:
                c.append('  printf ("O %s %s %%d %%d\\n", (int) offsetof (%s, %s), (int) sizeof (((%s *) 0)->%s[0]));'
                         % (name, f, name, f, name, f))
            elif ty in SCALAR:
                c.append('  { %s x; memset (&x, 0, sizeof x); x.%s = (%s) ~0ULL; probe ("%s", "%s", (unsigned char *) &x, sizeof x); }'
                         % (name, f, 'unsigned' if bits else ty, name, f))
            else:
                c.append('  printf ("O %s %s %%d %%d\\n", (int) offsetof (%s, %s), (int) sizeof (%s));' % (name, f, name, f, ty))
    c.append('  return 0; }')
    os.makedirs(common.CBUILD, exist_ok=True)
    src = os.path.join(common.CBUILD, 'probe_layout.c')
    open(src, 'w').write('\n'.join(c))
    exe = os.path.join(common.CBUILD, 'probe_layout')
    rc, out = common.run(['gcc', '-w', '-O0', '-DGI_COMPILATION', '-I' + os.path.join(ROOT, 'cshim', 'inc'), '-I' + REPO,
                          '-I' + os.path.join(REPO, 'girepository'), '-o', exe, src])
    if rc != 0:
        raise TranslationError('layout prober does not compile:\n' + out[-2000:])
    txt = subprocess.run([exe], capture_output=True, text=True, timeout=60).stdout
    lines = ['From Coq Require Import NArith List.', 'Import ListNotations.', 'Local Open Scope N_scope.',
             '(* scalar members: (bit offset from the start of the struct, width in bits);',
             '   aggregate and array members: (byte offset, element size in bytes) *)']
    sizes = []
    allf = []
    for l in txt.splitlines():
        f = l.split()
        if f[0] == 'S':
            lines.append('Definition %s_size : N := %s.' % (f[1], f[2]))
            sizes.append((f[1], int(f[2])))
        elif f[0] == 'F':
            if int(f[3]) < 0:
                raise TranslationError('member %s.%s not found by the prober' % (f[1], f[2]))
            lines.append('Definition %s__%s : N * N := (%s, %s).' % (f[1], f[2], f[3], f[4]))
            allf.append((f[1], int(f[3]), int(f[4])))
        elif f[0] == 'O':
            lines.append('Definition %s__%s_at : N * N := (%s, %s).' % (f[1], f[2], f[3], f[4]))
    lines.append('Definition blob_sizes : list N := [%s].' % '; '.join(str(s) for _, s in sizes))
    lines.append('(* all scalar members as (struct index, bit offset, width), for the well-formedness theorem *)')
    idx = {n: i for i, (n, _) in enumerate(sizes)}
    lines.append('Definition all_scalar_members : list (N * N * N) := [%s].'
                 % '; '.join('(%d, %d, %d)' % (idx[n], o, w) for n, o, w in allf))
    write_gen('BlobLayout.v', '\n'.join(lines) + '\n')


if __name__ == '__main__':
    main()
