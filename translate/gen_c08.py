"""Gen/Align.v (the GI_ALIGN macro of girepository/giroffsets.c translated to Z arithmetic)
and Gen/Platform.v (sizes the code obtains from the platform: probe enums, ffi types)."""
import os
import re
import subprocess
import sys
from genutil import write_gen, TranslationError, REPO, ROOT, coqstr
import cexpr
sys.path.insert(0, os.path.join(ROOT, 'harness'))
import common


def main():
    src = open(os.path.join(REPO, 'girepository', 'giroffsets.c')).read()
    m = re.search(r'^#define\s+GI_ALIGN\s*\(\s*(\w+)\s*,\s*(\w+)\s*\)\s*(.*)$', src, flags=re.M)
    if not m:
        raise TranslationError('GI_ALIGN macro not found')
    a, b, body = m.group(1), m.group(2), m.group(3)
    e = cexpr.parse(body)
    ids = cexpr.idents(e)
    if sorted(ids) != sorted([a, b]):
        raise TranslationError('GI_ALIGN uses unexpected identifiers %r' % ids)
    term = cexpr.to_coq(e, rename=lambda n: {a: 'n', b: 'align'}[n])
    write_gen('Align.v', 'From Coq Require Import ZArith.\nLocal Open Scope Z_scope.\n'
              '(* #define GI_ALIGN(%s, %s) %s *)\n'
              'Definition gi_align (n align : Z) : Z := %s.\n' % (a, b, body, term))

    ok, out = common.c_build()
    if not ok:
        raise TranslationError('C build failed:\n' + out[-2000:])
    exe, out = common.c_driver('probe_platform', os.path.join(ROOT, 'cshim', 'probe_platform.c'),
                               exclude=('giroffsets',))
    if not exe:
        raise TranslationError('platform probe does not build:\n' + out[-2000:])
    txt = subprocess.run([exe], capture_output=True, text=True, timeout=60).stdout
    enums, tags, ptr, limits = {}, [], None, None
    for line in txt.splitlines():
        f = line.split()
        if f[0] == 'enum':
            enums[int(f[1])] = (int(f[2]), int(f[3]))
        elif f[0] == 'tag':
            tags.append((int(f[1]), f[2], int(f[3]), int(f[4]), int(f[5]), int(f[6])))
        elif f[0] == 'pointer':
            ptr = (int(f[1]), int(f[2]))
        elif f[0] == 'limits':
            limits = [int(x) for x in f[1:]]
    if sorted(enums) != list(range(1, 10)) or ptr is None or limits is None or len(tags) < 22:
        raise TranslationError('unexpected probe output:\n' + txt)
    lines = ['From Coq Require Import List ZArith NArith.', 'Import ListNotations.', 'Local Open Scope Z_scope.',
             '(* sizeof (EnumN), (gint64)(EnumN)(-1) < 0   for the probe enums of giroffsets.c *)']
    for k in range(1, 10):
        lines.append('Definition enum%d_width : Z := %d.  Definition enum%d_signed : bool := %s.'
                     % (k, enums[k][0], k, 'true' if enums[k][1] else 'false'))
    lines.append('(* GITypeTag -> (name, ffi size, ffi alignment, is ffi_type_void, is ffi_type_pointer) *)')
    lines.append('Definition ffi_table : list (Z * list N * Z * Z * bool * bool) := [')
    lines.append(';\n'.join('  (%d, %s%%N, %d, %d, %s, %s) (* %s *)' % (t, coqstr(n).replace(';', '%N;').replace(']', '%N]') if False else coqstr(n), s, al,
                                                              'true' if v else 'false', 'true' if p else 'false', n)
                            for t, n, s, al, v, p in tags))
    lines.append('].')
    lines.append('Definition pointer_size : Z := %d.  Definition pointer_align : Z := %d.' % ptr)
    lines.append('Definition c_minshort : Z := %d.  Definition c_maxshort : Z := %d.  '
                 'Definition c_maxushort : Z := %d.  Definition c_maxint : Z := %d.' % tuple(limits))
    write_gen('Platform.v', '\n'.join(lines) + '\n')


if __name__ == '__main__':
    main()
