"""Gen/GirAttrs.v: attribute vocabulary of the two ends of the GIR read/write cycle.
writer_attrs: every attribute name giscanner/girwriter.py can write (first components of the (name, value) pairs it builds).
reader_attrs: every attribute name giscanner/girparser.py looks at (attrib.get / attrib[...] with plain, c: and glib: names)."""
import ast as pyast
import os
import re

from genutil import write_gen, coqstr, TranslationError, REPO


def writer_attrs():
    tree = pyast.parse(open(os.path.join(REPO, 'giscanner', 'girwriter.py')).read())
    names = set()
    for node in pyast.walk(tree):
        if isinstance(node, pyast.Tuple) and len(node.elts) == 2 and isinstance(node.elts[0], pyast.Constant) \
                and isinstance(node.elts[0].value, str):
            names.add(node.elts[0].value)
    if len(names) < 60:
        raise TranslationError('suspiciously few attribute names in girwriter.py: %d' % len(names))
    return sorted(names)


def reader_attrs():
    """names given to .get(...) / [...] of attribute dictionaries and elements, with the c: / glib: prefixes of the helper
    functions; a helper applied to a loop variable is expanded over the literal list it ranges over"""
    tree = pyast.parse(open(os.path.join(REPO, 'giscanner', 'girparser.py')).read())
    names = set()
    PRE = {'_cns': 'c:', '_glibns': 'glib:', '_corens': ''}
    loops = {}      # loop variable -> literal strings
    for node in pyast.walk(tree):
        if isinstance(node, pyast.For) and isinstance(node.target, pyast.Name) and isinstance(node.iter, (pyast.List, pyast.Tuple)):
            vals = [e.value for e in node.iter.elts if isinstance(e, pyast.Constant) and isinstance(e.value, str)]
            if vals:
                loops.setdefault(node.target.id, set()).update(vals)

    def key_names(k):
        if isinstance(k, pyast.Constant) and isinstance(k.value, str):
            return [k.value]
        if isinstance(k, pyast.Call) and isinstance(k.func, pyast.Name) and k.func.id in PRE and len(k.args) == 1:
            a = k.args[0]
            if isinstance(a, pyast.Constant) and isinstance(a.value, str):
                return [PRE[k.func.id] + a.value]
            if isinstance(a, pyast.Name) and a.id in loops:
                return [PRE[k.func.id] + v for v in loops[a.id]]
            raise TranslationError('attribute key built from a non-literal at line %d' % k.lineno)
        return []
    for node in pyast.walk(tree):
        if isinstance(node, pyast.Call) and isinstance(node.func, pyast.Attribute) and node.func.attr == 'get' and node.args:
            names.update(key_names(node.args[0]))
        elif isinstance(node, pyast.Subscript) and isinstance(node.value, pyast.Attribute) and node.value.attr == 'attrib':
            names.update(key_names(node.slice))
    if len(names) < 50:
        raise TranslationError('suspiciously few attribute names in girparser.py: %d' % len(names))
    return sorted(names)


def main():
    w, r = writer_attrs(), reader_attrs()
    lines = ['From Coq Require Import List NArith.', 'Import ListNotations.', 'Local Open Scope N_scope.',
             'Definition writer_attrs : list (list N) := [', ';\n'.join('  %s (* %s *)' % (coqstr(x), x) for x in w), '].',
             'Definition reader_attrs : list (list N) := [', ';\n'.join('  %s (* %s *)' % (coqstr(x), x) for x in r), '].']
    write_gen('GirAttrs.v', '\n'.join(lines) + '\n')


if __name__ == '__main__':
    main()
