"""Gen/Unicode.v: the code points CPython (the interpreter the scanner runs under)
treats as whitespace (str.isspace / str.split()) and as line boundaries
(str.splitlines)."""
import sys
from genutil import write_gen, nlist


def main():
    spaces = [c for c in range(sys.maxunicode + 1) if chr(c).isspace()]
    breaks = []
    for c in range(sys.maxunicode + 1):
        if 0xD800 <= c <= 0xDFFF:
            continue
        if len(('a' + chr(c) + 'b').splitlines()) == 2:
            breaks.append(c)
    text = ('From Coq Require Import List NArith.\nImport ListNotations.\nLocal Open Scope N_scope.\n'
            'Definition py_space_points : list N := %s.\n'
            'Definition py_linebreak_points : list N := %s.\n' % (nlist(spaces), nlist(breaks)))
    write_gen('Unicode.v', text)


if __name__ == '__main__':
    main()
