"""Gen/UnicodeRe.v and Gen/BlockRegex.v: the line-level grammar of giscanner/annotationparser.py.

* the fifteen regular expressions of the comment-block parser, taken from the compiled pattern objects of the imported
  module of the working tree (pattern text + flags -> CPython's own parse tree -> Backtrack.bre with Python's priorities and
  the group numbers of `pattern.groupindex`);
* the character tables those patterns depend on, computed by asking the running interpreter (`re` for \\s, \\S, \\w and the
  case-insensitive literals, `str.lower`, `str.capitalize` for the two case conversions the parser applies);
* the tag vocabulary (which tags are deprecated annotation tags, which spell the return value, ...).

Fail-closed: an unknown construct, an unexpected flag or a changed LINE_BREAK_RE aborts the translation.
"""
import re
import re._parser as sp
import re._constants as sc
import sys

from genutil import write_gen, setup_repo_path, coqstr, nlist, TranslationError
import regex2coq

PATTERNS = [
    ('re_start', 'COMMENT_BLOCK_START_RE'), ('re_end', 'COMMENT_BLOCK_END_RE'), ('re_asterisk', 'COMMENT_ASTERISK_RE'),
    ('re_indent', 'INDENTATION_RE'), ('re_empty', 'EMPTY_LINE_RE'), ('re_section', 'SECTION_RE'), ('re_symbol', 'SYMBOL_RE'),
    ('re_property', 'PROPERTY_RE'), ('re_signal', 'SIGNAL_RE'), ('re_action', 'ACTION_RE'), ('re_field', 'FIELD_RE'),
    ('re_parameter', 'PARAMETER_RE'), ('re_tag', 'TAG_RE'), ('re_tagver', 'TAG_VALUE_VERSION_RE'), ('re_tagstab', 'TAG_VALUE_STABILITY_RE'),
]
EXPECTED_GROUPS = {
    're_start': ['code', 'token', 'comment'], 're_end': ['comment', 'token', 'code'], 're_asterisk': ['comment'], 're_indent': ['indentation'],
    're_empty': [], 're_section': ['delimiter', 'section_name'], 're_symbol': ['symbol_name', 'delimiter', 'fields'],
    're_property': ['class_name', 'property_name', 'delimiter', 'fields'], 're_signal': ['class_name', 'signal_name', 'delimiter', 'fields'],
    're_action': ['class_name', 'action_name', 'delimiter', 'fields'], 're_field': ['class_name', 'field_name', 'delimiter', 'fields'],
    're_parameter': ['parameter_name', 'fields'], 're_tag': ['tag_name', 'fields'], 're_tagver': ['value', 'delimiter', 'description'],
    're_tagstab': ['value', 'delimiter', 'description'],
}


def ranges_of(pred):
    out = []
    start = None
    for c in range(sys.maxunicode + 2):
        ok = c <= sys.maxunicode and not (0xD800 <= c <= 0xDFFF) and pred(c)
        if ok and start is None:
            start = c
        elif not ok and start is not None:
            out.append((start, c - 1))
            start = None
    return out


def rlist(rs):
    return '[' + ';'.join('(%d,%d)' % r for r in rs) + ']'


def categories(cat):
    m = {sc.CATEGORY_SPACE: 'CRanges re_space_ranges', sc.CATEGORY_NOT_SPACE: 'CNot (CRanges re_space_ranges)',
         sc.CATEGORY_WORD: 'CRanges re_word_ranges', sc.CATEGORY_NOT_WORD: 'CNot (CRanges re_word_ranges)',
         sc.CATEGORY_DIGIT: 'CRanges re_digit_ranges', sc.CATEGORY_NOT_DIGIT: 'CNot (CRanges re_digit_ranges)'}
    if cat not in m:
        raise TranslationError('character category %r' % (cat,))
    return m[cat]


def ignorecase_literals(pattern, flags):
    """code points of literals that occur in a case-insensitive pattern"""
    out = set()

    def walk(items):
        for op, av in items:
            if op is sc.LITERAL or op is sc.NOT_LITERAL:
                out.add(av)
            elif op is sc.IN:
                for o, a in av:
                    if o is sc.LITERAL:
                        out.add(a)
                    elif o is sc.RANGE:
                        out.update(range(a[0], a[1] + 1))
            elif op in (sc.MAX_REPEAT, sc.MIN_REPEAT):
                walk(av[2])
            elif op is sc.SUBPATTERN:
                walk(av[3])
            elif op is sc.BRANCH:
                for b in av[1]:
                    walk(b)
            elif op is sc.ASSERT or op is sc.ASSERT_NOT:
                walk(av[1])
    walk(sp.parse(pattern, flags))
    return out


def interpreter_tables():
    """tables that depend on the running interpreter only; cached per interpreter build"""
    import hashlib
    import json
    import os
    from genutil import ROOT
    key = hashlib.sha1((sys.version + repr(sys.maxunicode)).encode()).hexdigest()[:16]
    cache = os.path.join(ROOT, 'build', 'unicode_re_%s.json' % key)
    try:
        d = json.load(open(cache))
        return [tuple(r) for r in d['space']], [tuple(r) for r in d['word']], [tuple(r) for r in d['digit']], [(c, l) for c, l in d['lower']]
    except (OSError, ValueError, KeyError):
        pass
    sp_re, w_re, d_re = re.compile(r'\s'), re.compile(r'\w'), re.compile(r'\d')
    space = ranges_of(lambda c: sp_re.match(chr(c)) is not None)
    word = ranges_of(lambda c: w_re.match(chr(c)) is not None)
    digit = ranges_of(lambda c: d_re.match(chr(c)) is not None)
    lower = []
    for c in range(sys.maxunicode + 1):
        if 0xD800 <= c <= 0xDFFF:
            continue
        l = chr(c).lower()
        if l != chr(c):
            lower.append((c, [ord(x) for x in l]))
    os.makedirs(os.path.dirname(cache), exist_ok=True)
    json.dump(dict(space=space, word=word, digit=digit, lower=lower), open(cache + '.tmp', 'w'))
    os.replace(cache + '.tmp', cache)
    return space, word, digit, lower


def main():
    setup_repo_path()
    from giscanner import annotationparser as ap

    # ---- the tables
    space, word, digit, lower = interpreter_tables()
    # case-insensitive equivalents of the literals of the IGNORECASE patterns
    ic_lits = set()
    for coqname, pyname in PATTERNS:
        pat = getattr(ap, pyname)
        if pat.flags & re.IGNORECASE:
            ic_lits |= ignorecase_literals(pat.pattern, pat.flags & (re.VERBOSE | re.IGNORECASE))
    # exact: one pass with the union class finds every code point any of the literals can match
    any_re = re.compile('[%s]' % ''.join(re.escape(chr(c)) for c in sorted(ic_lits)), re.IGNORECASE) if ic_lits else None
    pool = [c for c in range(sys.maxunicode + 1) if not (0xD800 <= c <= 0xDFFF) and any_re.fullmatch(chr(c))] if ic_lits else []
    ic_classes = {}
    for lit in ic_lits:
        p = re.compile(re.escape(chr(lit)), re.IGNORECASE)
        ic_classes[lit] = sorted(x for x in pool if p.fullmatch(chr(x)))
    ic_points = sorted(set(x for v in ic_classes.values() for x in v))
    # str.capitalize(): first character by its title-case mapping, the rest lower-cased
    title = []
    for c in ic_points:
        t = (chr(c) + 'x').capitalize()[:-1]
        title.append((c, [ord(x) for x in t]))
    text = ['From Coq Require Import List NArith.', 'Import ListNotations.', 'Local Open Scope N_scope.',
            '(* what the running CPython takes for \\s, \\w, \\d in a str pattern *)',
            'Definition re_space_ranges : list (N * N) := %s.' % rlist(space),
            'Definition re_word_ranges : list (N * N) := %s.' % rlist(word),
            'Definition re_digit_ranges : list (N * N) := %s.' % rlist(digit),
            '(* str.lower(), code point by code point, where it is not the identity (the context-sensitive final sigma apart) *)',
            'Definition py_lower_table : list (N * list N) := [%s].' % ';'.join('(%d,%s)' % (c, nlist(l)) for c, l in lower),
            '(* first character of str.capitalize() for the code points a case-insensitive pattern of the parser can match *)',
            'Definition py_title_table : list (N * list N) := [%s].' % ';'.join('(%d,%s)' % (c, nlist(l)) for c, l in title)]
    write_gen('UnicodeRe.v', '\n'.join(text) + '\n')

    # ---- the patterns
    if ap.LINE_BREAK_RE.pattern != r'\r\n|\r|\n':
        raise TranslationError('LINE_BREAK_RE changed: %r' % ap.LINE_BREAK_RE.pattern)

    # a literal under IGNORECASE is the class computed above
    orig_lit = regex2coq._lit_cls

    def lit_cls(c, ctx):
        if ctx['ic']:
            alts = ic_classes.get(c)
            if alts is None:
                raise TranslationError('no case-insensitive class for %r' % c)
            if len(alts) > 1:
                return 'CRanges [' + ';'.join('(%d,%d)' % (a, a) for a in alts) + ']'
            return 'CChar %d' % c
        return orig_lit(c, ctx)
    regex2coq._lit_cls = lit_cls
    orig_in = regex2coq._cls_of_in

    def cls_of_in(items, ignorecase=False, cats=None):
        if ignorecase:
            # expand through the exact classes
            neg = False
            pts = set()
            parts = []
            for op, av in items:
                if op is sc.NEGATE:
                    neg = True
                elif op is sc.LITERAL:
                    pts.update(ic_classes[av])
                elif op is sc.RANGE:
                    for c in range(av[0], av[1] + 1):
                        pts.update(ic_classes[c])
                elif op is sc.CATEGORY and cats is not None:
                    parts.append(cats(av))          # \s, \w, \d are closed under case folding
                else:
                    raise TranslationError('IN item under IGNORECASE: %r' % (op,))
            if pts:
                parts.insert(0, 'CRanges [' + ';'.join('(%d,%d)' % (a, a) for a in sorted(pts)) + ']')
            body = parts[0]
            for q in parts[1:]:
                body = 'COr (%s) (%s)' % (body, q)
            return 'CNot (%s)' % body if neg else body
        return orig_in(items, ignorecase, cats)
    regex2coq._cls_of_in = cls_of_in

    lines = ['From Coq Require Import List NArith.', 'From GIV.Lib Require Import Regex Backtrack.', 'From GIV.Gen Require Import UnicodeRe.',
             'Import ListNotations.', 'Local Open Scope N_scope.']
    for coqname, pyname in PATTERNS:
        pat = getattr(ap, pyname)
        allowed = re.UNICODE | re.VERBOSE | re.IGNORECASE
        if pat.flags & ~allowed:
            raise TranslationError('%s: unexpected flags %r' % (pyname, pat.flags))
        try:
            term = regex2coq.to_bre(pat.pattern, pat.flags & (re.VERBOSE | re.IGNORECASE), categories=categories)
        except regex2coq.Untranslatable as e:
            raise TranslationError('%s: %s' % (pyname, e))
        gi = dict(pat.groupindex)
        if sorted(gi) != sorted(EXPECTED_GROUPS[coqname]):
            raise TranslationError('%s: named groups changed: %r' % (pyname, sorted(gi)))
        lines.append('Definition %s : bre :=\n  %s.' % (coqname, term))
        for g, n in sorted(gi.items(), key=lambda kv: kv[1]):
            lines.append('Definition g_%s_%s : nat := %d.' % (coqname[3:], g, n))
    # ---- the tag vocabulary
    def strs(l):
        return '[%s]' % '; '.join(coqstr(x) for x in l)
    lines += ['Definition tag_returns : list N := %s.' % coqstr(ap.TAG_RETURNS),
              'Definition return_tag_names : list (list N) := %s.' % strs([ap.TAG_RETURN, ap.TAG_RETURNS, ap.TAG_RETURN_VALUE, ap.TAG_RETURNS_VALUE]),
              'Definition deprecated_ann_tags : list (list N) := %s.' % strs(ap.DEPRECATED_GI_ANN_TAGS),
              'Definition tag_attributes : list N := %s.' % coqstr(ap.TAG_ATTRIBUTES),
              'Definition tag_description : list N := %s.' % coqstr(ap.TAG_DESCRIPTION),
              'Definition tag_deprecated : list N := %s.' % coqstr(ap.TAG_DEPRECATED),
              'Definition tag_since : list N := %s.' % coqstr(ap.TAG_SINCE),
              'Definition tag_stability : list N := %s.' % coqstr(ap.TAG_STABILITY),
              'Definition ann_inout_alt : list N := %s.' % coqstr(ap.ANN_INOUT_ALT),
              'Definition ann_inout : list N := %s.' % coqstr(ap.ANN_INOUT),
              'Definition ann_attribute : list N := %s.' % coqstr(ap.ANN_ATTRIBUTE),
              'Definition ann_attributes : list N := %s.' % coqstr(ap.ANN_ATTRIBUTES),
              'Definition all_tags : list (list N) := %s.' % strs(ap.ALL_TAGS)]
    write_gen('BlockRegex.v', '\n'.join(lines) + '\n')


if __name__ == '__main__':
    main()
