"""Translate CPython `re` parse trees into Gallina terms.

Two targets:
  * to_re(...)   -> term of type GIV.Lib.Regex.re   (language only; anchors must be
                    a leading ^ and a trailing $, i.e. the pattern is used as a full match)
  * to_bre(...)  -> term of type GIV.Lib.Backtrack.bre (Python priorities + groups)

Fail-closed: any construct that is not recognised raises Untranslatable, and the check
that called the translator reports the tie as broken.
"""
import re
import re._parser as sp
import re._constants as sc


class Untranslatable(Exception):
    pass


def nlist(cs):
    return '[' + ';'.join(str(c) for c in cs) + ']'


def _cls_of_in(items, ignorecase=False, categories=None):
    neg = False
    ranges = []
    for op, av in items:
        if op is sc.NEGATE:
            neg = True
        elif op is sc.LITERAL:
            ranges.append((av, av))
        elif op is sc.RANGE:
            ranges.append((av[0], av[1]))
        elif op is sc.CATEGORY and categories is not None:
            ranges.append(('cat', av))
        else:
            raise Untranslatable('IN item %r %r' % (op, av))
    if ignorecase:
        extra = []
        for r in ranges:
            if r[0] == 'cat':
                continue
            lo, hi = r
            for c in range(lo, hi + 1):
                ch = chr(c)
                for o in (ch.lower(), ch.upper()):
                    if len(o) == 1 and ord(o) != c:
                        extra.append((ord(o), ord(o)))
        ranges += extra
    parts = []
    plain = [r for r in ranges if r[0] != 'cat']
    cats = [r[1] for r in ranges if r[0] == 'cat']
    if len(plain) == 1 and plain[0][0] == plain[0][1] and not cats:
        body = 'CChar %d' % plain[0][0]
    else:
        if plain:
            parts.append('CRanges [' + ';'.join('(%d,%d)' % r for r in plain) + ']')
        for c in cats:
            parts.append(categories(c))
        body = parts[0]
        for p in parts[1:]:
            body = 'COr (%s) (%s)' % (body, p)
    return 'CNot (%s)' % body if neg else body


def _seq(terms, cat, eps):
    if not terms:
        return eps
    t = terms[-1]
    for x in reversed(terms[:-1]):
        t = '%s (%s) (%s)' % (cat, x, t)
    return t


def to_re(pattern, flags=0, placeholder=None, placeholder_var='name'):
    """Full-match language of `pattern` as a Regex.re term."""
    tree = sp.parse(pattern, flags)
    if flags & re.IGNORECASE or flags & re.DOTALL or flags & re.MULTILINE:
        raise Untranslatable('flags')
    items = list(tree)
    if items and items[0][0] is sc.AT and items[0][1] is sc.AT_BEGINNING:
        items = items[1:]
    if items and items[-1][0] is sc.AT and items[-1][1] is sc.AT_END:
        items = items[:-1]
    ph = [ord(c) for c in placeholder] if placeholder else None
    return _re_seq(items, ph, placeholder_var)


def _re_seq(items, ph, phvar):
    terms = []
    lit = []

    def flush():
        if not lit:
            return
        cs = list(lit)
        del lit[:]
        if ph:
            n = len(ph)
            i = 0
            cur = []
            while i < len(cs):
                if cs[i:i + n] == ph:
                    if cur:
                        terms.append('Lit ' + nlist(cur))
                        cur = []
                    terms.append('Lit ' + phvar)
                    i += n
                else:
                    cur.append(cs[i])
                    i += 1
            if cur:
                terms.append('Lit ' + nlist(cur))
        else:
            terms.append('Lit ' + nlist(cs))

    for op, av in items:
        if op is sc.LITERAL:
            lit.append(av)
            continue
        flush()
        terms.append(_re_item(op, av, ph, phvar))
    flush()
    return _seq(terms, 'Cat', 'Eps')


def _re_item(op, av, ph, phvar):
    if op is sc.ANY:
        return 'Cls (CNot (CChar 10))'
    if op is sc.NOT_LITERAL:
        return 'Cls (CNot (CChar %d))' % av
    if op is sc.IN:
        return 'Cls (%s)' % _cls_of_in(av)
    if op in (sc.MAX_REPEAT, sc.MIN_REPEAT):
        lo, hi, sub = av
        body = _re_seq(list(sub), ph, phvar)
        if (lo, hi) == (0, 1):
            return 'Opt (%s)' % body
        if lo == 0 and hi is sc.MAXREPEAT:
            return 'Star (%s)' % body
        if lo == 1 and hi is sc.MAXREPEAT:
            return 'Cat (%s) (Star (%s))' % (body, body)
        if lo == hi and lo <= 8:
            return _seq([body] * lo, 'Cat', 'Eps')
        raise Untranslatable('repeat %r' % ((lo, hi),))
    if op is sc.SUBPATTERN:
        return _re_seq(list(av[3]), ph, phvar)
    if op is sc.BRANCH:
        alts = [_re_seq(list(b), ph, phvar) for b in av[1]]
        t = alts[-1]
        for a in reversed(alts[:-1]):
            t = 'Alt (%s) (%s)' % (a, t)
        return t
    raise Untranslatable('op %r' % (op,))


# ---------------------------------------------------------------- backtracking AST

def to_bre(pattern, flags=0, categories=None):
    """Pattern as a Backtrack.bre term with Python's priorities and group numbers."""
    if flags & ~(re.IGNORECASE | re.UNICODE | re.VERBOSE | re.MULTILINE):
        raise Untranslatable('flags %r' % flags)
    tree = sp.parse(pattern, flags)
    ctx = dict(ic=bool(flags & re.IGNORECASE), ml=bool(flags & re.MULTILINE), cats=categories)
    return _b_seq(list(tree), ctx)


def _b_seq(items, ctx):
    return _seq([_b_item(op, av, ctx) for op, av in items], 'BCat', 'BEps')


def _lit_cls(c, ctx):
    if ctx['ic']:
        ch = chr(c)
        alts = sorted({c} | {ord(o) for o in (ch.lower(), ch.upper()) if len(o) == 1})
        if len(alts) > 1:
            return 'CRanges [' + ';'.join('(%d,%d)' % (a, a) for a in alts) + ']'
    return 'CChar %d' % c


def _b_item(op, av, ctx):
    if op is sc.LITERAL:
        return 'BCls (%s)' % _lit_cls(av, ctx)
    if op is sc.NOT_LITERAL:
        return 'BCls (CNot (%s))' % _lit_cls(av, ctx)
    if op is sc.ANY:
        return 'BCls (CNot (CChar 10))'
    if op is sc.IN:
        return 'BCls (%s)' % _cls_of_in(av, ctx['ic'], ctx['cats'])
    if op in (sc.MAX_REPEAT, sc.MIN_REPEAT):
        lo, hi, sub = av
        greedy = 'true' if op is sc.MAX_REPEAT else 'false'
        body = _b_seq(list(sub), ctx)
        if (lo, hi) == (0, 1):
            return 'BOpt %s (%s)' % (greedy, body)
        if lo == 0 and hi is sc.MAXREPEAT:
            return 'BStar %s (%s)' % (greedy, body)
        if hi is sc.MAXREPEAT and lo <= 4:
            return _seq([body] * lo + ['BStar %s (%s)' % (greedy, body)], 'BCat', 'BEps')
        if lo == hi and lo <= 8:
            return _seq([body] * lo, 'BCat', 'BEps')
        raise Untranslatable('repeat %r' % ((lo, hi),))
    if op is sc.SUBPATTERN:
        gid, add, dele, sub = av
        if add or dele:
            raise Untranslatable('inline flags')
        body = _b_seq(list(sub), ctx)
        return body if gid is None else 'BGroup %d (%s)' % (gid, body)
    if op is sc.BRANCH:
        alts = [_b_seq(list(b), ctx) for b in av[1]]
        t = alts[-1]
        for a in reversed(alts[:-1]):
            t = 'BAlt (%s) (%s)' % (a, t)
        return t
    if op is sc.AT:
        if av is sc.AT_BEGINNING:
            return 'BBolM' if ctx['ml'] else 'BBol'
        if av is sc.AT_END:
            return 'BEolM' if ctx['ml'] else 'BEol'
        raise Untranslatable('AT %r' % av)
    if op is sc.ASSERT_NOT:
        direction, sub = av
        if direction != 1:
            raise Untranslatable('lookbehind')
        return 'BNotAhead (%s)' % _b_seq(list(sub), ctx)
    raise Untranslatable('op %r' % (op,))
