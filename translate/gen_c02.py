"""Gen/TypeNames.v: giscanner.ast.type_names (C spelling -> fundamental GIR type) and the lists
of basic / introspectable fundamentals, dumped from the imported module of the working tree."""
from genutil import write_gen, setup_repo_path, coqstr, TranslationError


def main():
    setup_repo_path()
    from giscanner import ast
    tn = sorted(ast.type_names.items())
    if len(tn) < 60:
        raise TranslationError('type_names unexpectedly small')
    for k, v in tn:
        if not v.target_fundamental:
            raise TranslationError('type_names[%r] is not a fundamental type' % k)
    lines = ['From Coq Require Import List NArith.', 'Import ListNotations.', 'Local Open Scope N_scope.',
             '(* ast.type_names: C spelling -> target_fundamental *)',
             'Definition type_names : list (list N * list N) := [',
             ';\n'.join('  (%s, %s) (* %s -> %s *)' % (coqstr(k), coqstr(v.target_fundamental), k, v.target_fundamental)
                        for k, v in tn), '].',
             'Definition basic_gir_types : list (list N) := [%s].' % '; '.join(coqstr(t.target_fundamental) for t in ast.BASIC_GIR_TYPES),
             'Definition basic_types : list (list N) := [%s].' % '; '.join(coqstr(t.target_fundamental) for t in ast.BASIC_TYPES),
             'Definition introspectable_basic : list (list N) := [%s].' % '; '.join(coqstr(t.target_fundamental) for t in ast.INTROSPECTABLE_BASIC)]
    write_gen('TypeNames.v', '\n'.join(lines) + '\n')


if __name__ == '__main__':
    main()
