"""Gen/ConstWrap.v: the (fundamental type, modulus exponent) pairs of the
`if unaliased == ast.TYPE_X: value = str(symbol.const_int % 2 ** k)` chain in
giscanner/transformer.py:_create_const.  Fail-closed on any other shape."""
import ast as pyast
import inspect
import textwrap
from genutil import write_gen, setup_repo_path, TranslationError, coqstr


def main():
    setup_repo_path()
    from giscanner import transformer, ast as giast
    src = textwrap.dedent(inspect.getsource(transformer.Transformer._create_const))
    tree = pyast.parse(src)
    pairs = []
    default_seen = False
    found = False
    for node in pyast.walk(tree):
        if isinstance(node, pyast.If) and isinstance(node.test, pyast.Compare) \
                and isinstance(node.test.left, pyast.Name) and node.test.left.id == 'unaliased':
            # walk the elif chain
            cur = node
            while True:
                t = cur.test
                if not (isinstance(t, pyast.Compare) and len(t.ops) == 1 and isinstance(t.ops[0], pyast.Eq)
                        and isinstance(t.left, pyast.Name) and t.left.id == 'unaliased'):
                    raise TranslationError('unexpected test in wrap chain: ' + pyast.dump(t))
                rhs = t.comparators[0]
                if not (isinstance(rhs, pyast.Attribute) and isinstance(rhs.value, pyast.Name)
                        and rhs.value.id == 'ast'):
                    raise TranslationError('unexpected comparand: ' + pyast.dump(rhs))
                ty = getattr(giast, rhs.attr)
                if len(cur.body) != 1:
                    raise TranslationError('unexpected branch body')
                k = wrap_exponent(cur.body[0])
                if k is None:
                    raise TranslationError('branch is not `value = str(symbol.const_int % 2 ** k)`: '
                                           + pyast.dump(cur.body[0]))
                pairs.append((ty.target_fundamental, k))
                if len(cur.orelse) == 1 and isinstance(cur.orelse[0], pyast.If):
                    cur = cur.orelse[0]
                    continue
                if len(cur.orelse) != 1 or not plain_value(cur.orelse[0]):
                    raise TranslationError('unexpected else branch: ' + pyast.dump(cur.orelse[0]))
                default_seen = True
                break
            found = True
            break
    if not found or not default_seen:
        raise TranslationError('wrap chain not found in _create_const')
    text = ('From Coq Require Import List NArith ZArith.\nImport ListNotations.\nLocal Open Scope N_scope.\n'
            '(* (target_fundamental, k): value = const_int mod 2^k; any other type: value = const_int *)\n'
            'Definition const_wrap_table : list (list N * Z) := [%s].\n'
            % ';\n  '.join('(%s, %d%%Z) (* %s *)' % (coqstr(n), k, n) for n, k in pairs))
    write_gen('ConstWrap.v', text)


def is_const_int(n):
    return (isinstance(n, pyast.Attribute) and n.attr == 'const_int'
            and isinstance(n.value, pyast.Name) and n.value.id == 'symbol')


def str_call_arg(stmt):
    if not (isinstance(stmt, pyast.Assign) and len(stmt.targets) == 1 and isinstance(stmt.targets[0], pyast.Name)
            and stmt.targets[0].id == 'value'):
        return None
    v = stmt.value
    if not (isinstance(v, pyast.Call) and isinstance(v.func, pyast.Name) and v.func.id == 'str' and len(v.args) == 1):
        return None
    return v.args[0]


def wrap_exponent(stmt):
    a = str_call_arg(stmt)
    if a is None:
        return None
    if (isinstance(a, pyast.BinOp) and isinstance(a.op, pyast.Mod) and is_const_int(a.left)
            and isinstance(a.right, pyast.BinOp) and isinstance(a.right.op, pyast.Pow)
            and isinstance(a.right.left, pyast.Constant) and a.right.left.value == 2
            and isinstance(a.right.right, pyast.Constant) and isinstance(a.right.right.value, int)):
        return a.right.right.value
    return None


def plain_value(stmt):
    a = str_call_arg(stmt)
    return a is not None and is_const_int(a)


if __name__ == '__main__':
    main()
