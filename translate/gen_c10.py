"""Gen/AnnNames.v: the annotation vocabulary of giscanner/annotationparser.py (which names take a list of options, which a
dictionary), dumped from the imported module of the working tree."""
from genutil import write_gen, setup_repo_path, coqstr, TranslationError


def main():
    setup_repo_path()
    from giscanner import annotationparser as ap
    if ap.ANN_LPAR != '(' or ap.ANN_RPAR != ')':
        raise TranslationError('annotation delimiters changed')
    if len(ap.LIST_ANNOTATIONS) < 30 or len(ap.DICT_ANNOTATIONS) < 2:
        raise TranslationError('annotation vocabulary unexpectedly small')
    lines = ['From Coq Require Import List NArith.', 'Import ListNotations.', 'Local Open Scope N_scope.',
             'Definition list_annotations : list (list N) := [%s].' % '; '.join(coqstr(a) for a in ap.LIST_ANNOTATIONS),
             'Definition dict_annotations : list (list N) := [%s].' % '; '.join(coqstr(a) for a in ap.DICT_ANNOTATIONS),
             '(* %s *)' % ' '.join(ap.LIST_ANNOTATIONS), '(* dict: %s *)' % ' '.join(ap.DICT_ANNOTATIONS)]
    write_gen('AnnNames.v', '\n'.join(lines) + '\n')


if __name__ == '__main__':
    main()
