"""Gen/HashSizes.v: the ALIGN_VALUE macro of gthash.c (and girmodule.c) and the width of the
variable in which add_directory_index_section keeps the section size."""
import os
import re
from genutil import write_gen, TranslationError, REPO
import cexpr


def macro(src, fname):
    m = re.search(r'^#define\s+ALIGN_VALUE\s*\(\s*(\w+)\s*,\s*(\w+)\s*\)\s*\\?\s*\n?\s*(.*)$', src, flags=re.M)
    if not m:
        raise TranslationError('ALIGN_VALUE not found in ' + fname)
    a, b, body = m.group(1), m.group(2), m.group(3)
    e = cexpr.parse(body)
    if sorted(cexpr.idents(e)) != sorted([a, b]):
        raise TranslationError('ALIGN_VALUE uses unexpected identifiers')
    return cexpr.to_coq(e, rename=lambda n: {a: 'this', b: 'boundary'}[n]), body


def main():
    g = open(os.path.join(REPO, 'girepository', 'gthash.c')).read()
    mo = open(os.path.join(REPO, 'girepository', 'girmodule.c')).read()
    t1, b1 = macro(g, 'gthash.c')
    t2, b2 = macro(mo, 'girmodule.c')
    if t1 != t2:
        raise TranslationError('ALIGN_VALUE differs between gthash.c and girmodule.c')
    f = re.search(r'add_directory_index_section\s*\(.*?\n\}', mo, flags=re.S)
    if not f:
        raise TranslationError('add_directory_index_section not found')
    body = f.group(0)
    d = re.search(r'\b(guint8|guint16|guint32|guint64|gsize|guint)\s+required_size\s*;', body)
    if not d:
        raise TranslationError('declaration of required_size not recognised')
    bits = {'guint8': 8, 'guint16': 16, 'guint32': 32, 'guint': 32, 'guint64': 64, 'gsize': 64}[d.group(1)]
    if not re.search(r'required_size\s*=\s*_gi_typelib_hash_builder_get_buffer_size\s*\(\s*dirindex_builder\s*\)\s*;\s*'
                     r'required_size\s*=\s*ALIGN_VALUE\s*\(\s*required_size\s*,\s*4\s*\)\s*;', body):
        raise TranslationError('required_size computation not recognised')
    # gthash.c builder arithmetic
    if not re.search(r'offset\s*=\s*sizeof\s*\(\s*guint32\s*\)\s*\+\s*cmph_packed_size\s*\(\s*builder->c\s*\)\s*;\s*'
                     r'builder->dirmap_offset\s*=\s*ALIGN_VALUE\s*\(\s*offset\s*,\s*4\s*\)\s*;\s*'
                     r'builder->packed_size\s*=\s*builder->dirmap_offset\s*\+\s*\(\s*num_elts\s*\*\s*sizeof\s*\(\s*guint16\s*\)\s*\)\s*;', g):
        raise TranslationError('builder size arithmetic in gthash.c not recognised')
    write_gen('HashSizes.v', 'From Coq Require Import ZArith.\nLocal Open Scope Z_scope.\n'
              '(* #define ALIGN_VALUE(this, boundary) %s *)\n'
              'Definition align_value (this boundary : Z) : Z := %s.\n'
              '(* `%s required_size;` in add_directory_index_section *)\n'
              'Definition required_size_bits : Z := %d.\n' % (b1, t1, d.group(1), bits))


if __name__ == '__main__':
    main()
