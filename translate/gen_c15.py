"""Gen/GirVocab.v: the element vocabulary of the two ends of the GIR hand-over.

writer_elements: every element name giscanner/girwriter.py can emit, read off its syntax tree:
  string literals given to write_tag / tagcontext / push_tag, the literals that can reach the
  variables used there (tag_name, nodename), and the tag arguments of _write_callable /
  _write_parameter.  Anything else in that position fails the translation (fail-closed).
parser_elements: every string literal girepository/girparser.c compares element_name with."""
import ast as pyast
import os
import re

from genutil import write_gen, coqstr, TranslationError, REPO


def writer_elements():
    path = os.path.join(REPO, 'giscanner', 'girwriter.py')
    tree = pyast.parse(open(path).read())
    names = set()
    var_values = {}      # function name -> variable -> set of literals assigned

    class V(pyast.NodeVisitor):
        def __init__(self):
            self.func = None

        def visit_FunctionDef(self, node):
            prev = self.func
            self.func = node
            vals = var_values.setdefault(node.name, {})
            # defaults of parameters (nodename='parameter')
            args = node.args.args
            defaults = node.args.defaults
            for a, d in zip(args[len(args) - len(defaults):], defaults):
                if isinstance(d, pyast.Constant) and isinstance(d.value, str):
                    vals.setdefault(a.arg, set()).add(d.value)
            for sub in pyast.walk(node):
                if isinstance(sub, pyast.Assign) and len(sub.targets) == 1 and isinstance(sub.targets[0], pyast.Name):
                    if isinstance(sub.value, pyast.Constant) and isinstance(sub.value.value, str):
                        vals.setdefault(sub.targets[0].id, set()).add(sub.value.value)
            self.generic_visit(node)
            self.func = prev

        def visit_Call(self, node):
            f = node.func
            if isinstance(f, pyast.Attribute) and f.attr in ('write_tag', 'tagcontext', 'push_tag'):
                if not node.args:
                    raise TranslationError('%s without arguments at line %d' % (f.attr, node.lineno))
                a = node.args[0]
                if isinstance(a, pyast.Constant) and isinstance(a.value, str):
                    names.add(a.value)
                elif isinstance(a, pyast.Name):
                    vals = var_values.get(self.func.name, {}).get(a.id) or set()
                    param_names = [x.arg for x in self.func.args.args]
                    if not vals and a.id not in param_names:
                        raise TranslationError('element name %s at line %d has no literal source' % (a.id, node.lineno))
                    names.update(vals)
                    # a parameter is (also) given by the callers: collected below, literals only
                    if a.id in param_names:
                        pending.append((self.func.name, param_names.index(a.id), a.id))
                else:
                    raise TranslationError('unsupported element name expression at line %d' % node.lineno)
            self.generic_visit(node)
    pending = []
    V().visit(tree)
    # literals passed by callers to the functions whose parameter is used as element name; a caller
    # that passes one of its own parameters on is followed in turn (worklist)
    funcs = {n.name: n for n in pyast.walk(tree) if isinstance(n, pyast.FunctionDef)}
    enclosing = {}
    for fn in funcs.values():
        for sub in pyast.walk(fn):
            if isinstance(sub, pyast.Call):
                enclosing[id(sub)] = fn
    seen = set()
    while pending:
        fname, idx, pname = pending.pop()
        if (fname, pname) in seen:
            continue
        seen.add((fname, pname))
        for node in pyast.walk(tree):
            if isinstance(node, pyast.Call) and isinstance(node.func, pyast.Attribute) and node.func.attr == fname:
                arg = None
                pos = idx - 1          # self is not passed
                if pos < len(node.args):
                    arg = node.args[pos]
                for kw in node.keywords:
                    if kw.arg == pname:
                        arg = kw.value
                if arg is None:
                    continue
                if isinstance(arg, pyast.Constant) and isinstance(arg.value, str):
                    names.add(arg.value)
                elif isinstance(arg, pyast.Name) and id(node) in enclosing \
                        and arg.id in [x.arg for x in enclosing[id(node)].args.args]:
                    caller = enclosing[id(node)]
                    names.update(var_values.get(caller.name, {}).get(arg.id) or set())
                    pending.append((caller.name, [x.arg for x in caller.args.args].index(arg.id), arg.id))
                else:
                    raise TranslationError('call of %s at line %d passes a non-literal element name' % (fname, node.lineno))
    if len(names) < 30:
        raise TranslationError('suspiciously few element names in girwriter.py: %r' % sorted(names))
    return sorted(names)


def parser_elements():
    src = open(os.path.join(REPO, 'girepository', 'girparser.c')).read()
    src = re.sub(r'/\*.*?\*/', '', src, flags=re.S)
    # `== 0` in the dispatcher, `!= 0` in the early returns of the start_* functions
    names = set(re.findall(r'strcmp\s*\(\s*element_name\s*,\s*"([^"]+)"\s*\)\s*[=!]=\s*0', src))
    names |= set(re.findall(r'strcmp\s*\(\s*"([^"]+)"\s*,\s*element_name\s*\)\s*[=!]=\s*0', src))
    if len(names) < 30:
        raise TranslationError('suspiciously few element names in girparser.c: %r' % sorted(names))
    # any other comparison on element_name would make the extraction incomplete
    other = re.findall(r'[^\n]*\belement_name\b[^\n]*', src)
    for l in other:
        if 'strcmp' in l or 'g_str_has_prefix (element_name, "c:")' in l:
            continue
        if re.search(r'(strncmp|g_str_equal|g_strcmp0|g_str_has_suffix|switch\s*\(\s*element_name\s*\[0\]\s*\))', l) and 'switch' not in l:
            raise TranslationError('unrecognised test on element_name: ' + l.strip())
    return sorted(names)


def main():
    w = writer_elements()
    p = parser_elements()
    lines = ['From Coq Require Import List NArith.', 'Import ListNotations.', 'Local Open Scope N_scope.',
             '(* element names giscanner/girwriter.py can emit *)',
             'Definition writer_elements : list (list N) := [', ';\n'.join('  %s (* %s *)' % (coqstr(x), x) for x in w), '].',
             '(* element names girepository/girparser.c recognises (elements starting with "c:" are skipped silently) *)',
             'Definition parser_elements : list (list N) := [', ';\n'.join('  %s (* %s *)' % (coqstr(x), x) for x in p), '].']
    write_gen('GirVocab.v', '\n'.join(lines) + '\n')


if __name__ == '__main__':
    main()
