"""Gen/ValidateRules.v: the per-annotation validation rules of giscanner/annotationparser.py.

Every `_do_validate_<name>` method of GtkDocAnnotatable is read from the syntax tree of the working tree's source: its body must
be a single call `self._validate_annotation(position, ann_name, options, <keywords>)` (the keywords become a rule), `pass`, or -
for `array` - the option loop, whose shape is checked against a template.  The lists of annotation names valid on an identifier,
a parameter and a tag are taken from the imported classes.  Anything else aborts the translation (fail-closed).
"""
import ast
import os

from genutil import write_gen, setup_repo_path, coqstr, TranslationError, REPO


def strs(l):
    return '[%s]' % '; '.join(coqstr(x) for x in l)


def main():
    setup_repo_path()
    from giscanner import annotationparser as ap
    src = open(os.path.join(REPO, 'giscanner', 'annotationparser.py')).read()
    tree = ast.parse(src)
    cls = [n for n in tree.body if isinstance(n, ast.ClassDef) and n.name == 'GtkDocAnnotatable']
    if len(cls) != 1:
        raise TranslationError('class GtkDocAnnotatable not found')
    rules = []
    seen_array = False
    for fn in cls[0].body:
        if not (isinstance(fn, ast.FunctionDef) and fn.name.startswith('_do_validate_')):
            continue
        name = fn.name[len('_do_validate_'):].replace('_', '-')
        body = [st for st in fn.body if not (isinstance(st, ast.Expr) and isinstance(st.value, ast.Constant) and isinstance(st.value.value, str))]
        if [a.arg for a in fn.args.args] != ['self', 'position', 'ann_name', 'options']:
            raise TranslationError('%s: unexpected signature' % fn.name)
        if name == 'array':
            seen_array = True
            dump = ast.dump(ast.Module(body=body, type_ignores=[]))
            want = ast.dump(ast.parse(ARRAY_TEMPLATE).body[0].body and ast.Module(body=ast.parse(ARRAY_TEMPLATE).body[0].body, type_ignores=[]))
            if dump != want:
                raise TranslationError('_do_validate_array no longer has the modelled shape')
            continue
        if len(body) == 1 and isinstance(body[0], ast.Pass):
            rules.append((name, None))
            continue
        if not (len(body) == 1 and isinstance(body[0], ast.Expr) and isinstance(body[0].value, ast.Call)):
            raise TranslationError('%s: body is not a single call' % fn.name)
        call = body[0].value
        f = call.func
        if not (isinstance(f, ast.Attribute) and f.attr == '_validate_annotation' and isinstance(f.value, ast.Name) and f.value.id == 'self'):
            raise TranslationError('%s: does not call self._validate_annotation' % fn.name)
        if [getattr(a, 'id', None) for a in call.args] != ['position', 'ann_name', 'options']:
            raise TranslationError('%s: unexpected positional arguments' % fn.name)
        kw = dict(exact_n_options=None, min_n_options=None, max_n_options=None, choices=None)
        for k in call.keywords:
            if k.arg not in kw:
                raise TranslationError('%s: unknown keyword %s' % (fn.name, k.arg))
            if isinstance(k.value, ast.Constant):
                kw[k.arg] = k.value.value
            elif isinstance(k.value, ast.Name) and isinstance(getattr(ap, k.value.id, None), (list, tuple)):
                kw[k.arg] = list(getattr(ap, k.value.id))
            else:
                raise TranslationError('%s: keyword %s is not a constant' % (fn.name, k.arg))
        for k in ('exact_n_options', 'min_n_options', 'max_n_options'):
            if kw[k] is not None and not (isinstance(kw[k], int) and kw[k] >= 0):
                raise TranslationError('%s: %s' % (fn.name, k))
        rules.append((name, kw))
    if not seen_array:
        raise TranslationError('_do_validate_array not found')
    # the shared helper and the dispatcher are compared with templates, too
    for fname, tmpl in (('_validate_annotation', VALIDATE_ANNOTATION_TEMPLATE), ('_validate_options', VALIDATE_OPTIONS_TEMPLATE),
                        ('validate', VALIDATE_TEMPLATE)):
        fn = [n for n in cls[0].body if isinstance(n, ast.FunctionDef) and n.name == fname]
        if len(fn) != 1:
            raise TranslationError('%s not found' % fname)
        body = [st for st in fn[0].body if not (isinstance(st, ast.Expr) and isinstance(st.value, ast.Constant) and isinstance(st.value.value, str))]
        want = ast.parse(tmpl).body[0].body
        if ast.dump(ast.Module(body=body, type_ignores=[])) != ast.dump(ast.Module(body=want, type_ignores=[])):
            raise TranslationError('GtkDocAnnotatable.%s no longer has the modelled shape' % fname)

    def opt(v):
        return 'None' if v is None else '(Some %d%%nat)' % v
    lines = ['From Coq Require Import List NArith.', 'Import ListNotations.', 'Local Open Scope N_scope.',
             'Record vrule := { vr_exact : option nat; vr_min : option nat; vr_max : option nat; vr_choices : option (list (list N)) }.',
             '(* None: the annotation takes free-form options (no check) *)',
             'Definition validate_rules : list (list N * option vrule) := [']
    items = []
    for name, kw in rules:
        if kw is None:
            items.append('  (%s, None) (* %s *)' % (coqstr(name), name))
        else:
            items.append('  (%s, Some {| vr_exact := %s; vr_min := %s; vr_max := %s; vr_choices := %s |}) (* %s *)'
                         % (coqstr(name), opt(kw['exact_n_options']), opt(kw['min_n_options']), opt(kw['max_n_options']),
                            'None' if kw['choices'] is None else '(Some %s)' % strs(kw['choices']), name))
    lines.append(';\n'.join(items) + '].')
    for nm, c in (('valid_on_block', ap.GtkDocCommentBlock), ('valid_on_parameter', ap.GtkDocParameter), ('valid_on_tag', ap.GtkDocTag)):
        for a in c.valid_annotations:
            if a != 'array' and a not in [r[0] for r in rules]:
                raise TranslationError('%s lists %r which has no _do_validate_ method' % (c.__name__, a))
        lines.append('Definition %s : list (list N) := %s.' % (nm, strs(c.valid_annotations)))
    lines += ['Definition all_annotations : list (list N) := %s.' % strs(ap.ALL_ANNOTATIONS),
              'Definition ann_not : list N := %s.' % coqstr(ap.ANN_NOT), 'Definition ann_nullable : list N := %s.' % coqstr(ap.ANN_NULLABLE),
              'Definition ann_allow_none : list N := %s.' % coqstr(ap.ANN_ALLOW_NONE), 'Definition ann_optional : list N := %s.' % coqstr(ap.ANN_OPTIONAL),
              'Definition opt_not_nullable : list N := %s.' % coqstr(ap.OPT_NOT_NULLABLE), 'Definition opt_not_optional : list N := %s.' % coqstr(ap.OPT_NOT_OPTIONAL),
              'Definition ann_array : list N := %s.' % coqstr(ap.ANN_ARRAY), 'Definition opt_fixed_size : list N := %s.' % coqstr(ap.OPT_ARRAY_FIXED_SIZE),
              'Definition opt_zero_terminated : list N := %s.' % coqstr(ap.OPT_ARRAY_ZERO_TERMINATED),
              'Definition opt_length : list N := %s.' % coqstr(ap.OPT_ARRAY_LENGTH)]
    write_gen('ValidateRules.v', '\n'.join(lines) + '\n')


ARRAY_TEMPLATE = '''
def f(self, position, ann_name, options):
    if len(options) == 0:
        return

    for option, value in options.items():
        if option == OPT_ARRAY_FIXED_SIZE:
            try:
                int(value)
            except (TypeError, ValueError):
                if value is None:
                    warn('"%s" annotation option "%s" needs a value' % (ann_name, option),
                         position)
                else:
                    warn('invalid "%s" annotation option "%s" value "%s", must be an integer' %
                         (ann_name, option, value),
                         position)
        elif option == OPT_ARRAY_ZERO_TERMINATED:
            if value is not None and value not in ['0', '1']:
                warn('invalid "%s" annotation option "%s" value "%s", must be 0 or 1' %
                     (ann_name, option, value),
                     position)
        elif option == OPT_ARRAY_LENGTH:
            if value is None:
                warn('"%s" annotation option "length" needs a value' % (ann_name, ),
                     position)
        else:
            warn('invalid "%s" annotation option: "%s"' % (ann_name, option),
                 position)
'''

VALIDATE_ANNOTATION_TEMPLATE = '''
def f(self, position, ann_name, options, choices=None,
      exact_n_options=None, min_n_options=None, max_n_options=None):
    n_options = len(options)

    if exact_n_options is not None:
        self._validate_options(position,
                               ann_name, n_options, exact_n_options, ne, 'needs')

    if min_n_options is not None:
        self._validate_options(position,
                               ann_name, n_options, min_n_options, lt, 'takes at least')

    if max_n_options is not None:
        self._validate_options(position,
                               ann_name, n_options, max_n_options, gt, 'takes at most')

    if options and choices is not None:
        option = options[0]
        if option not in choices:
            warn('invalid "%s" annotation option: "%s"' % (ann_name, option), position)
'''

VALIDATE_OPTIONS_TEMPLATE = '''
def f(self, position, ann_name, n_options, expected_n_options, operator, message):
    if n_options == 0:
        t = 'none'
    else:
        t = '%d' % (n_options, )

    if expected_n_options == 0:
        s = 'no options'
    elif expected_n_options == 1:
        s = 'one option'
    else:
        s = '%d options' % (expected_n_options, )

    if operator(n_options, expected_n_options):
        warn('"%s" annotation %s %s, %s given' % (ann_name, message, s, t), position)
'''

VALIDATE_TEMPLATE = '''
def f(self):
    if self.annotations:
        position = self.annotations.position

        for ann_name, options in self.annotations.items():
            if ann_name in self.valid_annotations:
                validate = getattr(self, '_do_validate_' + ann_name.replace('-', '_'))
                validate(position, ann_name, options)
            elif ann_name in ALL_ANNOTATIONS:
                # Not error() as ann_name might be valid in some newer
                # GObject-Instrospection version.
                warn('unexpected annotation: %s' % (ann_name, ), position)
            else:
                # Not error() as ann_name might be valid in some newer
                # GObject-Instrospection version.
                warn('unknown annotation: %s' % (ann_name, ), position)

            # Validate that (nullable) and (not nullable) are not both
            # present. Same for (allow-none) and (not nullable).
            if ann_name == ANN_NOT and OPT_NOT_NULLABLE in options:
                if ANN_NULLABLE in self.annotations:
                    warn('cannot have both "%s" and "%s" present' %
                         (ANN_NOT + ' ' + OPT_NOT_NULLABLE, ANN_NULLABLE),
                         position)
                if ANN_ALLOW_NONE in self.annotations:
                    warn('cannot have both "%s" and "%s" present' %
                         (ANN_NOT + ' ' + OPT_NOT_NULLABLE, ANN_ALLOW_NONE),
                         position)

            # Similarly for (optional) and (not optional).
            if ann_name == ANN_NOT and OPT_NOT_OPTIONAL in options:
                if ANN_OPTIONAL in self.annotations:
                    warn('cannot have both "%s" and "%s" present' %
                         (ANN_NOT + ' ' + OPT_NOT_OPTIONAL, ANN_OPTIONAL),
                         position)
'''

if __name__ == '__main__':
    main()
