"""A small, fail-closed parser for C integer expressions (the arithmetic of GI_ALIGN and of
the typelib accessor offsets) and a printer to Gallina terms over Z.

Operators: + - * / % & | ^ << >> unary - ~ and parentheses, identifiers, a->b, a.b, integer
literals, sizeof (T) with T looked up in a caller-supplied table, casts to integer types
(dropped).  `/` and `%` are translated to Z.quot / Z.rem (C truncating semantics)."""
import re

TOK = re.compile(r'\s*(?:(\d+)[uUlL]*|([A-Za-z_][A-Za-z_0-9]*)|(->|<<|>>|[-+*/%&|^~().,\[\]]))')

CASTS = {'gint', 'guint', 'guint32', 'gint32', 'gsize', 'int', 'unsigned', 'guint16', 'gint64', 'guint64',
         'size_t', 'gssize', 'guint8', 'long', 'short', 'char', 'signed'}


class CExprError(Exception):
    pass


def tokenize(s):
    pos = 0
    out = []
    s = s.strip()
    while pos < len(s):
        m = TOK.match(s, pos)
        if not m:
            raise CExprError('cannot tokenize at %r' % s[pos:pos + 20])
        if m.group(1) is not None:
            out.append(('num', int(m.group(1))))
        elif m.group(2) is not None:
            out.append(('id', m.group(2)))
        else:
            out.append(('op', m.group(3)))
        pos = m.end()
    return out


PREC = [['|'], ['^'], ['&'], ['<<', '>>'], ['+', '-'], ['*', '/', '%']]


class Parser(object):
    def __init__(self, toks, sizeof=None):
        self.t = toks
        self.i = 0
        self.sizeof = sizeof or {}

    def peek(self):
        return self.t[self.i] if self.i < len(self.t) else (None, None)

    def eat(self, kind=None, val=None):
        k, v = self.peek()
        if k is None or (kind and k != kind) or (val is not None and v != val):
            raise CExprError('expected %r %r, got %r %r' % (kind, val, k, v))
        self.i += 1
        return v

    def parse(self):
        e = self.binary(0)
        if self.i != len(self.t):
            raise CExprError('trailing tokens: %r' % (self.t[self.i:],))
        return e

    def binary(self, lvl):
        if lvl == len(PREC):
            return self.unary()
        e = self.binary(lvl + 1)
        while True:
            k, v = self.peek()
            if k == 'op' and v in PREC[lvl]:
                self.i += 1
                r = self.binary(lvl + 1)
                e = ('bin', v, e, r)
            else:
                return e

    def unary(self):
        k, v = self.peek()
        if k == 'op' and v in ('-', '~', '+'):
            self.i += 1
            e = self.unary()
            return e if v == '+' else ('un', v, e)
        return self.postfix()

    def postfix(self):
        k, v = self.peek()
        if k == 'num':
            self.i += 1
            return ('num', v)
        if k == 'id' and v == 'sizeof':
            self.i += 1
            self.eat('op', '(')
            name = []
            while self.peek() != ('op', ')'):
                name.append(str(self.eat()))
            self.eat('op', ')')
            key = ' '.join(name)
            if key not in self.sizeof:
                raise CExprError('sizeof (%s) unknown' % key)
            return ('num', self.sizeof[key])
        if k == 'id':
            self.i += 1
            name = v
            while self.peek() in (('op', '->'), ('op', '.')):
                self.i += 1
                name = name + '.' + self.eat('id')
            return ('id', name)
        if k == 'op' and v == '(':
            # cast?  ( type-word+ )
            j = self.i + 1
            while j < len(self.t) and self.t[j][0] == 'id' and self.t[j][1] in CASTS:
                j += 1
            if j > self.i + 1 and j < len(self.t) and self.t[j] == ('op', ')'):
                self.i = j + 1
                return self.unary()
            self.i += 1
            e = self.binary(0)
            self.eat('op', ')')
            return e
        raise CExprError('unexpected token %r %r' % (k, v))


def parse(s, sizeof=None):
    return Parser(tokenize(s), sizeof).parse()


OPS = {'+': 'Z.add', '-': 'Z.sub', '*': 'Z.mul', '/': 'Z.quot', '%': 'Z.rem', '&': 'Z.land', '|': 'Z.lor',
       '^': 'Z.lxor', '<<': 'Z.shiftl', '>>': 'Z.shiftr'}


def to_coq(e, rename=lambda n: n.split('.')[-1]):
    k = e[0]
    if k == 'num':
        return '%d' % e[1]
    if k == 'id':
        return rename(e[1])
    if k == 'un':
        return '(%s %s)' % ('Z.opp' if e[1] == '-' else 'Z.lnot', to_coq(e[2], rename))
    if k == 'bin':
        return '(%s %s %s)' % (OPS[e[1]], to_coq(e[2], rename), to_coq(e[3], rename))
    raise CExprError('bad node %r' % (e,))


def idents(e, acc=None):
    acc = acc if acc is not None else []
    if e[0] == 'id' and e[1] not in acc:
        acc.append(e[1])
    elif e[0] == 'un':
        idents(e[2], acc)
    elif e[0] == 'bin':
        idents(e[2], acc)
        idents(e[3], acc)
    return acc
