"""Gen/LddPattern.v and Gen/LibtoolPat.v from giscanner/shlibs.py and giscanner/utils.py."""
import re
from genutil import write_gen, setup_repo_path, TranslationError
import regex2coq

PLACEHOLDER = 'QQNAMEQQ'


def main():
    setup_repo_path()
    from giscanner import shlibs, utils
    pat = shlibs._ldd_library_pattern(PLACEHOLDER)
    if pat.flags & ~(re.VERBOSE | re.UNICODE):
        raise TranslationError('unexpected flags on _ldd_library_pattern: %r' % pat.flags)
    # re.escape is the identity on the placeholder; on arbitrary names it yields a
    # pattern matching the name literally (correspondence-tested with metacharacters).
    if re.escape(PLACEHOLDER) != PLACEHOLDER:
        raise TranslationError('placeholder not escape-stable')
    term = regex2coq.to_re(pat.pattern, pat.flags & re.VERBOSE, placeholder=PLACEHOLDER)
    if 'Lit name' not in term:
        raise TranslationError('library name does not occur literally in the pattern')
    text = ('From Coq Require Import List NArith.\nFrom GIV.Lib Require Import Regex.\n'
            'Import ListNotations.\nLocal Open Scope N_scope.\n'
            '(* source pattern: %s *)\n'
            'Definition ldd_regex (name : str) : re :=\n  %s.\n'
            % (pat.pattern.replace('(*', '( *').replace('*)', '* )'), term))
    write_gen('LddPattern.v', text)

    lp = utils._libtool_pat
    if lp.flags & ~re.UNICODE:
        raise TranslationError('unexpected flags on _libtool_pat')
    bterm = regex2coq.to_bre(lp.pattern, 0)
    text = ('From Coq Require Import List NArith.\nFrom GIV.Lib Require Import Regex Backtrack.\n'
            'Import ListNotations.\nLocal Open Scope N_scope.\n'
            'Definition libtool_pat : bre :=\n  %s.\n' % bterm)
    write_gen('LibtoolPat.v', text)


if __name__ == '__main__':
    main()
