"""Shared machinery of the checks: translators, Coq build, in-Coq evaluation of case
files, gate, evidence, verdict protocol."""
import fcntl
import hashlib
import json
import os
import re
import subprocess
import sys
import time

ROOT = os.path.dirname(os.path.dirname(os.path.abspath(__file__)))
COQ = os.path.join(ROOT, 'coq')
REPO = os.environ.get('GIV_REPO', '/repo')
PY = '/venv/bin/python'
BUILD = os.path.join(ROOT, 'build')
NPROC = os.cpu_count() or 4

FORBIDDEN = re.compile(r'\b(Admitted|admit|Axiom|Axioms|Parameter|Parameters|Conjecture|Conjectures|'
                       r'Hypothesis|Hypotheses|Abort All|bypass_check)\b|Unset Guard|Admit Obligations|'
                       r'Unset Positivity|Unset Universe|type-in-type|impredicative-set')


def env_for_impl():
    e = dict(os.environ)
    e['PYTHONPATH'] = REPO
    e.setdefault('PYTHONHASHSEED', '0')
    e['GIV_REPO'] = REPO
    e['GI_SCANNER_DISABLE_CACHE'] = '1'
    return e


class Lock(object):
    def __init__(self, name):
        os.makedirs(BUILD, exist_ok=True)
        self.path = os.path.join(BUILD, name + '.lock')

    def __enter__(self):
        self.f = open(self.path, 'w')
        fcntl.flock(self.f, fcntl.LOCK_EX)
        return self

    def __exit__(self, *a):
        fcntl.flock(self.f, fcntl.LOCK_UN)
        self.f.close()


def run(cmd, timeout=600, cwd=None, env=None, input=None):
    try:
        p = subprocess.run(cmd, cwd=cwd, env=env, input=input, timeout=timeout,
                           stdout=subprocess.PIPE, stderr=subprocess.STDOUT, text=True)
        return p.returncode, p.stdout
    except subprocess.TimeoutExpired as e:
        out = e.stdout or ''
        if isinstance(out, bytes):
            out = out.decode('utf-8', 'replace')
        return 124, out + '\n[timeout after %ss]' % timeout


# ------------------------------------------------------------------ translators

def regen(translators):
    """Run translator scripts (names under /verif/translate). Returns (ok, log)."""
    log = []
    ok = True
    for t in translators:
        rc, out = run([PY, os.path.join(ROOT, 'translate', t)], timeout=300,
                      cwd=os.path.join(ROOT, 'translate'), env=env_for_impl())
        log.append('== %s rc=%d\n%s' % (t, rc, out))
        if rc != 0:
            ok = False
    return ok, '\n'.join(log)


# ------------------------------------------------------------------ Coq

def coq_project():
    """(Re)write _CoqProject and Makefile when the file list changed."""
    files = []
    for d in ('Lib', 'Gen', 'Model', 'Proofs', 'Props'):
        p = os.path.join(COQ, d)
        if os.path.isdir(p):
            for f in sorted(os.listdir(p)):
                if f.endswith('.v') and not f.startswith('.'):
                    files.append('%s/%s' % (d, f))
    text = ('-Q . GIV\n-arg -w -arg -notation-overridden,-deprecated-hint-without-locality,'
            '-deprecated-instance-without-locality,-deprecated-hint-rewrite-without-locality\n'
            + '\n'.join(files) + '\n')
    cp = os.path.join(COQ, '_CoqProject')
    old = open(cp).read() if os.path.exists(cp) else None
    if old != text or not os.path.exists(os.path.join(COQ, 'Makefile')):
        open(cp, 'w').write(text)
        rc, out = run(['coq_makefile', '-f', '_CoqProject', '-o', 'Makefile'], cwd=COQ)
        if rc != 0:
            raise RuntimeError('coq_makefile failed: ' + out)


def coq_make(targets, timeout=1500):
    """Full .vo build of the given targets (and their dependency cone)."""
    with Lock('coq'):
        coq_project()
        rc, out = run(['make', '-j%d' % NPROC] + list(targets), cwd=COQ, timeout=timeout)
    return rc == 0, out


def gate(files=None):
    """No Admitted/admit/Axiom/... anywhere in the development."""
    bad = []
    for d, _, fs in os.walk(COQ):
        if os.path.basename(d) == 'Cases':
            continue
        for f in fs:
            if f.endswith('.v'):
                p = os.path.join(d, f)
                txt = open(p).read()
                txt = re.sub(r'\(\*.*?\*\)', '', txt, flags=re.S)
                for m in FORBIDDEN.finditer(txt):
                    bad.append('%s: %s' % (os.path.relpath(p, COQ), m.group(0)))
    return bad


def theorem_names(prop):
    txt = open(os.path.join(COQ, 'Props', prop + '.v')).read()
    return re.findall(r'^\s*(?:Theorem|Corollary)\s+(\w+)', txt, flags=re.M)


def coq_eval(name, text, timeout=900):
    """Compile coq/Cases/<name>.v and return (rc, output)."""
    d = os.path.join(COQ, 'Cases')
    os.makedirs(d, exist_ok=True)
    p = os.path.join(d, name + '.v')
    open(p, 'w').write(text)
    rc, out = run(['coqc', '-Q', '.', 'GIV', '-w', '-all', 'Cases/%s.v' % name], cwd=COQ, timeout=timeout)
    return rc, out


def print_assumptions(prop):
    """{theorem: assumptions text} for every theorem of Props/<prop>.v."""
    names = theorem_names(prop)
    text = 'From GIV.Props Require Import %s.\n' % prop
    for n in names:
        text += 'Print Assumptions %s.\n' % n
    rc, out = coq_eval(prop + '_assum', text)
    res = {}
    if rc != 0:
        return None, out
    chunks = re.split(r'(?=Closed under the global context|Axioms:)', out)
    chunks = [c.strip() for c in chunks if c.strip()]
    for n, c in zip(names, chunks):
        res[n] = ' '.join(c.split())
    if len(chunks) != len(names):
        return None, out
    return res, out


def parse_defs(out):
    """Parse `Print x.` outputs of the form  `x = <term>\n     : type`."""
    res = {}
    for m in re.finditer(r'^(\w+) =\s*(.*?)\n\s+: ', out, flags=re.S | re.M):
        res[m.group(1)] = ' '.join(m.group(2).split())
    return res


def parse_nlist(term):
    """'[1; 2; 3]%N' or '[]' -> [1,2,3]"""
    t = term.strip()
    t = re.sub(r'%\w+$', '', t).strip()
    if t.startswith('(') and t.endswith(')'):
        t = t[1:-1].strip()
    t = re.sub(r'%\w+', '', t)
    if t in ('[]', 'nil'):
        return []
    if not (t.startswith('[') and t.endswith(']')):
        raise ValueError('cannot parse list: %r' % term[:200])
    body = t[1:-1].strip()
    return [int(x) for x in body.split(';')] if body else []


# ------------------------------------------------------------------ Coq literals

def cstr(s):
    return '[' + ';'.join(str(ord(c)) for c in s) + ']'


def clist(items):
    return '[' + ';'.join(items) + ']'


def cbool(b):
    return 'true' if b else 'false'


def copt(x, f=lambda v: v):
    return 'None' if x is None else '(Some %s)' % f(x)


# ------------------------------------------------------------------ evidence, verdict

def digest(obj):
    return hashlib.sha256(json.dumps(obj, sort_keys=True, ensure_ascii=True).encode()).hexdigest()[:16]


def load_known():
    p = os.path.join(ROOT, 'known-findings.json')
    if not os.path.exists(p):
        return []
    return json.load(open(p)).get('findings', [])


class Check(object):
    """Collects the outcome of one property check and applies the verdict protocol."""

    def __init__(self, prop, tier, seed):
        self.prop, self.tier, self.seed = prop, tier, seed
        self.t0 = time.time()
        self.obligations = 0
        self.discharged = 0
        self.trusted = []
        self.assumptions = []
        self.evaluations = 0
        self.distinct = set()
        self.samples = []
        self.hist = {}
        self.violations = []      # (kind, replay-dict)  kind in {'input', 'tie'}
        self.known_hits = []
        self.notes = []
        self.extra = {}
        self.theorems = {}

    # ---- proofs
    def prove(self, translators=(), models=()):
        """Regenerate Gen files, build the executable models (so that the search for a
        failing input still works when a proof breaks), then Props/<prop>.vo, gate,
        Print Assumptions.  self.models_ok tells whether case files can be evaluated."""
        self.models_ok = False
        ok, log = regen(translators)
        if not ok:
            self.tie_broken('translator', 'translator failed (fail-closed):\n' + log[-3000:])
            return False
        names = theorem_names(self.prop)
        self.obligations += len(names)
        if models:
            ok, out = coq_make(list(models))
            if not ok:
                self.tie_broken('model', 'executable model no longer builds against regenerated definitions:\n'
                                + out[-3000:])
                return False
        self.models_ok = True
        ok, out = coq_make(['Props/%s.vo' % self.prop])
        if not ok:
            err = out[-4000:]
            m = re.search(r'File "\./([^"]+)", line (\d+)', out)
            where = '%s:%s' % (m.group(1), m.group(2)) if m else 'unknown'
            self.tie_broken('proof', 'proof obligations no longer check (%s):\n%s' % (where, err))
            return False
        bad = gate()
        if bad:
            self.tie_broken('gate', 'forbidden constructs in the development: %s' % bad)
            return False
        res, out = print_assumptions(self.prop)
        if res is None:
            self.tie_broken('proof', 'Print Assumptions failed:\n' + out[-2000:])
            return False
        self.theorems = res
        for n, a in res.items():
            if not a.startswith('Closed under the global context'):
                self.trusted.append('%s depends on: %s' % (n, a))
        self.discharged += len(names)
        return True

    # ---- cases
    def count_case(self, case, nontrivial=True, kind=None):
        self.evaluations += 1
        if nontrivial:
            self.distinct.add(digest(case))
        if kind is not None:
            self.hist[kind] = self.hist.get(kind, 0) + 1
        if len(self.samples) < 5 and nontrivial:
            self.samples.append(case)

    def tie_broken(self, what, detail, first_input=None):
        self.violations.append(('tie', dict(kind=what, detail=detail, first_disagreeing_input=first_input)))

    def failing_input(self, what, case, detail=None, fid=None):
        """A concrete input on which the implementation violates the property."""
        d = digest(case)
        for k in load_known():
            if k.get('property') == self.prop and (k.get('digest') == d or (fid and k.get('id') == fid)) \
                    and k.get('status', 'open') == 'open':
                self.known_hits.append((k, what))
                return
        self.violations.append(('input', dict(kind=what, input=case, detail=detail, digest=d, finding_id=fid)))

    # ---- finish
    def finish(self, level='proof', rule='', checker_cmd=None, explanation=None):
        wall = time.time() - self.t0
        os.makedirs(os.path.join(ROOT, 'evidence'), exist_ok=True)
        os.makedirs(os.path.join(ROOT, 'replay'), exist_ok=True)
        inputs = [v for k, v in self.violations if k == 'input']
        ties = [v for k, v in self.violations if k == 'tie']
        cov = dict(obligations=self.obligations, discharged=self.discharged,
                   checker_cmd=checker_cmd or ('make -C /verif/coq Props/%s.vo (coqc 8.16.1, full .vo) + '
                                               'Print Assumptions per theorem' % self.prop),
                   trusted_base=self.trusted,
                   evaluations=self.evaluations, distinct_nontrivial=len(self.distinct),
                   rule=rule, samples=self.samples, input_distribution=self.hist,
                   theorems=self.theorems, notes=self.notes)
        cov.update(self.extra)
        if explanation:
            cov['explanation'] = explanation
        ev = dict(property_id=self.prop, tier=self.tier, seed=self.seed, level=level, coverage=cov,
                  assumptions=self.assumptions, wall_s=round(wall, 2),
                  violations=len(inputs) + (1 if ties and not inputs else 0))
        seen_known = {}
        for k, what in self.known_hits:
            seen_known.setdefault(k.get('id', k.get('digest', '')), [k, 0])[1] += 1
        for kid, (k, n) in seen_known.items():
            print('KNOWN-FINDING: property=%s %s (%s; %d inputs of this run)' % (self.prop, k.get('what', ''), kid, n))
        cov['known_findings_hit'] = {kid: n for kid, (k, n) in seen_known.items()}
        json.dump(ev, open(os.path.join(ROOT, 'evidence', self.prop + '.json'), 'w'), indent=1,
                  ensure_ascii=True, default=str)
        rc = 0
        if inputs:
            seen = set()
            for i, v in enumerate(inputs):
                if v['digest'] in seen:
                    continue
                seen.add(v['digest'])
                if len(seen) > 5:
                    break
                path = os.path.join(ROOT, 'replay', '%s_%s.json' % (self.prop, v['digest']))
                v2 = dict(v)
                v2.update(property=self.prop, seed=self.seed, tier=self.tier, ties_broken=ties[:3])
                json.dump(v2, open(path, 'w'), indent=1, default=str)
                print('VIOLATION property=%s replay=%s' % (self.prop, path))
            rc = 1
        elif ties:
            path = os.path.join(ROOT, 'replay', '%s_tie_%s.json' % (self.prop, digest(ties)))
            json.dump(dict(property=self.prop, seed=self.seed, tier=self.tier, no_longer_checks=ties[:5]),
                      open(path, 'w'), indent=1, default=str)
            for t in ties[:3]:
                sys.stderr.write('[%s] %s: %s\n' % (self.prop, t['kind'], str(t['detail'])[:1500]))
            print('VIOLATION property=%s replay=%s no-failing-input-found' % (self.prop, path))
            rc = 1
        else:
            print('OK property=%s tier=%s theorems=%d/%d cases=%d distinct=%d wall=%.1fs'
                  % (self.prop, self.tier, self.discharged, self.obligations, self.evaluations,
                     len(self.distinct), wall))
        return rc


# ------------------------------------------------------------------ C side

CLIBS = ['/usr/lib/x86_64-linux-gnu/libgio-2.0.so.0', '/usr/lib/x86_64-linux-gnu/libgobject-2.0.so.0',
         '/usr/lib/x86_64-linux-gnu/libgmodule-2.0.so.0', '/usr/lib/x86_64-linux-gnu/libglib-2.0.so.0',
         '-lffi', '-lm', '-ldl']
CBUILD = os.path.join(BUILD, 'c')


def c_build():
    """(Re)build g-ir-compiler, g-ir-generate and the girepository objects from /repo."""
    with Lock('cbuild'):
        rc, out = run(['bash', os.path.join(ROOT, 'cshim', 'build.sh')], timeout=900)
    return rc == 0, out


def c_driver(name, src, exclude=(), with_parser=False, extra_flags=()):
    """Compile a driver (which may #include .c files of /repo to reach static functions)
    and link it against the freshly built objects, leaving out the objects it re-includes."""
    objdir = os.path.join(CBUILD, 'obj')
    objs = []
    for f in sorted(os.listdir(objdir)):
        if not f.endswith('.o'):
            continue
        base = f[:-2]
        if base.startswith('tool_') or base in exclude:
            continue
        if base == 'girparser' and not with_parser:
            continue
        objs.append(os.path.join(objdir, f))
    exe = os.path.join(CBUILD, name)
    cmd = (['gcc', '-O1', '-g', '-w', '-DHAVE_CONFIG_H', '-DGI_COMPILATION', '-DG_IREPOSITORY_COMPILATION',
            '-DG_LOG_DOMAIN="GLib-GIRepository"',
            '-I' + os.path.join(ROOT, 'cshim', 'inc'), '-I' + REPO, '-I' + os.path.join(REPO, 'girepository'),
            '-I' + os.path.join(REPO, 'girepository', 'cmph')] + list(extra_flags) + ['-o', exe, src] + objs + CLIBS)
    with Lock('cbuild'):
        rc, out = run(cmd, timeout=300)
    return (exe if rc == 0 else None), out
