"""C16 — scanner output is deterministic and independent of irrelevant order."""
import copy
import hashlib
import json
import os
import random
import shutil
import subprocess
import sys
import tempfile
from concurrent.futures import ThreadPoolExecutor

from common import Check, coq_eval, parse_defs, parse_nlist, cstr, clist, cbool, copt, REPO, ROOT, PY

HERE = os.path.dirname(os.path.abspath(__file__))
FILES = ['/src/foo-a.h', '/src/foo-b.h', '/src/sub/foo-c.h', '/src/Foo-d.h']
FNAMES = ['alpha', 'Zeta', 'a_b', 'ab', 'a1', 'a', 'beta_2', 'B', 'zz', '_hidden', 'x9', 'X9', 'do_thing', 'do', 'make', 'rec']
TYPES = ['gint', 'guint8', 'gdouble', 'gpointer', 'gchar*', 'gboolean']


def gen_world(rng, k):
    decls = []
    line = {f: 10 for f in FILES}

    def at():
        f = rng.choice(FILES)
        line[f] += rng.randint(1, 30)
        return dict(file=f, line=line[f])
    nrec = rng.randint(2, 5)
    for i in range(nrec):
        name = 'Foo%s%d' % (rng.choice(['Rec', 'Box', 'rec', 'R_']), i)
        tag = '_' + name
        fields = [('f%d' % j, rng.choice(TYPES)) for j in range(rng.randint(0, 3))]
        parts = [dict(k='typedef_struct', name=name, tag=tag, **at()), dict(k='struct', tag=tag, fields=fields, **at())]
        if rng.random() < 0.5:       # forward declaration, somewhere else
            parts.append(dict(k='struct', tag=tag, fields=[], **at()))
        if rng.random() < 0.4 and fields:       # a second typedef of the same tag (GObject / GInitiallyUnowned)
            parts.append(dict(k='typedef_struct', name=name + 'Alt', tag=tag, **at()))
        rng.shuffle(parts)
        decls += parts
        for m in rng.sample(FNAMES, rng.randint(0, 3)):
            if m.startswith('_'):
                continue
            decls.append(dict(k='func', name='foo_%s_%s' % (name[3:].lower().rstrip('_'), m), ret='void',
                              params=[['self', name + '*'], ['x', rng.choice(TYPES)]], **at()))
    for m in rng.sample(FNAMES, rng.randint(3, 8)):
        decls.append(dict(k='func', name='foo_' + m, ret=rng.choice(TYPES + ['void']),
                          params=[['p%d' % j, rng.choice(TYPES)] for j in range(rng.randint(0, 3))], **at()))
    for i in range(rng.randint(1, 3)):
        decls.append(dict(k='enum', name='Foo%s%d' % (rng.choice(['Kind', 'kind', 'Aaa']), i),
                          members=[['FOO_K%d_%s' % (i, w), v] for v, w in enumerate(rng.sample(['A', 'B', 'ZED', 'a1'], rng.randint(1, 3)))], **at()))
    for i in range(rng.randint(1, 3)):
        decls.append(dict(k='alias', name='Foo%s%d' % (rng.choice(['Zalias', 'alias', 'Aalias']), i), target=rng.choice(['gint', 'guint32']), **at()))
    for i in range(rng.randint(1, 3)):
        decls.append(dict(k='const', name='FOO_%s%d' % (rng.choice(['CONST', 'Zc', 'aconst']), i), value=rng.randint(0, 99), **at()))
    for i in range(rng.randint(0, 2)):
        decls.append(dict(k='callback', name='Foo%s%d' % (rng.choice(['Callback', 'Func']), i), params=[['user_data', 'gpointer']], **at()))
    # a class with its class structure (runtime dump)
    decls += [dict(k='typedef_struct', name='FooObj', tag='_FooObj', **at()), dict(k='typedef_struct', name='FooObjClass', tag='_FooObjClass', **at()),
              dict(k='struct', tag='_FooObj', fields=[('parent', 'GObject')], **at()),
              dict(k='struct', tag='_FooObjClass', fields=[('parent_class', 'GObjectClass')], **at()),
              dict(k='func', name='foo_obj_get_type', ret='GType', params=[], **at())]
    for m in rng.sample(FNAMES, rng.randint(1, 4)):
        if not m.startswith('_'):
            decls.append(dict(k='func', name='foo_obj_' + m, ret='void', params=[['self', 'FooObj*']], **at()))
    # a boolean property with several accessor candidates (get_, is_, bare name), declared in whatever files
    bprops = ''
    if rng.random() < 0.9:
        bflags = rng.choice([1, 3])
        bname = rng.choice(['active', 'active', 'is-visible'])
        bn = bname.replace('-', '_')
        bprops = '<property name="%s" type="gboolean" flags="%d"/>' % (bname, bflags)
        for acc in rng.sample(['get_' + bn, 'is_' + bn, bn], rng.randint(2, 3)):
            decls.append(dict(k='func', name='foo_obj_' + acc, ret='gboolean', params=[['self', 'FooObj*']], **at()))
        if bflags == 3 and rng.random() < 0.5:
            decls.append(dict(k='func', name='foo_obj_set_' + bn, ret='void', params=[['self', 'FooObj*'], ['v', 'gboolean']], **at()))
    dump = ('<?xml version="1.0"?><dump><class name="FooObj" get-type="foo_obj_get_type" parents="GObject">'
            + ''.join('<property name="%s" type="gint" flags="3"/>' % p for p in rng.sample(['zeta', 'alpha', 'Beta', 'a-b'], rng.randint(0, 3)))
            + bprops
            + ''.join('<signal name="%s" return="void" when="last"/>' % p for p in rng.sample(['zz', 'changed', 'a-b'], rng.randint(0, 2)))
            + '</class></dump>')
    blocks = []
    bl = 100
    for d in decls:
        if d['k'] == 'func' and rng.random() < 0.6:
            ann = ''.join(' * @%s: %sparameter %s\n' % (n, rng.choice(['', '(nullable): ', '(out): ']) if t.endswith('*') or t == 'gpointer' else '', n)
                          for n, t in d['params'])
            text = '/**\n * %s:\n%s *\n * Does %s.\n *\n * Since: 1.%d\n */' % (d['name'], ann, d['name'], rng.randint(0, 9))
            blocks.append(dict(text=text, file=rng.choice(['/src/foo-a.c', '/src/foo-b.c']), line=bl))
            bl += 20
        elif d['k'] == 'typedef_struct' and rng.random() < 0.5:
            blocks.append(dict(text='/**\n * %s:\n *\n * The %s structure.\n */' % (d['name'], d['name']), file='/src/foo-a.c', line=bl))
            bl += 20
    for i in range(rng.randint(0, 2)):
        blocks.append(dict(text='/**\n * SECTION:sec%s%d\n * @short_description: s\n *\n * Section text %d.\n */' % (rng.choice(['Z', 'a']), i, i),
                           file='/src/foo-b.c', line=bl))
        bl += 20
    # values of other namespaces, one of them reached only through the include of an include
    decls.append(dict(k='func', name='foo_use_base', ret='void', params=[['thing', 'BaseThing*'], ['box', 'MidBox*'], ['mode', 'BaseMode']], **at()))
    libs = rng.sample(['libfoo-core.so.0', 'libfoo-ui.so.1', 'libfoo-extra.so.0', 'libz.so.1', 'libA.so'], rng.randint(0, 4))
    idp = None
    if k % 2 == 1 or rng.random() < 0.35:
        # several identifier prefixes and no symbol prefix: the symbol prefixes are derived from them, one a prefix of another,
        # tried in the order given; upper-case symbols (constants, enumeration members) match several of them
        idp = rng.choice([['Foo', 'FooExtra', 'FooX'], ['FooExtra', 'Foo', 'FooX'], ['FooX', 'FooExtra', 'Foo']])
        decls.append(dict(k='func', name='foo_extra_run', ret='void', params=[['n', 'gint']], **at()))
        decls.append(dict(k='func', name='foo_x_go', ret='void', params=[], **at()))
        decls.append(dict(k='const', name='FOO_EXTRA_LIMIT', value=7, **at()))
        decls.append(dict(k='const', name='FOO_X_MAX', value=8, **at()))
        decls.append(dict(k='const', name='FOO_EXTRA', value=9, **at()))
        decls.append(dict(k='enum', name='FooExtraMode', members=[['FOO_EXTRA_MODE_ON', 0], ['FOO_EXTRA_MODE_OFF', 1]], **at()))
    return dict(decls=decls, blocks=blocks, dump=dump, includes=['GLib', 'GObject', 'Mid'], libraries=libs, identifier_prefixes=idp,
                c_includes=rng.sample(['foo.h', 'foo-a.h', 'Foo-d.h', 'sub/foo-c.h'], rng.randint(0, 3)),
                packages=rng.sample(['foo-1.0', 'glib-2.0', 'gobject-2.0', 'Zlib'], rng.randint(0, 3)))


def run_variant(world, hashseed=0, cache=None, swap=None):
    env = dict(os.environ)
    env.pop('C16_SWAP', None)
    if swap:
        env['C16_SWAP'] = '%s|%s' % swap
    env['PYTHONHASHSEED'] = str(hashseed)
    env['PYTHONPATH'] = HERE + os.pathsep + REPO
    env['GIV_REPO'] = REPO
    if cache:
        env['C16_CACHE'] = cache
    p = subprocess.run([PY, os.path.join(HERE, 'c16_run.py')], input=json.dumps(world), env=env, stdout=subprocess.PIPE,
                       stderr=subprocess.PIPE, text=True, timeout=300)
    if p.returncode != 0:
        return None, p.stderr[-2000:]
    return p.stdout, None


def swap_decl_order(world, rng):
    """every typedef/struct/forward-declaration group of one tag in another relative order (positions unchanged)"""
    w = copy.deepcopy(world)
    decls = w['decls']
    tags = sorted(set(d['tag'] for d in decls if 'tag' in d))
    for tag in tags:
        idx = [i for i, d in enumerate(decls) if d.get('tag') == tag]
        group = [decls[i] for i in idx]
        # the relative order of the typedefs of one tag is kept (the first one names the record); the structure
        # definition and forward declarations move between, before and after them
        tds = [d for d in group if d['k'] == 'typedef_struct']
        sts = [d for d in group if d['k'] == 'struct']
        slots = sorted(rng.sample(range(len(group)), len(tds))) if rng.random() < 0.7 else list(range(len(sts), len(group)))
        rng.shuffle(sts)
        newg, ti, si = [], 0, 0
        for j in range(len(group)):
            if j in slots:
                newg.append(tds[ti]); ti += 1
            else:
                newg.append(sts[si]); si += 1
        group = newg
        for i, d in zip(idx, group):
            decls[i] = d
    return w


def permute_files(world, rng):
    """the source files supplied in another order: the declarations that are not part of a typedef/struct group (functions,
    enumerations, aliases, constants, callbacks) come file by file in a new order of the files, each file's own order kept"""
    w = copy.deepcopy(world)
    decls = w['decls']
    files = sorted(set(d['file'] for d in decls))
    rank = {f: i for i, f in enumerate(rng.sample(files, len(files)))}
    idx = [i for i, d in enumerate(decls) if 'tag' not in d]
    moved = sorted((decls[i] for i in idx), key=lambda d: rank[d['file']])       # stable: order within one file kept
    for i, d in zip(idx, moved):
        decls[i] = d
    return w


def first_diff(a, b):
    la, lb = a.splitlines(), b.splitlines()
    for i, (x, y) in enumerate(zip(la, lb)):
        if x != y:
            return dict(line=i + 1, base=x, variant=y)
    return dict(line=min(len(la), len(lb)) + 1, base='<end>' if len(la) <= len(lb) else la[len(lb)], variant='<end>' if len(lb) <= len(la) else lb[len(la)])


def main(tier, seed):
    ck = Check('C16', tier, seed)
    ck.assumptions += ['declarations are SourceSymbol trees (the C lexer cannot be built here); the order of declarations other than '
                       'typedef/struct/forward declaration of one tag is not varied (it is the order of the C source)',
                       'interpreter-level determinism (hash seeds, pickling of the cache) is tested in fresh processes, not proved',
                       'dependency GIRs are the three stub files; cold and warm cache runs use a private XDG_CACHE_HOME']
    ck.prove([], models=['Model/C16.vo', 'Model/C16G.vo'])
    import xml.etree.ElementTree as ET
    rng = random.Random(seed)
    nworlds = 6 if tier == 'quick' else 40
    nseeds = 4 if tier == 'quick' else 12
    worlds = [gen_world(rng, k) for k in range(nworlds)]
    # corpus: the forward-declared structure whose position used to depend on the hash seed
    worlds[0]['decls'] = [dict(k='struct', tag='_FooFwd', fields=[], file='/src/foo-types.h', line=5),
                          dict(k='typedef_struct', name='FooFwd', tag='_FooFwd', file='/src/foo-types.h', line=6),
                          dict(k='struct', tag='_FooFwd', fields=[['x', 'gint']], file='/src/foo-rec.h', line=30)] + worlds[0]['decls']
    jobs = []
    cachedirs = []
    for wi, w in enumerate(worlds):
        jobs.append((wi, 'base', w, 0, None))
        for s in range(1, nseeds + 1):
            jobs.append((wi, 'hashseed=%d' % (s * 7919 % 100003), w, s * 7919 % 100003, None))
        for b in range(2):
            w2 = copy.deepcopy(w)
            rng.shuffle(w2['blocks'])
            jobs.append((wi, 'comment blocks permuted #%d' % b, w2, b, None))
        jobs.append((wi, 'typedef/struct/forward declarations reordered', swap_decl_order(w, rng), 0, None))
        jobs.append((wi, 'typedef/struct reordered, other hash seed', swap_decl_order(w, rng), 31337, None))
        for b in range(2):
            jobs.append((wi, 'source files supplied in another order #%d' % b, permute_files(w, rng), 0, None))
    with ThreadPoolExecutor(max_workers=8) as ex:
        outs = list(ex.map(lambda j: run_variant(j[2], j[3], j[4]), jobs))
    # cold / warm cache: sequential per world
    os.makedirs(os.path.join(ROOT, 'build'), exist_ok=True)
    cache_jobs = []
    for wi, w in enumerate(worlds[:3 if tier == 'quick' else 10]):
        cdir = tempfile.mkdtemp(prefix='c16cache', dir=os.path.join(ROOT, 'build'))
        cachedirs.append(cdir)
        cold = run_variant(w, 0, cdir)
        warm = run_variant(w, 5, cdir)
        nentries = len([f for f in os.listdir(os.path.join(cdir, 'g-ir-scanner'))]) if os.path.isdir(os.path.join(cdir, 'g-ir-scanner')) else 0
        cache_jobs.append((wi, 'cold cache', cold, nentries))
        cache_jobs.append((wi, 'warm cache, other hash seed', warm, nentries))
    # two dependency GIRs whose paths differ only in letter case, with different contents and equal modification times: a cache
    # filled while scanning against the one must not answer for the other
    case_root = tempfile.mkdtemp(prefix='c16case', dir=os.path.join(ROOT, 'build'))
    cachedirs.append(case_root)
    dep = ('<?xml version="1.0"?>\n<repository version="1.2" xmlns="http://www.gtk.org/introspection/core/1.0" '
           'xmlns:c="http://www.gtk.org/introspection/c/1.0" xmlns:glib="http://www.gtk.org/introspection/glib/1.0">\n'
           '<namespace name="Dep" version="1.0" shared-library="libdep.so" c:identifier-prefixes="Dep" c:symbol-prefixes="dep">\n%s'
           '</namespace>\n</repository>\n')
    case_dirs = {}
    for dname, body in (('Vendor', '<record name="Thing" c:type="DepThing"/>\n'), ('vendor', '<record name="Other" c:type="DepOther"/>\n')):
        d_ = os.path.join(case_root, dname)
        if os.path.isdir(d_) and case_dirs:
            case_dirs = None        # a case-insensitive file system: the two paths are one
            break
        os.makedirs(d_)
        for f_ in ('GLib-2.0.gir', 'GObject-2.0.gir'):
            shutil.copy(os.path.join(HERE, 'stubgir', f_), os.path.join(d_, f_))
        open(os.path.join(d_, 'Dep-1.0.gir'), 'w').write(dep % body)
        os.utime(os.path.join(d_, 'Dep-1.0.gir'), (1500000000, 1500000000))
        case_dirs[dname] = d_
    case_jobs = None
    if case_dirs:
        cw = dict(decls=[dict(k='func', name='foo_take_thing', params=[['t', 'DepThing*']], ret='void', file='/src/foo.h', line=10)],
                  blocks=[], includes=['GLib', 'GObject', 'Dep'])
        try:
            c1, c2 = os.path.join(case_root, 'cacheA'), os.path.join(case_root, 'cacheB')
            first = run_variant(dict(cw, include_paths=[case_dirs['Vendor']]), 0, c1)
            warm = run_variant(dict(cw, include_paths=[case_dirs['vendor']]), 0, c1)
            cold = run_variant(dict(cw, include_paths=[case_dirs['vendor']]), 0, c2)
            case_jobs = (first, warm, cold)
        except Exception as e:      # noqa
            ck.tie_broken('harness', 'the letter-case cache scenario could not be run: %r' % (e,))
    if case_jobs:
        first, warm, cold = case_jobs
        ck.count_case(dict(scenario='dependency paths differing in letter case'), kind='cache:letter-case')
        if first[0] is None or warm[0] is None or cold[0] is None:
            ck.tie_broken('harness', 'the letter-case cache scenario failed: %s' % ((first[1] or warm[1] or cold[1]) or '')[-500:])
        elif warm[0] != cold[0]:
            ck.failing_input('the emitted GIR changes with the dependency cache: a cache filled from Vendor/Dep-1.0.gir answers for '
                             'vendor/Dep-1.0.gir', dict(world=cw, vendor_first='<record name="Thing">', vendor_second='<record name="Other">'),
                             detail=dict(diff=[l for l in warm[0].splitlines() if l not in cold[0].splitlines()][:5]))
        elif first[0] == cold[0]:
            ck.tie_broken('harness', 'the two dependency files of the letter-case scenario give the same GIR: the scenario tests nothing')
    # a dependency GIR replaced while the scan that fills the cache has just read it: a later scan with that cache must
    # give what a scan without cache gives for the files as they are now
    swap_jobs = None
    try:
        sroot = tempfile.mkdtemp(prefix='c16swap', dir=os.path.join(ROOT, 'build'))
        cachedirs.append(sroot)
        sdir = os.path.join(sroot, 'girs')
        os.makedirs(sdir)
        for f_ in ('GLib-2.0.gir', 'GObject-2.0.gir'):
            shutil.copy(os.path.join(HERE, 'stubgir', f_), os.path.join(sdir, f_))
        open(os.path.join(sdir, 'Dep-1.0.gir'), 'w').write(dep % '<record name="Old" c:type="DepOld"/>\n')
        os.utime(os.path.join(sdir, 'Dep-1.0.gir'), (1500000000, 1500000000))
        open(os.path.join(sroot, 'Dep-new.gir'), 'w').write(dep % '<record name="Thing" c:type="DepThing"/>\n')
        sw = dict(decls=[dict(k='func', name='foo_take_thing', params=[['t', 'DepThing*']], ret='void', file='/src/foo.h', line=10)],
                  blocks=[], includes=['GLib', 'GObject', 'Dep'], include_paths=[sdir])
        c1, c2 = os.path.join(sroot, 'cacheA'), os.path.join(sroot, 'cacheB')
        first = run_variant(sw, 0, c1, swap=(os.path.join(sdir, 'Dep-1.0.gir'), os.path.join(sroot, 'Dep-new.gir')))
        warm = run_variant(sw, 0, c1)
        cold = run_variant(sw, 0, c2)
        swap_jobs = (first, warm, cold, sw)
    except Exception as e:      # noqa
        ck.tie_broken('harness', 'the replaced-dependency cache scenario could not be run: %r' % (e,))
    if swap_jobs:
        first, warm, cold, sw = swap_jobs
        ck.count_case(dict(scenario='dependency replaced while the scan that fills the cache reads it'), kind='cache:replaced-during-scan')
        if first[0] is None or warm[0] is None or cold[0] is None:
            ck.tie_broken('harness', 'the replaced-dependency cache scenario failed: %s' % ((first[1] or warm[1] or cold[1]) or '')[-500:])
        elif warm[0] != cold[0]:
            ck.failing_input('the emitted GIR changes with the dependency cache: Dep-1.0.gir was replaced while the scan that filled '
                             'the cache had just read it; a later scan with that cache differs from a scan without cache of the same files',
                             dict(world=sw, dependency_first='<record name="Old">', dependency_now='<record name="Thing">'),
                             detail=dict(diff=[l for l in warm[0].splitlines() if l not in cold[0].splitlines()][:5]))
        elif first[0] == cold[0]:
            ck.tie_broken('harness', 'the two dependency files of the replaced-dependency scenario give the same GIR: the scenario tests nothing')
    for c in cachedirs:
        shutil.rmtree(c, ignore_errors=True)
    base = {}
    for (wi, what, w, hs, _), (out, err) in zip(jobs, outs):
        if what == 'base':
            base[wi] = out
            if out is None:
                ck.tie_broken('correspondence', 'the scanner fails on a generated world:\n%s' % err, dict(world=w))
    for (wi, what, w, hs, _), (out, err) in zip(jobs, outs):
        if what == 'base' or base.get(wi) is None:
            continue
        ck.count_case(dict(world=wi, variant=what, sha=hashlib.sha256((out or '').encode()).hexdigest()[:12]), kind=what.split('=')[0].split('#')[0].strip())
        if out is None:
            ck.failing_input('the scanner fails on a variant (%s) of a world it accepts' % what, dict(world=w, hashseed=hs), detail=err)
        elif out != base[wi]:
            ck.failing_input('the emitted GIR changes under: %s' % what, dict(world=worlds[wi], variant=what, variant_world=w, hashseed=hs),
                             detail=first_diff(base[wi], out))
    for wi, what, (out, err), nentries in cache_jobs:
        if base.get(wi) is None:
            continue
        ck.count_case(dict(world=wi, variant=what), kind=what.split(',')[0])
        if nentries == 0:
            ck.tie_broken('harness', 'the cache run did not populate the cache directory (the cache path is not exercised)')
        if out is None:
            ck.failing_input('the scanner fails with the cache enabled (%s)' % what, dict(world=worlds[wi]), detail=err)
        elif out != base[wi]:
            ck.failing_input('the emitted GIR changes with the dependency cache: %s' % what, dict(world=worlds[wi], variant=what),
                             detail=first_diff(base[wi], out))
    # ---- the sibling order of the real output is the model's order
    if ck.models_ok:
        S_CORE = '{http://www.gtk.org/introspection/core/1.0}'
        seqs = []
        for wi in sorted(base):
            if base[wi] is None:
                continue
            root = ET.fromstring(base[wi])
            ns = root.find(S_CORE + 'namespace')
            seqs.append([(0 if el.tag == S_CORE + 'alias' else 1, el.get('name')) for el in ns])
            for cls in ns:
                for tag in ('method', 'function', 'constructor', 'property', 'virtual-method'):
                    names = [(1, el.get('name')) for el in cls.findall(S_CORE + tag)]
                    if len(names) > 1:
                        seqs.append(names)
                sigs = [(1, el.get('name')) for el in cls.findall('{http://www.gtk.org/introspection/glib/1.0}signal')]
                if len(sigs) > 1:
                    seqs.append(sigs)
            seqs.append([(1, el.get('name')) for el in root.findall(S_CORE + 'include')])
        # which accessor the scanner elected as getter of the boolean property, against Model.C16G.elect
        gcases = []
        for wi in sorted(base):
            if base[wi] is None:
                continue
            root = ET.fromstring(base[wi])
            for cls in root.iter(S_CORE + 'class'):
                meths = [m.get('name') for m in cls.findall(S_CORE + 'method') if m.get('introspectable') != '0']
                for pr in cls.findall(S_CORE + 'property'):
                    t = pr.find(S_CORE + 'type')
                    if t is None or t.get('name') != 'gboolean' or pr.get('introspectable') == '0':
                        continue
                    readable = pr.get('readable') != '0'
                    writable = pr.get('writable') == '1'
                    nm = pr.get('name').replace('-', '_')
                    setter = ('set_' + nm) if (writable and pr.get('construct-only') != '1') else None
                    gcases.append((readable, writable, nm, setter, meths, pr.get('getter')))
        gitems = ['(%s, %s, %s, %s, %s, %s)' % (cbool(r_), cbool(w_), cstr(nm), copt(st, cstr), clist([cstr(m) for m in ms]), copt(g_, cstr))
                  for r_, w_, nm, st, ms, g_ in gcases]
        items = [clist(['{| n_alias := %s; n_name := %s; n_body := [] |}' % (cbool(a == 0), cstr(n)) for a, n in sq]) for sq in seqs]
        text = '\n'.join(['From Coq Require Import List NArith Bool.', 'From GIV.Lib Require Import Regex Str.',
                          'From GIV.Model Require Import C16 C16G.', 'Import ListNotations.', 'Local Open Scope N_scope.',
                          'Definition gcases : list (bool * bool * str * option str * list str * option str) := [%s].' % ';\n'.join(gitems),
                          'Definition oseq (a b : option str) := match a, b with Some x, Some y => str_eqb x y | None, None => true | _, _ => false end.',
                          'Definition gbad := Eval vm_compute in map (fun p => N.of_nat (fst p)) (filter (fun p => let \'(r, w, nm, st, ms, g) := snd p in '
                          'negb (oseq (elect (getter_candidates None r w true nm) st ms None) g)) (combine (seq 0 (length gcases)) gcases)).',
                          'Print gbad.',
                          'Definition seqs : list (list node) := [%s].' % ';\n'.join(items),
                          'Definition same (a b : list node) := forallb (fun p => str_eqb (n_name (fst p)) (n_name (snd p)) && Bool.eqb (n_alias (fst p)) (n_alias (snd p))) (combine a b).',
                          'Definition unsorted := Eval vm_compute in map (fun p => N.of_nat (fst p)) (filter (fun p => negb (same (isort node_leb (snd p)) (snd p))) (combine (seq 0 (length seqs)) seqs)).',
                          'Print unsorted.'])
        rc, out = coq_eval('C16_cases', text)
        if rc != 0:
            ck.tie_broken('correspondence', 'case file does not evaluate:\n' + out[-2000:])
        else:
            bad = parse_nlist(parse_defs(out)['unsorted'])
            gbad = parse_nlist(parse_defs(out)['gbad'])
            ck.extra['getter_elections_checked'] = len(gcases)
            if gbad:
                r_, w_, nm, st, ms, g_ = gcases[gbad[0]]
                ck.tie_broken('correspondence', 'the getter the scanner paired with a boolean property is not the one Model.C16G.elect gives '
                              'for %d properties' % len(gbad), dict(property=nm, readable=r_, writable=w_, methods=ms, getter_in_gir=g_))
            ck.extra['sibling_sequences_checked'] = len(seqs)
            ck.extra['traces_validated_against_impl'] = len(seqs)
            if bad:
                ck.tie_broken('correspondence', 'the order of sibling elements in the GIR is not the order of Model.C16 (aliases first, then '
                              'names by code point) for %d sequences' % len(bad), dict(sequence=seqs[bad[0]]))
    return ck.finish(rule='generated worlds (2-5 records with typedef, definition and optional forward declaration in shuffled order and '
                          'four header files, methods, 3-8 functions, enums, aliases, constants, callbacks, a class with class structure, '
                          'properties and signals from a runtime dump, comment blocks incl. SECTION blocks); each world is scanned in fresh '
                          'processes under %d hash seeds, 2 permutations of the comment blocks, 2 reorderings of typedef/struct/forward '
                          'declarations, 2 orders of the source files (functions, enumerations, constants of one file before those of another), cold and warm dependency cache; all outputs must be byte-identical; sibling sequences of the '
                          'output are checked against the model order inside Coq' % nseeds)


if __name__ == '__main__':
    sys.exit(main(os.environ.get('VERIF_TIER', 'quick'), int(os.environ.get('VERIF_SEED', '1'))))
