"""C01 — parameter and return annotations are reflected exactly in the GIR."""
import os
import random
import zlib
import re
import sys

from common import Check, coq_eval, parse_defs, parse_nlist, cstr, clist, cbool, copt
from c02 import T_void, T_basic, T_td, T_ptr, coq_tree, src_tree, ENV, world_symbols, DUMP

ENV1 = dict(ENV)
ENV1.update({'GClosure': ('GObject.Closure', 'KRecordBoxed'), 'GBytes': ('GLib.Bytes', 'KRecordBoxed'),
             # C names of the GLib containers: only reached when a failed (type) override is resolved again by c:type
             'GList': ('GLib.List', 'KRecordPlain'), 'GSList': ('GLib.SList', 'KRecordPlain'), 'GHashTable': ('GLib.HashTable', 'KRecordBoxed'),
             'GArray': ('GLib.Array', 'KRecordBoxed'), 'GPtrArray': ('GLib.PtrArray', 'KRecordBoxed'),
             'GByteArray': ('GLib.ByteArray', 'KRecordBoxed'), 'GStrv': ('GLib.Strv', 'KAliasOther')})

# (name, tree) menu; the comment says what each is good for
P = T_ptr
TYPES = [
    ('gint', T_td('gint')), ('guint8', T_td('guint8')), ('gboolean', T_td('gboolean')), ('gsize', T_td('gsize')),
    ('gdouble', T_td('gdouble')), ('int', T_basic('int')), ('FooEnum', T_td('FooEnum')), ('FooAlias', T_td('FooAlias')),
    ('FooAlias2', T_td('FooAlias2')), ('FooCb2', T_td('FooCb2')),
    ('gint*', P(T_td('gint'))), ('gint**', P(P(T_td('gint')))), ('guint8*', P(T_td('guint8'))), ('gsize*', P(T_td('gsize'))), ('gchar*', P(T_td('gchar'))),
    ('const gchar*', P(T_td('gchar', True))), ('gchar**', P(P(T_td('gchar')))), ('gchar***', P(P(P(T_td('gchar'))))),
    ('gpointer', T_td('gpointer')), ('gpointer*', P(T_td('gpointer'))), ('void*', P(T_void())),
    ('FooRec*', P(T_td('FooRec'))), ('FooRec**', P(P(T_td('FooRec')))), ('FooBox*', P(T_td('FooBox'))), ('FooBox**', P(P(T_td('FooBox')))),
    ('FooObj*', P(T_td('FooObj'))), ('FooObj**', P(P(T_td('FooObj')))), ('GObject*', P(T_td('GObject'))),
    ('GVariant*', P(T_td('GVariant'))), ('GClosure*', P(T_td('GClosure'))), ('GCancellable*', P(T_td('GCancellable'))),
    ('FooCb', T_td('FooCb')), ('GFunc', T_td('GFunc')), ('GDestroyNotify', T_td('GDestroyNotify')),
    ('GAsyncReadyCallback', T_td('GAsyncReadyCallback')),
    ('GList*', P(T_td('GList'))), ('GSList*', P(T_td('GSList'))), ('GHashTable*', P(T_td('GHashTable'))), ('GArray*', P(T_td('GArray'))),
    ('GPtrArray*', P(T_td('GPtrArray'))), ('GByteArray*', P(T_td('GByteArray'))), ('GStrv', T_td('GStrv')),
    ('FooUnknown*', P(T_td('FooUnknown'))), ('GList**', P(P(T_td('GList')))), ('FooEnum*', P(T_td('FooEnum'))), ('FooAlias*', P(T_td('FooAlias'))),
]
TYPE_BY = dict(TYPES)
RET_TYPES = [t for t in TYPES if t[0] not in ('FooCb', 'FooCb2', 'GFunc', 'GDestroyNotify', 'GAsyncReadyCallback')] + [('void', T_void())]
TYPE_NAMES = ['utf8', 'gint', 'guint8', 'filename', 'gpointer', 'int', 'gchar*', 'gchar', 'gint8', 'gintptr', 'gboolean', 'FooRec', 'Foo.Rec',
              'FooObj', 'Foo.Obj', 'GObject', 'GObject.Object', 'GLib.Variant', 'FooEnum', 'Bogus', 'Foo.Bogus', 'FooBox', 'gdouble', 'guint']
OVERRIDE_TYPES = ['utf8', 'filename', 'gint', 'gpointer', 'FooRec', 'Foo.Obj', 'GObject.Object', 'Bogus', 'FooBox', 'GLib.List', 'GLib.HashTable',
                  'GLib.PtrArray', 'GLib.ByteArray', 'FooCb']
NAMES = ['a', 'b', 'data', 'user_data', 'callback', 'func', 'notify', 'destroy', 'x', 'n', 'len', 'out_v', 'items', 'udata']


# ---- annotations as (name, [(key, value-or-None)]) in writing order
def render_ann(a):
    name, opts = a
    bits = [name] + [k if v is None else '%s=%s' % (k, v) for k, v in opts]
    return '(' + ' '.join(bits) + ')'


def coq_ann(a):
    name, opts = a
    return '(%s, %s)' % (cstr(name), clist(['(%s, %s)' % (cstr(k), copt(v, cstr)) for k, v in opts]))


def coq_anns(anns):
    return 'None' if anns is None else '(Some %s)' % clist([coq_ann(a) for a in anns])


def gen_annotations(rng, tname, others, position, cbtype):
    """mostly-valid annotations for a value of C type `tname`; `others`: names of the other parameters"""
    anns = []
    is_ptr = tname.endswith('*') or tname in ('gpointer', 'GStrv')
    is_cb = tname in ('FooCb', 'FooCb2', 'GFunc', 'GDestroyNotify', 'GAsyncReadyCallback')
    container = tname.rstrip('*') in ('GList', 'GSList', 'GHashTable', 'GArray', 'GPtrArray', 'GByteArray')
    wild = rng.random() < 0.25          # the separate malformed stream: annotations regardless of fit

    def maybe(p_valid, p_wild, valid):
        return rng.random() < (p_wild if wild or not valid else p_valid)

    if position == 'param':
        r = rng.random()
        if (is_ptr and r < 0.35) or (wild and r < 0.3):
            anns.append(rng.choice([('out', []), ('out', []), ('out', [('caller-allocates', None)]), ('out', [('callee-allocates', None)]),
                                    ('inout', []), ('in', [])]))
    out = any(a[0] in ('out', 'inout') for a in anns)
    if maybe(0.35, 0.3, is_ptr or out):
        anns.append(('transfer', [(rng.choice(['none', 'full', 'full', 'container', 'floating']), None)]))
    elif container and rng.random() < 0.3:
        anns.append(('transfer', [('container', None)]))
    if maybe(0.2, 0.2, is_ptr or out):
        anns.append(('nullable', []))
    if position == 'param' and maybe(0.2, 0.15, out):
        anns.append(('optional', []))
    if maybe(0.08, 0.1, is_ptr or out):
        anns.append(('allow-none', []))
    if rng.random() < 0.12:
        anns.append(('not', [(rng.choice(['nullable', 'optional']), None)]))
    if rng.random() < 0.06:
        anns.append(('skip', []))
    if not container and maybe(0.3, 0.1, is_ptr and not is_cb and tname not in ('gpointer',)) and tname not in ('GHashTable*', 'GList*', 'GSList*', 'GList**'):
        opts = []
        r = rng.random()
        ints = [o for o in others if o[1] in ('gint', 'gsize', 'guint8', 'gint*', 'gsize*')]
        if r < 0.5 and ints:
            opts.append(('length', rng.choice(ints)[0]))
        elif r < 0.65:
            opts.append(('fixed-size', str(rng.choice([1, 3, 16]))))
        if rng.random() < 0.4:
            opts.append(('zero-terminated', rng.choice([None, '1', '0', '1'])))
        rng.shuffle(opts)
        anns.append(('array', opts))
    has_array = any(a[0] == 'array' for a in anns)
    if container or tname == 'GStrv' or has_array:
        if rng.random() < 0.6:
            n = 2 if tname.startswith('GHashTable') and not has_array and rng.random() < 0.9 else 1
            if rng.random() < 0.05:
                n = 3 - n
            anns.append(('element-type', [(rng.choice(TYPE_NAMES), None) for _ in range(n)]))
    elif wild and rng.random() < 0.1:
        anns.append(('element-type', [(rng.choice(TYPE_NAMES), None)]))
    if not has_array and not any(a[0] == 'element-type' for a in anns) and rng.random() < 0.07:
        anns.append(('type', [(rng.choice(OVERRIDE_TYPES), None)]))
    if position == 'param' and not cbtype:
        if maybe(0.4, 0.1, is_cb):
            anns.append(('scope', [(rng.choice(['call', 'async', 'notified', 'forever']), None)]))
        if others and maybe(0.3, 0.08, is_cb):
            ptrs = [o for o in others if o[1] == 'gpointer'] or others
            anns.append(('closure', [(rng.choice(ptrs if rng.random() < 0.8 else others)[0], None)]))
        if others and maybe(0.25, 0.06, is_cb):
            dn = [o for o in others if o[1] == 'GDestroyNotify'] or others
            anns.append(('destroy', [(rng.choice(dn if rng.random() < 0.8 else others)[0], None)]))
    if position == 'param' and cbtype:
        if maybe(0.4, 0.15, tname == 'gpointer'):
            anns.append(('closure', [] if rng.random() < 0.9 else [('x', None)]))
    if rng.random() < 0.08:
        anns.append(('attributes', [('org.k%d' % i, rng.choice(['v', 'long.value', '1', 'ext=txt', 'a==b'])) for i in range(rng.choice([1, 2]))]))
    rng.shuffle(anns)
    if not anns and rng.random() < 0.3:
        return None
    return anns


def gen_callable(rng, i, cbtype):
    n = rng.choice([1, 2, 3, 3, 4, 5])
    params = []
    used = set()
    for k in range(n):
        r = rng.random()
        if r < 0.15:
            tn = rng.choice(['FooCb', 'GFunc', 'GAsyncReadyCallback', 'FooCb2'])
        elif r < 0.22:
            tn = 'GDestroyNotify'
        elif r < 0.34:
            tn = 'gpointer'
        elif r < 0.45:
            tn = rng.choice(['gint', 'gsize', 'gsize*', 'gint*'])
        else:
            tn = rng.choice(TYPES)[0]
        nm = rng.choice(NAMES)
        while nm in used:
            nm = nm + 'x'
        used.add(nm)
        params.append([nm, tn, None])
    for p in params:
        others = [(q[0], q[1]) for q in params if q is not p]
        p[2] = gen_annotations(rng, p[1], others, 'param', cbtype)
    if rng.random() < 0.2 and not cbtype:
        params.append(['error', 'GError**', None])
    rt = rng.choice(RET_TYPES)[0]
    ra = gen_annotations(rng, rt, [(q[0], q[1]) for q in params if q[1] != 'GError**'], 'ret', cbtype) if rng.random() < 0.7 else None
    name = ('FooCbt%d' if cbtype else 'foo_f%d') % i
    if not cbtype and i % 9 == 4 and 'self_' not in used:
        # g_resources_register(), gdk_events_get_angle(): the symbol starts with the prefix of its first parameter's type but not with
        # prefix + '_', so the function stays a function of the namespace and gets a method twin (moved-to) that shares its parameters
        params.insert(0, ['self_', 'FooObj*', None])
        name = 'foo_objs_f%d' % i
    return dict(name=name, cbtype=cbtype, params=[tuple(p) for p in params], ret=rt, ret_ann=ra)


def tree_of(tn):
    if tn == 'GError**':
        return T_ptr(T_ptr(T_td('GError')))
    if tn == 'void':
        return T_void()
    return TYPE_BY[tn]


def comment_for(c, line0):
    """GTK-Doc block and the line of each tag"""
    lines = ['/**', ' * %s:' % c['name']]
    plines = {}
    for k, (nm, tn, anns) in enumerate(c['params']):
        if anns is None:
            continue
        plines[k] = line0 + len(lines)
        if len(anns) >= 2 and (zlib.crc32(c['name'].encode()) + k) % 3 == 0:
            # annotations continued on a second line: they add to those of the first line
            lines.append(' * @%s: %s' % (nm, render_ann(anns[0])))
            lines.append(' *   %s: doc of %s' % (' '.join(render_ann(a) for a in anns[1:]), nm))
            continue
        lines.append(' * @%s: %s%sdoc of %s' % (nm, ' '.join(render_ann(a) for a in anns), ': ' if anns else '', nm))
    rline = None
    rstyle = zlib.crc32(c['name'].encode()) % 7
    if c['ret_ann'] is not None and rstyle in (2, 5):
        # the return value documented in the parameter list, as old GTK-Doc comments do ("@Returns:", any letter case)
        rline = line0 + len(lines)
        lines.append(' * @%s: %s%sthe result' % ('Returns' if rstyle == 2 else 'RETURNS', ' '.join(render_ann(a) for a in c['ret_ann']),
                                                 ': ' if c['ret_ann'] else ''))
    lines.append(' *')
    lines.append(' * description')
    if c['ret_ann'] is not None and rline is None:
        lines.append(' *')
        rline = line0 + len(lines)
        if len(c['ret_ann']) >= 2 and zlib.crc32(c['name'].encode()) % 3 == 1:
            lines.append(' * Returns: %s' % render_ann(c['ret_ann'][0]))
            lines.append(' *   %s: the result' % ' '.join(render_ann(a) for a in c['ret_ann'][1:]))
        else:
            lines.append(' * Returns: %s%sthe result' % (' '.join(render_ann(a) for a in c['ret_ann']), ': ' if c['ret_ann'] else ''))
    lines.append(' */')
    return '\n'.join(lines), plines, rline


WARN_PATTERNS = [
    (1, re.compile(r'invalid "transfer" annotation')), (2, re.compile(r'invalid "nullable" annotation')),
    (3, re.compile(r'invalid "optional" annotation')), (4, re.compile(r'invalid "allow-none" annotation')),
    (5, re.compile(r'invalid "scope" annotation')), (6, re.compile(r'invalid "destroy" annotation')),
    (8, re.compile(r'invalid "closure" annotation with argument')), (7, re.compile(r'invalid "closure" annotation')),
    (9, re.compile(r'Unknown container|"element-type" annotation for')), (10, re.compile(r'Unknown type: ')),
    (11, re.compile(r'invalid \(element-type\) for a GPtrArray')), (12, re.compile(r'invalid \(element-type\) for a GByteArray')),
    (13, re.compile(r'invalid return annotation')),
]


def classify(msg):
    for code, pat in WARN_PATTERNS:
        if pat.search(msg):
            return code
    return None


def observe1(el, S):
    t = None
    for ch in el:
        if ch.tag in (S.CORE + 'type', S.CORE + 'array', S.CORE + 'varargs'):
            t = ch
    arr = t is not None and t.tag == S.CORE + 'array'
    kids = []
    if t is not None:
        kids = [ch.get('name') for ch in t if ch.tag in (S.CORE + 'type', S.CORE + 'array')]
    attrs = [(a.get('name'), a.get('value')) for a in el.findall(S.CORE + 'attribute')]
    z = t.get('zero-terminated') if t is not None else None
    return dict(direction=el.get('direction'), ca=None if el.get('caller-allocates') is None else el.get('caller-allocates') == '1',
                transfer=el.get('transfer-ownership'), nullable=el.get('nullable') == '1', allow_none=el.get('allow-none') == '1',
                optional=el.get('optional') == '1', scope=el.get('scope'),
                closure=int(el.get('closure')) if el.get('closure') else None, destroy=int(el.get('destroy')) if el.get('destroy') else None,
                skip=el.get('skip') == '1', attrs=attrs, array=arr, tname=t.get('name') if t is not None else None,
                zero=None if z is None else z == '1', fixed=t.get('fixed-size') if t is not None else None,
                length=int(t.get('length')) if t is not None and t.get('length') else None, children=kids)


def coq_obs1(o):
    nat = lambda v: '%d%%nat' % v
    return ('{| b_direction := %s; b_caller_allocates := %s; b_transfer := %s; b_nullable := %s; b_allow_none := %s; b_optional := %s; '
            'b_scope := %s; b_closure := %s; b_destroy := %s; b_skip := %s; b_attrs := %s; b_array := %s; b_tname := %s; b_zero := %s; '
            'b_fixed := %s; b_length := %s; b_children := %s |}'
            % (copt(o['direction'], cstr), copt(o['ca'], cbool), copt(o['transfer'], cstr), cbool(o['nullable']), cbool(o['allow_none']),
               cbool(o['optional']), copt(o['scope'], cstr), copt(o['closure'], nat), copt(o['destroy'], nat), cbool(o['skip']),
               clist(['(%s, %s)' % (cstr(k), cstr(v)) for k, v in o['attrs']]), cbool(o['array']), copt(o['tname'], cstr),
               copt(o['zero'], cbool), copt(o['fixed'], cstr), copt(o['length'], nat), clist([copt(k, cstr) for k in o['children']])))


def coq_case(i, c, fx=True):
    decls = clist(['{| d_name := %s; d_tree := %s; d_ann := %s |}' % (cstr(nm), coq_tree(tree_of(tn)), coq_anns(anns))
                   for nm, tn, anns in c['params']])
    return ('{| a_id := %d; a_env := env0; a_cbtype := %s; a_decls := %s; a_ret := %s; a_ret_ann := %s; a_obs_params := %s; '
            'a_obs_ret := %s; a_obs_throws := %s; a_warn_params := %s; a_warn_ret := %s |}'
            % (i, cbool(c['cbtype']), decls, coq_tree(tree_of(c['ret'])), coq_anns(c['ret_ann']), clist([coq_obs1(o) for o in c['pobs']]),
               coq_obs1(c['robs']), cbool(c['throws']), clist([clist(['%d' % w for w in ws]) for ws in c['pwarn']]),
               clist(['%d' % w for w in c['rwarn']])))


SPECIAL = [
    # F9: (not optional) must not touch nullability, and must override (optional)/(allow-none)
    dict(name='foo_f0', cbtype=False, params=[('data', 'gpointer*', [('out', []), ('not', [('optional', None)])])], ret='void', ret_ann=None),
    dict(name='foo_f1', cbtype=False, params=[('v', 'gchar**', [('out', []), ('nullable', []), ('not', [('optional', None)])])], ret='void', ret_ann=None),
    dict(name='foo_f2', cbtype=False, params=[('v', 'gint*', [('out', []), ('allow-none', []), ('not', [('optional', None)])])], ret='void', ret_ann=None),
    dict(name='foo_f3', cbtype=False, params=[('p', 'gpointer', [('not', [('nullable', None)])])], ret='gpointer', ret_ann=[('not', [('nullable', None)])]),
    dict(name='foo_f4', cbtype=False, params=[('arr', 'gint*', [('array', [('length', 'n')]), ('out', []), ('transfer', [('full', None)])]),
                                            ('n', 'gsize*', None)], ret='void', ret_ann=None),
    dict(name='foo_f5', cbtype=False, params=[('n', 'gsize*', []), ('x', 'gint', [])], ret='guint8*',
         ret_ann=[('array', [('length', 'n')]), ('transfer', [('full', None)])]),
    dict(name='foo_f8', cbtype=False, params=[('arr', 'gint**', [('inout', []), ('array', [('length', 'n')]), ('transfer', [('full', None)])]),
                                            ('n', 'gsize*', [])], ret='void', ret_ann=None),
    dict(name='foo_f9', cbtype=False, params=[('n', 'gint*', None), ('arr', 'gchar***', [('array', [('length', 'n')]), ('inout', [])])],
         ret='gboolean', ret_ann=None),
    dict(name='foo_f10', cbtype=False, params=[('cb', 'FooCb', [('closure', [('d0', None)]), ('scope', [('async', None)])]),
                                             ('d0', 'gpointer', [])], ret='void', ret_ann=None),
    dict(name='foo_f11', cbtype=False, params=[('d0', 'gpointer', []), ('cb', 'FooCb', [('closure', [('d0', None)]), ('scope', [('call', None)])])],
         ret='void', ret_ann=None),
    dict(name='foo_f12', cbtype=False, params=[('dn', 'GDestroyNotify', []), ('cb', 'FooCb', [('destroy', [('dn', None)])]), ('d', 'gpointer', [])],
         ret='void', ret_ann=None),
    dict(name='foo_f6', cbtype=False, params=[('cb', 'FooCb', [('scope', [('call', None)]), ('closure', [('ctx', None)])]),
                                            ('ctx', 'gpointer', []), ('user_data', 'gpointer', [])], ret='void', ret_ann=None),
    dict(name='foo_f7', cbtype=False, params=[('cb', 'FooCb', [('scope', [('call', None)])]), ('user_data', 'gpointer', []),
                                            ('notify', 'GDestroyNotify', [])], ret='void', ret_ann=None),
    # a length shared by an (out) array and a later array without direction, itself annotated (in): a parameter's direction is
    # None until something sets it, so the explicit (in) counts as a change and resets the transfer the (out) array gave it
    dict(name='foo_f13', cbtype=False, params=[('a', 'gchar**', [('out', [('caller-allocates', None)]), ('array', [('length', 'n')])]),
                                             ('b', 'gint*', [('array', [('length', 'n')])]), ('n', 'gsize', [('in', [])])],
         ret='void', ret_ann=None),
    dict(name='foo_f14', cbtype=False, params=[('a', 'gint**', [('out', []), ('array', [('length', 'n')])]), ('n', 'gsize', [('in', [])])],
         ret='void', ret_ann=None),
]


def run_batch(S, ET, batch, line_base=1000):
    """scan one batch of callables; fills pobs/robs/throws/pwarn/rwarn; returns the log"""
    syms = world_symbols()
    comments = []
    linemap = {}
    line = line_base
    for c in batch:
        ps = [S.param(nm, src_tree(tree_of(tn))) for nm, tn, _ in c['params']]
        if c['cbtype']:
            syms.append(S.cbtypedef(c['name'], src_tree(tree_of(c['ret'])), ps))
        else:
            syms.append(S.func(c['name'], src_tree(tree_of(c['ret'])), ps))
        text, plines, rline = comment_for(c, line)
        for k, ln in plines.items():
            linemap[ln] = (c['name'], k)
        if rline is not None:
            linemap[rline] = (c['name'], 'ret')
        comments.append((text, '/src/foo.c', line))
        line += text.count('\n') + 3
    r = S.run(syms, comments=comments, includes=['GLib', 'GObject', 'Gio'], dump=ET.ElementTree(ET.fromstring(DUMP)))
    ns = S.gir_ns(r.root)
    byid = {}
    twins = {}
    for tag in ('method', 'constructor', 'function'):        # a function of the namespace wins over its moved-to method twin
        for el in ns.iter(S.CORE + tag):
            if tag == 'method' and el.get('moved-to'):
                twins[el.get(S.CNS + 'identifier')] = el
        byid.update({el.get(S.CNS + 'identifier'): el for el in ns.iter(S.CORE + tag)})
    for el in ns.findall(S.CORE + 'callback'):
        byid[el.get(S.CNS + 'type')] = el
    warn = {}
    for ln in r.log.splitlines():
        m = re.match(r'.*foo\.c:(\d+): Warning: Foo: (.*)$', ln)
        if not m:
            continue
        code = classify(m.group(2))
        key = linemap.get(int(m.group(1)))
        if code is not None and key is not None:
            warn.setdefault(key, set()).add(code)
    out = []
    for c in batch:
        el = byid.get(c['name'])
        if el is None or el.tag not in (S.CORE + 'function', S.CORE + 'callback'):
            c['missing'] = el is None
            continue
        ps = el.find(S.CORE + 'parameters')
        c['pobs'] = [observe1(p, S) for p in (ps.findall(S.CORE + 'parameter') if ps is not None else [])]
        c['robs'] = observe1(el.find(S.CORE + 'return-value'), S)
        c['throws'] = el.get('throws') == '1'
        c['pwarn'] = [sorted(warn.get((c['name'], k), ())) for k in range(len(c['params']))]
        c['rwarn'] = sorted(warn.get((c['name'], 'ret'), ()))
        c['twin'] = None
        if c['name'] in twins:
            # the method twin: the same references between parameters, by name
            def refs(e):
                pl = e.find(S.CORE + 'parameters')
                pl = pl.findall(S.CORE + 'parameter') if pl is not None else []
                names = [q.get('name') for q in pl]
                got = {}
                for q in pl + [e.find(S.CORE + 'return-value')]:
                    for attr in ('closure', 'destroy'):
                        if q.get(attr) is not None:
                            k_ = int(q.get(attr))
                            got[(q.get('name') or 'return', attr)] = names[k_] if 0 <= k_ < len(names) else '<out of range %d>' % k_
                    for a_ in q.iter(S.CORE + 'array'):
                        if a_.get('length') is not None:
                            k_ = int(a_.get('length'))
                            got[(q.get('name') or 'return', 'length')] = names[k_] if 0 <= k_ < len(names) else '<out of range %d>' % k_
                return got
            c['twin'] = (refs(el), refs(twins[c['name']]))
        out.append(c)
    return out, r.log


def direct_clauses(ck, c, agrees_with_model=None):
    """clauses of the property judged on the output alone"""
    length_targets = set(dict(a[1]).get('length') for q in list(c['params']) + [(None, None, c['ret_ann'])]
                         for a in (q[2] or []) if a[0] == 'array')
    if c.get('twin'):
        fr, tr = c['twin']
        if fr != tr:
            ck.failing_input('a function and its method twin (moved-to) do not give the same closure, destroy and array-length references '
                             '(compared by parameter name)', dict(callable=c['name'], params=c['params'], ret=c['ret'], ret_ann=c['ret_ann']),
                             detail=dict(function={'%s.%s' % k_: v_ for k_, v_ in fr.items()}, method={'%s.%s' % k_: v_ for k_, v_ in tr.items()}))
    for k, (nm, tn, anns) in enumerate(c['params']):
        if anns is None or k >= len(c['pobs']):
            continue
        o = c['pobs'][k]
        is_len = nm in length_targets      # its direction and transfer follow the array that names it
        names = [a[0] for a in anns]
        d = dict(anns)
        case = dict(callable=c['name'], cbtype=c['cbtype'], params=c['params'], ret=c['ret'], ret_ann=c['ret_ann'], param=nm)
        if 'type' in names or 'GError**' == tn:
            continue
        is_out = 'out' in names or 'inout' in names
        if 'not' in names and d['not'] == [('optional', None)] and is_out:
            if o['optional']:
                ck.failing_input('(not optional) does not override: optional="1" is emitted', case, detail=o, fid='not-optional-ignored')
            if 'nullable' in names and 1 not in c['pwarn'][k] and not o['nullable']:
                ck.failing_input('(not optional) removed the nullable attribute of an out parameter', case, detail=o,
                                 fid='not-optional-clears-nullable')
        if 'not' in names and d['not'] == [('nullable', None)] and o['nullable']:
            ck.failing_input('(not nullable) does not override: nullable="1" is emitted', case, detail=o)
        if 'skip' in names and not o['skip']:
            ck.failing_input('(skip) is not emitted', case, detail=o)
        if 'inout' in names and o['direction'] != 'inout' and not is_len:
            ck.failing_input('(inout) is not emitted as direction', case, detail=o)
        if 'out' in names and 'inout' not in names and not is_len:
            if o['direction'] != 'out':
                ck.failing_input('(out) is not emitted as direction', case, detail=o)
            if d['out'] == [('caller-allocates', None)] and o['ca'] is not True:
                ck.failing_input('(out caller-allocates) is not emitted', case, detail=o)
            if d['out'] == [('callee-allocates', None)] and o['ca'] is not False:
                ck.failing_input('(out callee-allocates) is not emitted', case, detail=o)
        if 'transfer' in names and 1 in c['pwarn'][k] and not is_len:
            # reported invalid: the default must stay (callback heuristics may still set none)
            default = 'full' if is_out and not o['ca'] else 'none'
            if o['transfer'] not in (default, 'none'):
                ck.failing_input('an invalid (transfer) annotation changed transfer-ownership', case, detail=o)
        if 'array' in names and o['array']:
            ao = dict(d['array'])
            if 'fixed-size' in ao and o['fixed'] != ao['fixed-size']:
                ck.failing_input('(array fixed-size=N) is not emitted', case, detail=o)
            # zero-terminated as a GIR reader takes it: the attribute if present, else "has neither length nor fixed-size"
            want_zero = 'zero-terminated' in ao and ao['zero-terminated'] != '0'
            got_zero = o['zero'] if o['zero'] is not None else (o['length'] is None and o['fixed'] is None)
            if want_zero != got_zero:
                ck.failing_input('(array%s) is emitted as %szero-terminated' % (' zero-terminated' + ('=' + ao['zero-terminated'] if ao.get('zero-terminated') else '')
                                                                                  if 'zero-terminated' in ao else '', '' if got_zero else 'not '),
                                 case, detail=o)
            if 'length' in ao:
                finals = [p[0] for p in c['params'] if p[1] != 'GError**' or not c['throws']]
                if o['length'] is None or o['length'] >= len(finals) or finals[o['length']] != ao['length']:
                    ck.failing_input('(array length=NAME) does not index the named parameter', case, detail=o)
                else:
                    lp = c['pobs'][o['length']]
                    lp_anns = c['params'][o['length']][2] or []
                    users = sum(1 for q in list(c['params']) + [(None, None, c['ret_ann'])] for a in (q[2] or [])
                                if a[0] == 'array' and dict(a[1]).get('length') == ao['length'])
                    if users == 1 and not is_len and not any(a[0] in ('in', 'out', 'inout') for a in lp_anns) \
                            and (lp['direction'] or 'in') != (o['direction'] or 'in'):
                        ck.failing_input('the length parameter does not follow the direction of its array', case,
                                         detail=dict(array=o, length_param=lp))
        if not c['cbtype'] and tn in ('FooCb', 'FooCb2', 'GFunc', 'GAsyncReadyCallback') and 'type' not in names:
            finals = [p for p in c['params'] if p[1] != 'GError**' or not c['throws']]
            fnames = [p[0] for p in finals]
            later = finals[k + 1:]
            # what the heuristics of _pass3_callable_callbacks pick for this callback (known findings K1-K3 are
            # exactly: the emitted value is the heuristic's pick instead of the annotated one)
            h_destroy = None
            h_closure = None
            for q in later:
                if q[1] in ('FooCb', 'FooCb2', 'GFunc', 'GAsyncReadyCallback') and not any(a[0] == 'type' for a in (q[2] or [])):
                    break
                if q[1] == 'GDestroyNotify':
                    h_destroy = q[0]
                elif q[1] == 'gpointer' and q[0].endswith('data') and not any(a[0] in ('type', 'array') for a in (q[2] or [])):
                    h_closure = q[0]
            emitted_closure = fnames[o['closure']] if o['closure'] is not None and o['closure'] < len(fnames) else None
            emitted_destroy = fnames[o['destroy']] if o['destroy'] is not None and o['destroy'] < len(fnames) else None
            destroy_targets = set(a[1][0][0] for q in c['params'] for a in (q[2] or []) if a[0] == 'destroy' and a[1])
            if 'scope' in names and 5 not in c['pwarn'][k] and 'destroy' not in names and o['scope'] != d['scope'][0][0] \
                    and nm not in destroy_targets:      # (destroy NAME) elsewhere documents NAME as notified
                known = (o['scope'] == 'notified' and h_destroy is not None) or (o['scope'] == 'async' and tn == 'GAsyncReadyCallback')
                known = known if agrees_with_model is None else agrees_with_model
                ck.failing_input('an explicit (scope %s) on a callback parameter is replaced (emitted scope="%s")%s'
                                 % (d['scope'][0][0], o['scope'], ' by the callback heuristics of _pass3_callable_callbacks' if known else ''),
                                 case, detail=o, fid='C01-K2-scope-overridden' if known else None)
            if 'closure' in names and 7 not in c['pwarn'][k]:
                want = d['closure'][0][0]
                if emitted_closure != want:
                    known = emitted_closure is not None and emitted_closure == h_closure
                    known = known if agrees_with_model is None else (agrees_with_model and emitted_closure is not None)
                    ck.failing_input('an explicit valid (closure %s) is not what the GIR says (closure names %r)%s'
                                     % (want, emitted_closure, ': replaced by the *data heuristic of _pass3_callable_callbacks' if known else ''),
                                     case, detail=o, fid='C01-K1-closure-overridden' if known else None)
            if 'closure' in names and 7 in c['pwarn'][k]:
                want = d['closure'][0][0]
                if emitted_closure == want:
                    ck.failing_input('a (closure %s) reported as invalid (target is not a gpointer) is emitted all the same' % want,
                                     case, detail=o, fid='C01-K4-invalid-closure-kept')
            if 'destroy' in names and 6 not in c['pwarn'][k]:
                want = d['destroy'][0][0]
                if emitted_destroy != want:
                    known = emitted_destroy is not None and emitted_destroy == h_destroy
                    known = known if agrees_with_model is None else (agrees_with_model and emitted_destroy is not None)
                    ck.failing_input('an explicit (destroy %s) is not what the GIR says (destroy names %r)%s'
                                     % (want, emitted_destroy, ': replaced by the GDestroyNotify heuristic of _pass3_callable_callbacks' if known else ''),
                                     case, detail=o, fid='C01-K3-destroy-overridden' if known else None)
        if c['cbtype'] and 'closure' in names and d['closure'] == [] and 7 in c['pwarn'][k] and o['closure'] == k and 'type' not in names:
            ck.failing_input('a (closure) reported as invalid on a callback-type parameter is emitted all the same', case, detail=o,
                             fid='C01-K4-invalid-closure-kept')
        if not c['cbtype'] and tn not in ('FooCb', 'FooCb2', 'GFunc', 'GAsyncReadyCallback', 'GDestroyNotify'):
            # scope/closure/destroy on a non-callback: reported and inert
            for code, nmx in ((5, 'scope'), (6, 'destroy'), (7, 'closure')):
                if nmx in names and code not in c['pwarn'][k]:
                    ck.failing_input('(%s) on a non-callback parameter is not reported' % nmx, case, detail=o)
            if 'closure' in names and o['closure'] is not None:
                ck.failing_input('(closure) on a non-callback parameter is emitted', case, detail=o)
            if 'destroy' in names and o['destroy'] is not None:
                ck.failing_input('(destroy) on a non-callback parameter is emitted', case, detail=o)
        for key, val in (d.get('attributes') or []):
            if (key, val) not in o['attrs']:
                ck.failing_input('a free-form attribute is not emitted', case, detail=o)


SCALARS = ('gint', 'guint8', 'gboolean', 'gsize', 'gdouble', 'int', 'FooAlias', 'FooAlias2')   # enums by value count as valid sites in the scanner


def scalar_clauses(ck, c):
    """nullable / transfer / optional on plain scalars (in-parameters and return values) are invalid: reported and inert"""
    explicit_closure_targets = set(a[1][0][0] for q in c['params'] for a in (q[2] or []) if a[0] == 'closure' and a[1])
    length_targets = set(dict(a[1]).get('length') for q in list(c['params']) + [(None, None, c['ret_ann'])]
                         for a in (q[2] or []) if a[0] == 'array')
    slots = [(k, nm, tn, anns, c['pobs'][k], c['pwarn'][k]) for k, (nm, tn, anns) in enumerate(c['params']) if k < len(c['pobs'])]
    slots.append(('ret', None, c['ret'], c['ret_ann'], c['robs'], c['rwarn']))
    for k, nm, tn, anns, o, warn in slots:
        if anns is None or tn not in SCALARS:
            continue
        names = [a[0] for a in anns]
        if any(n in names for n in ('type', 'array', 'element-type', 'out', 'inout')) or nm in length_targets:
            continue
        case = dict(callable=c['name'], cbtype=c['cbtype'], params=c['params'], ret=c['ret'], ret_ann=c['ret_ann'], slot=nm or 'return value')
        if 'nullable' in names and nm not in explicit_closure_targets and not (c['cbtype'] and 'closure' in names):
            if 2 not in warn:
                ck.failing_input('(nullable) on a non-pointer %s is not reported' % tn, case, detail=o)
            if o['nullable']:
                ck.failing_input('(nullable) on a non-pointer %s is emitted' % tn, case, detail=o)
        if 'transfer' in names and dict(anns)['transfer'][0][0] in ('full', 'none'):
            if 1 not in warn:
                ck.failing_input('(transfer) on a plain %s is not reported' % tn, case, detail=o)
            if o['transfer'] != 'none':
                ck.failing_input('(transfer) on a plain %s changed transfer-ownership to %s' % (tn, o['transfer']), case, detail=o)
        if 'optional' in names and k != 'ret':
            if 3 not in warn:
                ck.failing_input('(optional) on an in-parameter is not reported', case, detail=o)
            if o['optional']:
                ck.failing_input('(optional) on an in-parameter is emitted', case, detail=o)


def constructor_clauses(ck, S, ET, rng):
    """constructors (functions carrying a class prefix and returning it) and methods: an explicit, valid (transfer) on the return
    value is what the GIR says, whatever default the role of the function brings with it"""
    syms = world_symbols()
    comments = []
    want = {}
    line = 2000
    for i in range(rng.randint(4, 8)):
        role = rng.choice(['constructor', 'constructor', 'method', 'function'])
        ann = rng.choice([None, 'none', 'full', 'floating', 'none', 'full'])
        if role == 'constructor':
            name = 'foo_obj_new_%d' % i
            syms.append(S.func(name, S.ptr(S.td('FooObj')), [S.param('n', S.td('gint'))], line=20 + i))
        elif role == 'method':
            name = 'foo_obj_peek_%d' % i
            syms.append(S.func(name, S.ptr(S.td('FooObj')), [S.param('self', S.ptr(S.td('FooObj')))], line=20 + i))
        else:
            name = 'foo_lookup_%d' % i
            syms.append(S.func(name, S.ptr(S.td('FooObj')), [S.param('n', S.td('gint'))], line=20 + i))
        if ann is not None:
            comments.append(('/**\n * %s:\n *\n * Returns: (transfer %s): the object\n */' % (name, ann), '/src/foo.c', line))
            line += 10
            want[name] = (role, ann, 'none' if ann == 'floating' else ann)
    try:
        r = S.run(syms, comments=comments, includes=['GLib', 'GObject', 'Gio'], dump=ET.ElementTree(ET.fromstring(DUMP)), warnings=False)
    except (Exception, SystemExit) as e:      # noqa
        ck.failing_input('the scanner fails on annotated constructors: %r' % (e,), dict(comments=[c[0] for c in comments]))
        return
    ns = S.gir_ns(r.root)
    ck.count_case(dict(constructors=sorted(want.items())), kind='constructors')
    for el in ns.iter():
        cid = el.get(S.CNS + 'identifier')
        if cid in want:
            role, ann, expect = want[cid]
            rv = el.find(S.CORE + 'return-value')
            if role == 'constructor' and el.tag != S.CORE + 'constructor':
                continue        # pairing is C04's subject
            if rv is None or rv.get('transfer-ownership') != expect:
                ck.failing_input('an explicit (transfer %s) on the return value of a %s is not what the GIR says' % (ann, role),
                                 dict(function=cid, returns='FooObj*', annotation='Returns: (transfer %s)' % ann),
                                 detail=None if rv is None else rv.attrib)


def member_length_clauses(ck, S, ET, rng):
    """(array length=PARAM) on return values and parameters of methods, of virtual methods and of the function-pointer members of
    the class structure behind them: in EVERY element that describes the callable - method, virtual method, the callback inside the
    class structure's field, a static function moved into its record - the length index names the annotated parameter of THAT
    element's parameter list (the instance is a parameter of the callback in the field, not of the method)"""
    syms = world_symbols()
    selfp = lambda: S.param('self', S.ptr(S.td('FooObj')))
    names = rng.sample(['get_items', 'list_names', 'peek_values'], rng.randint(1, 3))
    kids = [S.FS(S.CSYMBOL_TYPE_MEMBER, 'parent_class', base_type=S.td('GObjectClass'), line=401)]
    comments = []
    line = 3000
    expect = []
    for k, nm in enumerate(names):
        extra = [S.param('flags%d' % j, S.td('gint')) for j in range(rng.randint(0, 2))]
        on_ret = rng.random() < 0.6
        if on_ret:
            ps = [selfp()] + extra + [S.param('n_items', S.ptr(S.td('gint')))]
            ret = S.ptr(S.td('gint'))
            doc = ' * @n_items: (out): the number of items\n *\n * Returns: (array length=n_items) (transfer none): the items\n'
        else:
            ps = [selfp()] + extra + [S.param('items', S.ptr(S.td('gint'))), S.param('n_items', S.td('gint'))]
            ret = S.VOID
            doc = ' * @items: (array length=n_items): the items\n * @n_items: the number of items\n'
        rng.random()
        kids.append(S.FS(S.CSYMBOL_TYPE_MEMBER, nm, base_type=S.ptr(S.FT(S.CTYPE_FUNCTION, base_type=ret, child_list=list(ps))), line=402 + k))
        syms.append(S.func('foo_obj_' + nm, ret, list(ps), line=420 + k))
        for ident in ('foo_obj_' + nm, 'FooObjClass::' + nm):        # the method's block and the virtual method's own block
            comments.append(('/**\n * %s:\n * @self: the object\n%s%s */' % (ident, ''.join(' * @flags%d: flags\n' % j for j in range(len(extra))), doc),
                             '/src/foo.c', line))
            line += 20
        expect.append(nm)
    # a static function of a record (no instance): moved into the record, its copy at the top level stays behind as moved-to
    syms.append(S.func('foo_rec_list_all', S.ptr(S.td('gint')), [S.param('n_items', S.ptr(S.td('gint')))], line=440))
    comments.append(('/**\n * foo_rec_list_all:\n * @n_items: (out): the number of items\n *\n * Returns: (array length=n_items) (transfer none): all\n */',
                     '/src/foo.c', line))
    syms += [S.FS(S.CSYMBOL_TYPE_TYPEDEF, 'FooObjClass', base_type=S.FT(S.CTYPE_STRUCT, '_FooObjClass'), line=400),
             S.FS(S.CSYMBOL_TYPE_STRUCT, '_FooObjClass', base_type=S.FT(S.CTYPE_STRUCT, '_FooObjClass', child_list=kids), line=401)]
    case = dict(comments=[c[0] for c in comments])
    try:
        r = S.run(syms, comments=comments, includes=['GLib', 'GObject', 'Gio'], dump=ET.ElementTree(ET.fromstring(DUMP)), warnings=False)
    except (Exception, SystemExit) as e:      # noqa
        ck.failing_input('the scanner fails on annotated methods and virtual methods: %r' % (e,), case)
        return
    ck.count_case(dict(members=expect), kind='member-lengths')
    seen = 0
    for el in r.root.iter():
        if el.tag not in (S.CORE + 'method', S.CORE + 'virtual-method', S.CORE + 'callback', S.CORE + 'function', S.CORE + 'constructor'):
            continue
        pel = el.find(S.CORE + 'parameters')
        plist = [] if pel is None else pel.findall(S.CORE + 'parameter')
        holders = [el.find(S.CORE + 'return-value')] + plist
        for h in holders:
            arr = None if h is None else h.find(S.CORE + 'array')
            if arr is None or arr.get('length') is None:
                continue
            seen += 1
            k = int(arr.get('length'))
            if not (0 <= k < len(plist)) or plist[k].get('name') != 'n_items':
                ck.failing_input('the length index of an (array length=n_items) annotation does not name n_items in the parameter list of '
                                 'the element that carries it', dict(case, element=el.tag.split('}')[1], name=el.get('name'),
                                                                     moved_to=el.get('moved-to')),
                                 detail=dict(length=arr.get('length'), parameters=[p.get('name') for p in plist]))
    if seen < len(expect):
        ck.tie_broken('harness', 'the (array length=) annotations of the member scenario do not show in the GIR: the scenario tests nothing', case)


def main(tier, seed):
    ck = Check('C01', tier, seed)
    ck.assumptions += ['declarations are given as SourceSymbol trees (the C lexer cannot be built here); annotations go through the '
                       'real GtkDocCommentBlockParser as GTK-Doc comment text',
                       'functions and callback types; methods (instance parameters), signals and virtual methods are not generated',
                       'type strings in (type)/(element-type) are single names, not nested specifications',
                       'length/closure/destroy name existing, different parameters (an unknown name is a fatal scanner error)',
                       'the set of declared identifiers and their classes is an input of the model; includes are three stub GIRs']
    ck.prove([], models=['Model/C01Spec.vo'])
    import scanner as S
    import xml.etree.ElementTree as ET
    rng = random.Random(seed)
    nb = 10 if tier == 'quick' else 150
    for _ in range(6 if tier == 'quick' else 60):
        constructor_clauses(ck, S, ET, rng)
        member_length_clauses(ck, S, ET, random.Random(seed * 31 + 5))
    cases = []
    for b in range(nb):
        batch = [gen_callable(rng, i, cbtype=(i % 5 == 4)) for i in range(len(SPECIAL) if b == 0 else 0, 40)]
        if b == 0:
            batch = [dict(c) for c in SPECIAL] + batch
        try:
            done, log = run_batch(S, ET, batch)
        except (Exception, SystemExit) as e:       # noqa
            ck.tie_broken('correspondence', 'the scanner fails on a generated batch: %r' % (e,), dict(batch=batch))
            continue
        for c in batch:
            if c.get('missing'):
                ck.tie_broken('correspondence', 'callable missing from the GIR', c)
        cases += done
    kinds = {}
    for c in cases:
        nann = sum(len(p[2] or []) for p in c['params']) + len(c['ret_ann'] or [])
        for p in c['params']:
            for a in (p[2] or []):
                kinds[a[0]] = kinds.get(a[0], 0) + 1
        ck.count_case(dict(name=c['name'], params=c['params'], ret=c['ret'], ret_ann=c['ret_ann']), nontrivial=nann > 0,
                      kind='annotations:%d' % min(nann, 6))
    ck.extra['annotation_counts'] = kinds
    ck.extra['warning_counts'] = {str(k): sum(1 for c in cases for ws in c['pwarn'] + [c['rwarn']] if k in ws) for k, _ in WARN_PATTERNS}
    if ck.models_ok:
        env = clist(['(%s, (%s, %s))' % (cstr(k), cstr(v[0]), v[1]) for k, v in ENV1.items()])
        items = [coq_case(i, c) for i, c in enumerate(cases)]
        bad = []
        per = 200
        for s0 in range(0, len(items), per):
            text = '\n'.join(['From Coq Require Import List NArith Bool.', 'From GIV.Lib Require Import Regex Str.',
                              'From GIV.Model Require Import C02 C02Spec C01 C01Spec.', 'Import ListNotations.', 'Local Open Scope N_scope.',
                              'Definition env0 : env := %s.' % env,
                              'Definition cases : list acase := [%s].' % ';\n'.join(items[s0:s0 + per]),
                              'Definition bad := Eval vm_compute in map (fun c => a_id c :: a_diff true c) (filter (a_bad true) cases).',
                              'Print bad.'])
            rc, out = coq_eval('C01_cases_%d' % (s0 // per), text)
            if rc != 0:
                ck.tie_broken('correspondence', 'case file does not evaluate:\n' + out[-2000:])
                break
            body = parse_defs(out)['bad']
            for m in re.finditer(r'\[([\d; ]+)\]', body):
                nums = [int(x) for x in m.group(1).replace(' ', '').split(';') if x]
                bad.append(nums)
        ck.extra['traces_validated_against_impl'] = len(items)
        badset = set(b[0] for b in bad)
        # the recorded findings K1-K3 are behaviours of the faithful model (Props/C01.v *_refuted); an override that the
        # model does not reproduce is something else and is reported
        for i, c in enumerate(cases):
            direct_clauses(ck, c, agrees_with_model=(i not in badset))
            scalar_clauses(ck, c)
        if bad:
            c = cases[bad[0][0]]
            if os.environ.get('VERIF_DEBUG'):
                for b in bad[:40]:
                    cc = cases[b[0]]
                    sys.stderr.write('--- %s parts=%s\n params=%s\n ret=%s %s\n pobs=%s\n robs=%s\n warn=%s %s\n' % (
                        cc['name'], b[1:], cc['params'], cc['ret'], cc['ret_ann'],
                        [{k: v for k, v in o.items() if v not in (None, False, [])} for o in cc['pobs']],
                        {k: v for k, v in cc['robs'].items() if v not in (None, False, [])}, cc['pwarn'], cc['rwarn']))
            ck.tie_broken('correspondence', 'annotation application differs from Model.C01 on %d callables (parts %s of the first)'
                          % (len(bad), bad[0][1:]),
                          dict(callable=c['name'], cbtype=c['cbtype'], params=c['params'], ret=c['ret'], ret_ann=c['ret_ann'],
                               observed_params=c['pobs'], observed_return=c['robs'], warnings=c['pwarn'], ret_warnings=c['rwarn']))
    if not ck.models_ok:
        for c in cases:
            direct_clauses(ck, c)
            scalar_clauses(ck, c)
    return ck.finish(rule='functions and callback types with 1-6 parameters over 44 C types (scalars, pointers of depth 1-3, records, boxed, '
                          'objects, enums, aliases, callbacks, GLib containers, unknown types), each with a mostly-valid set of '
                          'annotations (direction, transfer, nullable/optional/allow-none/not, skip, array options, element-type, type, '
                          'scope/closure/destroy, attributes) plus a 25% stream of ill-fitting ones; through the real comment parser, '
                          'Transformer, MainTransformer, IntrospectablePass and GIRWriter with stub includes')


if __name__ == '__main__':
    sys.exit(main(os.environ.get('VERIF_TIER', 'quick'), int(os.environ.get('VERIF_SEED', '1'))))
