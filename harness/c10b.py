"""Block-level correspondence: the real GtkDocCommentBlockParser.parse_comment_block against Model.C10B.parse_block.

The real parser runs unchanged.  Its diagnostics are captured structurally (a MessageLogger whose `log` records the arguments
before doing what it always does); the moment GtkDocCommentBlock.validate starts is noted, so that the diagnostics of the parse
phase (Model.C10B) and of the validation phase (Model.C10V) can be told apart.
"""
import io
import re
import sys
from collections import OrderedDict

from common import coq_eval, parse_defs, parse_nlist, cstr, clist, cbool, copt, REPO

CODES = [
    (1, r'^Skipping invalid GTK-Doc comment block:'), (2, r'should not be preceded by code:'), (3, r'not be followed by comment text:'),
    (4, r'not be followed by code:'), (5, r'not be preceded by comment text:'), (6, r'^invalid comment text:'),
    (28, r'^missing ":" at column \d+:'), (8, r'^identifier not found on the first line:'), (9, r'parameter unexpected at this location:'),
    (10, r'^encountered multiple "Returns" parameters or tags for'), (11, r'parameter is deprecated, please use "@\.\.\." instead:'),
    (12, r'^multiple "@.*" parameters for identifier'), (13, r'has been deprecated, please use annotations on the identifier instead:'),
    (14, r'^malformed "Attributes:" tag will be ignored:'), (15, r'^Duplicate "Attributes:" annotation will be ignored:'),
    (16, r'^GTK-Doc tag "Description:" has been deprecated:'), (17, r'tag unexpected at this location:'),
    (18, r'^encountered multiple return value parameters or tags for'), (19, r'^multiple ".*:" tags for identifier'),
    (20, r'^annotations not supported for tag'), (21, r'^invalid annotation options: expected a "list" but received "key=value pairs":'),
    (22, r'^"in-out" annotation has been deprecated'), (23, r'^"attribute" annotation has been deprecated'),
    (24, r'^malformed "\(attribute\)" annotation will be ignored:'), (25, r'^unexpected parentheses, annotations will be ignored:'),
    (26, r'^unbalanced parentheses, annotations will be ignored:'), (27, r'^multiple ".*" annotations:'),
    # validation phase (Model.C10V)
    (40, r'^unexpected annotation: '), (41, r'^unknown annotation: '), (42, r'^cannot have both "not nullable" and "nullable" present'),
    (43, r'^cannot have both "not nullable" and "allow-none" present'), (44, r'^cannot have both "not optional" and "optional" present'),
    (45, r'annotation needs .*, .* given$'), (46, r'annotation takes at least .*, .* given$'), (47, r'annotation takes at most .*, .* given$'),
    (48, r'^invalid ".*" annotation option: '), (49, r'must be an integer$'), (52, r'must be 0 or 1$'), (51, r'needs a value$'),
]
CODES = [(c, re.compile(p, re.S)) for c, p in CODES]


def code_of(text):
    for c, p in CODES:
        if p.search(text):
            return c
    return 99


class Recorder(object):
    """installs a MessageLogger that records every call of log() and then behaves as always"""

    def __init__(self):
        from giscanner import message
        self.message = message
        rec = self
        self.items = []
        self.boundary = None

        class Rec(message.MessageLogger):
            def log(self, log_type, text, positions=None, prefix=None, marker_pos=None, marker_line=None):
                pos = positions
                if isinstance(pos, (list, set)):
                    pos = list(pos)[-1] if pos else None
                rec.items.append(dict(err=(log_type == message.ERROR), type=log_type, text=text, line=getattr(pos, 'line', None),
                                      file=getattr(pos, 'filename', None), col=marker_pos, quoted=marker_line))
                return message.MessageLogger.log(self, log_type, text, positions, prefix, marker_pos, marker_line)
        self.cls = Rec

    def fresh(self, enabled=True):
        self.items = []
        self.boundary = None
        self.out = io.StringIO()
        self.message.MessageLogger._instance = None
        logger = self.cls(namespace=None, output=self.out)
        logger.enable_warnings(enabled)
        self.message.MessageLogger._instance = logger
        return logger


def view_anns(a):
    out = []
    for k, v in a.items():
        if v is None:
            out.append((k, 'none', None))
        elif isinstance(v, (dict, OrderedDict)):
            out.append((k, 'dict', list(v.items())))
        else:
            out.append((k, 'list', list(v)))
    return out


def view_part(p):
    return dict(name=p.name, line=p.position.line if p.position is not None else None, anns=view_anns(p.annotations),
                apos=p.annotations.position.line if p.annotations.position is not None else None,
                desc=p.description, value=getattr(p, 'value', None))


def observe(parser, rec, text, filename, lineno):
    """run the real parser once; returns the observation as a plain dict"""
    import giscanner.annotationparser as ap
    rec.fresh()
    orig = ap.GtkDocCommentBlock.validate

    def validate(self):
        rec.boundary = len(rec.items)
        return orig(self)
    ap.GtkDocCommentBlock.validate = validate
    exc = None
    blk = None
    try:
        blk = parser.parse_comment_block(text, filename, lineno)
    except Exception as e:      # noqa
        exc = repr(e)
    finally:
        ap.GtkDocCommentBlock.validate = orig
    b = len(rec.items) if rec.boundary is None else rec.boundary
    obs = dict(exc=exc, block=None, indent=None, diags=[], vdiags=[], log=rec.out.getvalue())
    for k, it in enumerate(rec.items):
        d = dict(err=it['err'], code=code_of(it['text']), line=it['line'], col=it['col'], quoted=it['quoted'], text=it['text'], file=it['file'])
        (obs['diags'] if k < b else obs['vdiags']).append(d)
    if blk is not None:
        obs['block'] = dict(name=blk.name, line=blk.position.line, anns=view_anns(blk.annotations),
                            apos=blk.annotations.position.line if blk.annotations.position is not None else None,
                            params=[view_part(p) for p in blk.params.values()], desc=blk.description,
                            tags=[view_part(t) for t in blk.tags.values()], code_before=blk.code_before, code_after=blk.code_after)
        obs['indent'] = list(blk.indentation)
    return obs, blk


# ------------------------------------------------------------------ Coq terms
def ok_text(s):
    """text the model can be given: Coq's reader takes any code point as a number"""
    return all(not (0xD800 <= ord(c) <= 0xDFFF) for c in s)


def c_value(kind, v):
    if kind == 'none':
        return 'ANone'
    if kind == 'dict':
        return '(ADict %s)' % clist(['(%s, %s)' % (cstr(k), copt(x, cstr)) for k, x in v])
    return '(AList %s)' % clist([cstr(o) for o in v])


def c_anns(a):
    return clist(['(%s, %s)' % (cstr(k), c_value(kind, v)) for k, kind, v in a])


def c_nat(n):
    return '%d%%nat' % n


def c_part(p):
    return ('{| pt_name := %s; pt_line := %s; pt_anns := %s; pt_apos := %s; pt_desc := %s; pt_value := %s |}'
            % (cstr(p['name']), c_nat(p['line']), c_anns(p['anns']), copt(p['apos'], c_nat), copt(p['desc'], cstr), copt(p['value'], cstr)))


def c_block(b):
    return ('{| bk_name := %s; bk_line := %s; bk_anns := %s; bk_apos := %s; bk_params := %s; bk_desc := %s; bk_tags := %s; '
            'bk_code_before := %s; bk_code_after := %s |}'
            % (cstr(b['name']), c_nat(b['line']), c_anns(b['anns']), copt(b['apos'], c_nat), clist([c_part(p) for p in b['params']]),
               copt(b['desc'], cstr), clist([c_part(t) for t in b['tags']]), cstr(b['code_before']), cstr(b['code_after'])))


def c_diag(d):
    return ('{| dg_err := %s; dg_code := %s; dg_line := %s; dg_col := %s; dg_quoted := %s |}'
            % (cbool(d['err']), c_nat(d['code']), c_nat(d['line'] if d['line'] is not None else 0), copt(d['col'], c_nat), copt(d['quoted'], cstr)))


def c_outcome(obs):
    return ('{| o_blk := %s; o_indent := %s; o_diags := %s; o_exc := %s |}'
            % (copt(obs['block'], c_block), clist([cstr(i) for i in (obs['indent'] or [])]), clist([c_diag(d) for d in obs['diags']]),
               cbool(obs['exc'] is not None)))


HEADER = '\n'.join(['From Coq Require Import List NArith Bool.', 'From GIV.Lib Require Import Regex Str Backtrack.',
                    'From GIV.Model Require Import C02 C10 C10B C10BEq C10V.', 'Import ListNotations.', 'Local Open Scope N_scope.'])


def compare(name, cases, shard=250, with_validate=True):
    """cases: list of (text, lineno, obs).  Returns (ok, detail, mismatches) where mismatches = [(index, component)]"""
    import concurrent.futures
    shards = [cases[i:i + shard] for i in range(0, len(cases), shard)]
    mism = []

    def one(k):
        items = []
        for j, (text, lineno, obs) in enumerate(shards[k]):
            items.append('(%d, %s, %s, %s, %s)' % (k * shard + j, cstr(text), c_nat(lineno), c_outcome(obs),
                                                   clist([c_diag(d) for d in obs['vdiags']])))
        body = [HEADER,
                'Definition cases : list (N * str * nat * outcome * list diag) := [%s].' % ';\n'.join(items),
                "Definition bad := Eval vm_compute in flat_map (fun c => let '(i, t, ln, o, vd) := c in",
                '  let m := parse_block t ln in',
                '  let d := outcome_diff m o in',
                '  let dv := if Nat.eqb d 0 && negb (o_exc m) && %s then (if all2b diag_eqb (validate_block (o_blk m)) vd then 0 else 5)%%nat else 0%%nat in' % ('true' if with_validate else 'false'),
                '  if Nat.eqb d 0 && Nat.eqb dv 0 then [] else [i; N.of_nat (d + dv)]) cases.', 'Print bad.']
        return coq_eval('%s_%d' % (name, k), '\n'.join(body))
    with concurrent.futures.ThreadPoolExecutor(max_workers=8) as ex:
        results = list(ex.map(one, range(len(shards))))
    for k, (rc, out) in enumerate(results):
        if rc != 0:
            return False, 'case file %s_%d does not evaluate:\n%s' % (name, k, out[-2000:]), []
        flat = parse_nlist(parse_defs(out)['bad'])
        mism += [(flat[i], flat[i + 1]) for i in range(0, len(flat), 2)]
    return True, '', mism


def model_outcome(name, text, lineno):
    """what the model computes for one input, as printed by Coq (for replay files)"""
    body = [HEADER, 'Definition m := Eval vm_compute in parse_block %s %s.' % (cstr(text), c_nat(lineno)), 'Print m.',
            'Definition v := Eval vm_compute in validate_block (o_blk m).', 'Print v.']
    rc, out = coq_eval(name, '\n'.join(body))
    return out[-6000:]


COMPONENT = {1: 'raising an exception', 2: 'the block recovered', 3: 'block.indentation', 4: 'the diagnostics of the parse phase',
             5: 'the diagnostics of validate()'}


# ------------------------------------------------------------------ a line-level generator that reaches every branch of the state machine
ANN_POOL = ['(skip)', '(out)', '(in)', '(inout)', '(in-out)', '(transfer full)', '(transfer none)', '(transfer)', '(transfer full none)',
            '(nullable)', '(optional)', '(allow-none)', '(not nullable)', '(not optional)', '(not)', '(not both)', '(array)', '(array length=n)',
            '(array fixed-size=3)', '(array fixed-size=x)', '(array fixed-size)', '(array zero-terminated=1)', '(array zero-terminated=2)',
            '(array zero-terminated)', '(array length)', '(array bogus=1)', '(array fixed-size=1_0)', '(array fixed-size= 7)', '(array fixed-size=+5)',
            '(element-type utf8)', '(element-type utf8 gint)', '(element-type a b c)', '(element-type)', '(type GLib.List(utf8))',
            '(type GLib.List<utf8>)', '(scope call)', '(scope everywhere)', '(scope a=b)', '(closure data)', '(closure)', '(closure a b)',
            '(destroy notify)', '(destroy)', '(attributes a=b c)', '(attributes)', '(attribute a b)', '(attribute a)', '(attribute)',
            '(attribute a b c)', '(attribute a=b)', '(rename-to foo_bar)', '(rename-to)', '(value 5)', '(value)', '(constructor)', '(method)',
            '(method x)', '(virtual foo)', '(foreign)', '(frobnicate)', '(frobnicate a  b)', '(Transfer Full)', '(SKIP)', '(skip) (skip)',
            '(out caller-allocates)', '(out callee-allocates)', '(out both ways)', '(out wrong)', '(default-value 1)', '(get-property x)',
            '(set-property)', '(setter x)', '(getter)', '(emitter e)', '(finish-func f)', '(async-func a)', '(sync-func)', '(copy-func c)',
            '(free-func f)', '(ref-func r)', '(unref-func u)', '(get-value-func g)', '(set-value-func s)', '(  skip  )', '(transfer  full)',
            '(transfer\tfull)', '()', '((skip))', '(skip', 'skip)', '(a (b) c)', '(a (b c)', '(skip) )', '(nullable) (not nullable)',
            '(allow-none) (not nullable)', '(optional) (not optional)', '(not nullable) (nullable)', '(ſkip)', '(K)', '(in out)']
WORDS = ['alpha', 'beta', 'the', 'value', 'of', 'it.', 'foo_other()', '%TRUE', '#FooBar', 'a:b', 'x(y)', '(see below)', 'Since:', 'Returns:',
         '@p:', 'a b', 'x\x0cy', 'p\x85q', 'u\x1cv', ' ', '　', '*', '*/x', '/**', ':', '::', '...', 'naïve', 'İstanbul']
TAGS = ['Returns', 'Return value', 'Returns value', 'Return', 'returns', 'RETURNS', 'Since', 'since', 'Deprecated', 'Stability', 'stability',
        'Description', 'Transfer', 'Rename To', 'rename to', 'Attributes', 'Type', 'Virtual', 'Value', 'Ref Func', 'Unref Func',
        'Get Value Func', 'Set Value Func', 'ſince', 'Return value', 'Return\tvalue', 'Stabılity', 'STABİLITY', 'SinKe']


def wild_fields(rng, tagname=None):
    r = rng.random()
    anns = ' '.join(rng.choice(ANN_POOL) for _ in range(rng.choice([0, 0, 1, 1, 2, 3])))
    desc = ' '.join(rng.choice(WORDS) for _ in range(rng.choice([0, 1, 2, 4])))
    if tagname is not None:
        low = tagname.lower()
        if low in ('since', 'deprecated') and r < 0.8:
            desc = rng.choice(['1.2', '0.10.', '3', '', '..', '1.2:', '1.2 : ', 'x1']) + rng.choice(['', ' ', ': ', ' : ', ':']) + desc
        elif low.startswith('stab') and r < 0.8:
            desc = rng.choice(['Stable', 'unstable', 'PRIVATE', 'internal', 'bogus', '', 'ſtable', 'İnternal', 'stablex']) + rng.choice(['', ' ', ': ']) + desc
        elif low == 'attributes' and r < 0.8:
            return rng.choice(['(a b)', '(a b) (c d)', '(a)', '(a b c)', '(a=b)', '(a b) (c', '()', '(a b) text', '', ' ( a  b ) ', '(a b) (a c)',
                               '(k v=w)', '(org.foo bar)'])
    sep = rng.choice([': ', ':', ' : ', ' ', '', '  :  '])
    if anns and desc:
        return anns + sep + desc
    return anns + rng.choice(['', ':', ' :']) if anns else desc


def wild_block_text(rng):
    """a comment composed line by line from everything the state machine distinguishes"""
    star = rng.choice([' * ', ' * ', ' * ', ' *', '*', '  *  ', '\t* ', ' *\t', '', ' * * ', 'junk * ', ' * ', ' *   '])

    def L(body, force=None):
        p = force if force is not None else (star if rng.random() < 0.85 else rng.choice([' * ', '', '*', '   * ', ' *  ', 'x * ', ' ** ']))
        return (p + body) if body else p.rstrip(' ') if rng.random() < 0.7 else p
    lines = [rng.choice(['/**', '/**', '/**', '/**', '  /**', '/** ', '/** text', 'code(); /**', '\t/**', '/***', '/*', '/**/', 'x /** y', '/** */', ''])]
    ident = rng.choice(['foo_bar', 'foo_bar', 'foo_bar', 'FooObj:prop-name', 'FooObj::sig-name', 'FooRec.field', 'SECTION:foo', 'SECTION: foo-bar',
                        'SECTION foo', 'FooObj|grp.act', 'FOO_CONST', 'foo-bar', 'foo bar', '_foo', '9lives', 'Foo : prop', 'Foo :: sig', 'Foo . f',
                        'naïve_fn', 'Foo:::x', 'a', '', '@p', 'Since'])
    idline = ident + rng.choice([':', ':', ':', '', ' :', '::', ': :'])
    r = rng.random()
    if r < 0.35:
        idline += ' ' + ' '.join(rng.choice(ANN_POOL) for _ in range(rng.choice([1, 1, 2, 3]))) + rng.choice(['', '', ':', ' trailing text', ' :'])
    elif r < 0.42:
        idline += ' ' + rng.choice(WORDS)
    if rng.random() < 0.06:
        lines.append(L(rng.choice(['', 'not an identifier!', '(skip)', '???'])))
    lines.append(L(idline))
    if rng.random() < 0.15:
        lines.append(L('  ' + ' '.join(rng.choice(ANN_POOL) for _ in range(rng.choice([1, 2])))))        # identifier continuation
    section = 'ident'
    for _ in range(rng.choice([0, 1, 2, 3, 5, 8, 12])):
        k = rng.random()
        if k < 0.25:
            name = rng.choice(['p', 'q', 'p', 'data', '...', 'Varargs', 'args...', 'returns', 'Returns', 'RETURNS', 'x-y', 'naïve', 'p q', '', 'Returnſ'])
            lines.append(L('@%s%s%s' % (name, rng.choice([':', ':', ':', ' :', '', '::']), (' ' + wild_fields(rng)) if rng.random() < 0.8 else '')))
        elif k < 0.40:
            lines.append(L(''))
        elif k < 0.65:
            t = rng.choice(TAGS)
            ind = rng.choice(['', '', '', ' ', '  ', '    ', '\t'])
            lines.append(L(ind + t + rng.choice([':', ':', ':', ' :', '', '::']) + ((' ' + wild_fields(rng, t)) if rng.random() < 0.85 else '')))
        elif k < 0.80:
            ind = rng.choice(['', ' ', '  ', '    ', '\t'])
            lines.append(L(ind + ' '.join(rng.choice(ANN_POOL) for _ in range(rng.choice([1, 1, 2]))) + rng.choice(['', ':', ': text', ' text', ' : t'])))
        else:
            ind = rng.choice(['', '', ' ', '  ', '      '])
            lines.append(L(ind + ' '.join(rng.choice(WORDS) for _ in range(rng.randint(1, 5))) + rng.choice(['', '', ' ', '  \t'])))
    lines.append(rng.choice([' */', ' */', ' */', ' */', '*/', ' **/', ' * text */', ' */ code();', ' * t */ c', ' *', '', ' */ ', '\t*/', ' * / ']))
    nl_ = rng.choice(['\n', '\n', '\n', '\r\n', '\r'])
    return nl_.join(lines)


# ------------------------------------------------------------------ the shared routine of C10 and C11
DEPRECATED_QUOTING = (13, 14, 15, 21, 22, 23, 24, 25, 26, 27, 28)       # may be raised from the deprecated tag-style path, which quotes the text behind the asterisk


def direct_clauses(ck, text, lineno, obs, filename):
    """C11's crisp clauses, judged on what the implementation did with one comment (no model involved)"""
    lines = re.split(r'\r\n|\r|\n', text)
    case = dict(text=text, first_line=lineno)
    if obs['exc'] is not None:
        ck.failing_input('parse_comment_block raises', case, detail=obs['exc'])
        return
    alone = lines[0].strip() == '/**'
    end_alone = lines[-1].strip() in ('*/', '**/')
    for d in obs['diags'] + obs['vdiags']:
        if d['code'] == 99:
            ck.failing_input('a diagnostic with a text the specification does not know', case, detail=d['text'])
            continue
        if d['file'] != filename:
            ck.failing_input('a diagnostic names another file', case, detail=d)
        if d['line'] is None or not (lineno <= d['line'] <= lineno + len(lines) - 1 + (0 if alone else 1)):
            ck.failing_input('a diagnostic names a line outside the comment it is about', case, detail=d)
            continue
        if d['quoted'] is None or not alone:
            continue
        src = lines[d['line'] - lineno] if d['line'] - lineno < len(lines) else None
        # the deprecated tag-style annotations ("Transfer: full") quote the text behind the asterisk with columns of the whole
        # line: outside the property's claim about carets and quoted lines
        if d['code'] in DEPRECATED_QUOTING and any(x['code'] == 13 and x['line'] == d['line'] for x in obs['diags']):
            continue
        if d['col'] is None or not (0 <= d['col'] <= len(d['quoted'])):
            ck.failing_input('the caret of a diagnostic lies outside the quoted line', case, detail=d)
        if d['quoted'] != src:
            # text in front of the end token is handed on without the token (known finding C11-K2)
            k2 = (not end_alone) and d['line'] == lineno + len(lines) - 1 and src is not None and d['quoted'] in src
            ck.failing_input('the quoted line of a diagnostic is not the source line', case, detail=d,
                             fid='C11-K2-text-before-end-token-quoted-without-it' if k2 else None)


def correspondence(ck, name, items, parser, rec, filename='/src/dir/foo.c', clauses=True):
    """items: list of (text, lineno, kind).  Runs the implementation, judges the direct clauses, and compares with the model in Coq."""
    cases = []
    for text, lineno, kind in items:
        if not ok_text(text):
            continue
        obs, blk = observe(parser, rec, text, filename, lineno)
        ck.count_case(dict(text=text, line=lineno), nontrivial=True, kind=kind)
        if clauses:
            direct_clauses(ck, text, lineno, obs, filename)
        cases.append((text, lineno, obs))
    if not ck.models_ok:
        return cases
    ok, detail, mism = compare(name, cases)
    if not ok:
        ck.tie_broken('correspondence', detail)
        return cases
    ck.extra['traces_validated_against_impl'] = ck.extra.get('traces_validated_against_impl', 0) + len(cases)
    if mism:
        idx, comp = mism[0]
        text, lineno, obs = cases[idx]
        ck.tie_broken('correspondence', 'parse_comment_block differs from Model.C10B.parse_block / Model.C10V.validate_block on %d of %d comments '
                      '(first difference: %s)' % (len(mism), len(cases), COMPONENT.get(comp, comp)),
                      dict(text=text, first_line=lineno, implementation={k: obs[k] for k in ('exc', 'block', 'indent')},
                           implementation_diagnostics=[{k: d[k] for k in ('err', 'code', 'line', 'col', 'quoted', 'text')} for d in obs['diags']],
                           implementation_validate=[{k: d[k] for k in ('code', 'line', 'text')} for d in obs['vdiags']],
                           model=model_outcome(name + '_dbg', text, lineno), more=[cases[i][0] for i, _ in mism[1:6]]))
    return cases
