"""Run the scanner pipeline on a world description (JSON on stdin) in a fresh process and print
the GIR.  Used by c16.py under different PYTHONHASHSEED values, block orders, declaration orders
and cache states."""
import json
import os
import sys
import xml.etree.ElementTree as ET


def build(world):
    import scanner as S
    syms = []
    for d in world['decls']:
        k = d['k']
        fn, line = d['file'], d['line']
        if k == 'typedef_struct':          # typedef struct _Tag Name;
            syms.append(S.FS(S.CSYMBOL_TYPE_TYPEDEF, d['name'], base_type=S.FT(S.CTYPE_STRUCT, d['tag']), source_filename=fn, line=line))
        elif k == 'struct':                # struct _Tag { fields };
            kids = [S.FS(S.CSYMBOL_TYPE_MEMBER, f, base_type=S.td(t) if not t.endswith('*') else S.ptr(S.td(t[:-1])),
                         source_filename=fn, line=line + 1 + i) for i, (f, t) in enumerate(d['fields'])]
            syms.append(S.FS(S.CSYMBOL_TYPE_STRUCT, d['tag'], base_type=S.FT(S.CTYPE_STRUCT, d['tag'], child_list=kids),
                             source_filename=fn, line=line))
        elif k == 'func':
            ps = [S.param(n, S.td(t) if not t.endswith('*') else S.ptr(S.td(t[:-1]))) for n, t in d['params']]
            rt = d['ret']
            r = S.VOID if rt == 'void' else (S.td(rt) if not rt.endswith('*') else S.ptr(S.td(rt[:-1])))
            syms.append(S.func(d['name'], r, ps, line=line, fn=fn))
        elif k == 'enum':
            syms.append(S.enum_typedef(d['name'], [(m, v, False) for m, v in d['members']], line=line, fn=fn))
        elif k == 'alias':
            syms.append(S.FS(S.CSYMBOL_TYPE_TYPEDEF, d['name'], base_type=S.td(d['target']), source_filename=fn, line=line))
        elif k == 'const':
            syms.append(S.const(d['name'], base=S.td('gint'), line=line, fn=fn, const_int=d['value']))
        elif k == 'callback':
            ps = [S.param(n, S.td(t)) for n, t in d['params']]
            syms.append(S.cbtypedef(d['name'], S.VOID, ps, line=line, fn=fn))
        else:
            raise ValueError(k)
    comments = [(b['text'], b['file'], b['line']) for b in world['blocks']]
    dump = ET.ElementTree(ET.fromstring(world['dump'])) if world.get('dump') else None
    r = S.run(syms, comments=comments, includes=world.get('includes', ['GLib', 'GObject']), dump=dump, warnings=False,
              shared_libraries=world.get('libraries'), c_includes=world.get('c_includes', ()), packages=world.get('packages', ()),
              include_paths=world.get('include_paths'), identifier_prefixes=world.get('identifier_prefixes'))
    return r.xml


def main():
    world = json.load(sys.stdin)
    cache = os.environ.get('C16_CACHE')
    if cache:
        # use the real cache for the include GIRs: scanner.py switched it off on import
        import scanner  # noqa
        os.environ.pop('GI_SCANNER_DISABLE_CACHE', None)
        os.environ['XDG_CACHE_HOME'] = cache
    swap = os.environ.get('C16_SWAP')
    if swap:
        # a dependency GIR is replaced by another process while this scan has just read it: the history
        # "read, then modified, then stored" of the cache (the replacement gets a later modification time)
        target, replacement = swap.split('|')
        import shutil
        from giscanner import girparser
        orig = girparser.GIRParser.parse

        def parse(self, filename):
            r = orig(self, filename)
            if os.path.realpath(filename) == os.path.realpath(target):
                st = os.stat(filename)
                shutil.copyfile(replacement, filename)
                os.utime(filename, ns=(st.st_atime_ns, st.st_mtime_ns + 5 * 10 ** 9))
            return r
        girparser.GIRParser.parse = parse
    xml = build(world)
    sys.stdout.write(xml)


if __name__ == '__main__':
    main()
