"""C07 — GIR files survive a read/write cycle unchanged."""
import glob
import os
import random
import re
import shutil
import sys
import tempfile

from common import Check, coq_eval, parse_defs, parse_nlist, cstr, clist, cbool, copt, REPO, ROOT


def passthrough(path):
    """the project's own cycle (scannermain.passthrough_gir): GIRParser then GIRWriter"""
    from giscanner.girparser import GIRParser
    from giscanner.girwriter import GIRWriter
    parser = GIRParser()
    parser.parse(path)
    writer = GIRWriter(parser.get_namespace())
    return writer.get_encoded_xml().decode('utf-8')


def first_diff(a, b):
    la, lb = a.splitlines(), b.splitlines()
    for i, (x, y) in enumerate(zip(la, lb)):
        if x != y:
            return dict(line=i + 1, written=x, rewritten=y)
    return dict(line=min(len(la), len(lb)) + 1, written='<end>' if len(la) <= len(lb) else la[len(lb)],
                rewritten='<end>' if len(lb) <= len(la) else lb[len(la)])


def field_world(rng, S, ET):
    """structures whose members mix plain fields, anonymous unions/structures, function pointers and arrays whose length is another member"""
    syms, comments = [], []
    line, cline = 10, 1000
    for r in range(rng.randint(1, 3)):
        name = 'FooFld%d' % r
        kids = []
        names = []
        nmem = rng.randint(2, 6)
        for j in range(nmem):
            k = rng.random()
            if k < 0.25:
                # anonymous union or structure member
                inner = [S.FS(S.CSYMBOL_TYPE_MEMBER, 'a%d' % j, base_type=S.td('gint'), line=line), S.FS(S.CSYMBOL_TYPE_MEMBER, 'b%d' % j, base_type=S.td('gdouble'), line=line)]
                kids.append(S.FS(S.CSYMBOL_TYPE_MEMBER, 'u%d' % j, base_type=S.FT(rng.choice([S.CTYPE_UNION, S.CTYPE_STRUCT]), None, child_list=inner), line=line))
                names.append(None)
            elif k < 0.4:
                kids.append(S.FS(S.CSYMBOL_TYPE_MEMBER, 'cb%d' % j, base_type=S.ptr(S.FT(S.CTYPE_FUNCTION, base_type=S.VOID,
                                                                                         child_list=[S.param('x', S.td('gint'))])), line=line))
                names.append(None)
            elif k < 0.7:
                kids.append(S.FS(S.CSYMBOL_TYPE_MEMBER, 'n%d' % j, base_type=S.td(rng.choice(['gint', 'guint', 'gsize'])), line=line))
                names.append('n%d' % j)
            else:
                kids.append(S.FS(S.CSYMBOL_TYPE_MEMBER, 'arr%d' % j, base_type=S.ptr(S.td(rng.choice(['guint8', 'gint', 'gchar']))), line=line))
                names.append('@arr%d' % j)
            line += 1
        ints = [n for n in names if n and not n.startswith('@')]
        for n in names:
            if n and n.startswith('@') and ints and rng.random() < 0.8:
                comments.append(('/**\n * %s.%s: (array length=%s)\n */' % (name, n[1:], rng.choice(ints)), '/src/foo.c', cline))
                cline += 10
        syms.append(S.FS(S.CSYMBOL_TYPE_TYPEDEF, name, base_type=S.FT(S.CTYPE_STRUCT, '_' + name), line=line))
        syms.append(S.FS(S.CSYMBOL_TYPE_STRUCT, '_' + name, base_type=S.FT(S.CTYPE_STRUCT, '_' + name, child_list=kids), line=line + 1))
        line += 10
    r = S.run(syms, comments=comments, includes=['GLib', 'GObject'], warnings=False)
    return r.xml


def escaping_world(rng, S):
    """attribute values and documentation text that need XML escaping (both quote kinds, &, <, >, non-ASCII)"""
    pieces = ['"', "'", '&', '<', '>', 'a', 'it', '&amp;', '\u00e9', '\u2028', ']]>', '=', '\\',
              '\U0001F600', '\U0001D11E', '\U00020000', '\uFFFD', '\uE000']      # code points beyond the basic plane are XML characters too
    syms, comments = [], []
    for i in range(rng.randint(1, 4)):
        name = 'foo_esc_%d' % i
        val = ''.join(rng.choice(pieces) for _ in range(rng.randint(1, 5)))
        doc = ' '.join(''.join(rng.choice(pieces) for _ in range(rng.randint(1, 4))) for _ in range(rng.randint(1, 5)))
        syms.append(S.FS(S.CSYMBOL_TYPE_FUNCTION, name, base_type=S.FT(S.CTYPE_FUNCTION, base_type=S.VOID,
                                                                         child_list=[S.param('x', S.td('gint'))]), line=10 + i))
        comments.append(('/**\n * %s: (attributes demo.k=%s other.k=v)\n * @x: (attributes p.k=%s): %s\n *\n * %s\n */' % (name, val, val, doc, doc),
                         '/src/foo.c', 1000 + 20 * i))
    try:
        r = S.run(syms, comments=comments, includes=['GLib', 'GObject'], warnings=False)
    except Exception as e:      # noqa
        if type(e).__name__ == 'ParseError':
            return ('not-well-formed', repr(e), [c[0] for c in comments])
        raise
    return r.xml


def registered_world(rng, S, ET):
    """types known from the runtime dump only (boxed types without a structure, enumerations, flags, interfaces, classes) with
    constructors, methods and plain functions that the scanner attaches to them by symbol prefix"""
    d = ['<?xml version="1.0"?><dump>']
    syms, comments = [], []
    line = [10]

    def at():
        line[0] += rng.randint(1, 9)
        return dict(line=line[0], fn=rng.choice(['/src/foo.h', '/src/foo-types.h']))

    def attach(prefix, tname, n_static=2):
        names = rng.sample(['helper', 'lookup', 'from_string', 'quark', 'count', 'reset_all'], rng.randint(1, n_static))
        for nm in names:
            f = 'foo_%s_%s' % (prefix, nm)
            syms.append(S.func(f, rng.choice([S.basic('void'), S.td('gint'), S.td('gboolean')]),
                               [S.param('n', S.td('gint'))] if rng.random() < 0.7 else [], **at()))
            if rng.random() < 0.5:
                comments.append(('/**\n * %s:\n%s *\n * Does %s & more <things>.\n *\n * Since: 1.%d\n */'
                                 % (f, ' * @n: a number\n' if syms[-1].base_type.child_list else '', nm, rng.randint(0, 9)), '/src/foo.c', line[0]))
    for i in range(rng.randint(1, 3)):
        t = 'FooBx%d' % i
        d.append('<boxed name="%s" get-type="foo_bx%d_get_type"/>' % (t, i))
        syms.append(S.func('foo_bx%d_get_type' % i, S.td('GType'), [], **at()))
        if rng.random() < 0.7:
            syms.append(S.func('foo_bx%d_new' % i, S.ptr(S.td(t)), [], **at()))
        if rng.random() < 0.7:
            syms.append(S.func('foo_bx%d_copy' % i, S.ptr(S.td(t)), [S.param('self', S.ptr(S.td(t)))], **at()))
        if rng.random() < 0.8:
            attach('bx%d' % i, t)
    for i in range(rng.randint(0, 2)):
        t = 'FooKind%d' % i
        flags = rng.random() < 0.4
        d.append('<%s name="%s" get-type="foo_kind%d_get_type"><member name="FOO_KIND%d_A" nick="a" value="1"/><member name="FOO_KIND%d_B" nick="b" value="2"/></%s>'
                 % ('flags' if flags else 'enum', t, i, i, i, 'flags' if flags else 'enum'))
        syms.append(S.func('foo_kind%d_get_type' % i, S.td('GType'), [], **at()))
        syms.append(S.enum_typedef(t, [('FOO_KIND%d_A' % i, 1, False), ('FOO_KIND%d_B' % i, 2, False)], bitfield=flags, **at()))
        attach('kind%d' % i, t)
    if rng.random() < 0.6:
        d.append('<interface name="FooIface" get-type="foo_iface_get_type"><prerequisite name="GObject"/></interface>')
        syms.append(S.func('foo_iface_get_type', S.td('GType'), [], **at()))
        if rng.random() < 0.5:
            syms.append(S.func('foo_iface_poke', S.basic('void'), [S.param('self', S.ptr(S.td('FooIface')))], **at()))
        attach('iface', 'FooIface')
    if rng.random() < 0.6:
        d.append('<class name="FooObj" get-type="foo_obj_get_type" parents="GObject"/>')
        syms.append(S.func('foo_obj_get_type', S.td('GType'), [], **at()))
        syms.append(S.func('foo_obj_new', S.ptr(S.td('FooObj')), [], **at()))
        attach('obj', 'FooObj')
    d.append('</dump>')
    rng.shuffle(syms)
    dump = ET.ElementTree(ET.fromstring(''.join(d)))
    r = S.run(syms, comments, dump=dump, includes=['GLib', 'GObject'])
    return r.xml


def main(tier, seed):
    ck = Check('C07', tier, seed)
    ck.assumptions += ['the cycle is the project\'s own (GIRParser().parse + GIRWriter, as scannermain.passthrough_gir / --reparse-validate do it)',
                       'freshly scanned namespaces come from SourceSymbol trees (stub lexer) through the generators of C01, C12, C15, C16 and a '
                       'structure-member generator; the shipped tests/scanner/*-expected.gir files are cycled as they are']
    ck.prove(['gen_c07.py', 'gen_c02.py'], models=['Model/C07.vo', 'Model/C07T.vo'])
    sys.path.insert(0, REPO)
    import scanner as S
    import xml.etree.ElementTree as ET
    import c15
    rng = random.Random(seed)
    tmp = tempfile.mkdtemp(prefix='giv07')
    docs = []
    stable_docs = []
    try:
        try:
            for what, xml, incs in [e_[:3] for e_ in c15.scanner_girs(rng, 3 if tier == 'quick' else 30)]:
                docs.append((what, xml))
            for b in range(10 if tier == 'quick' else 150):
                docs.append(('structure members #%d' % b, field_world(rng, S, ET)))
            for b in range(8 if tier == 'quick' else 100):
                docs.append(('registered types #%d' % b, registered_world(rng, S, ET)))
            for b in range(10 if tier == 'quick' else 150):
                w = escaping_world(rng, S)
                if isinstance(w, tuple):
                    ck.failing_input('the GIR written by the scanner is not well-formed XML, so it cannot be read back',
                                     dict(comments=w[2], functions='void foo_esc_<i> (gint x)'), detail=w[1])
                else:
                    docs.append(('escaping #%d' % b, w))
        except (Exception, SystemExit) as e:      # noqa
            ck.tie_broken('correspondence', 'the scanner fails on a generated world: %r' % (e,))
        for f in sorted(glob.glob(os.path.join(REPO, 'tests', 'scanner', '*-expected.gir'))):
            docs.append(('shipped ' + os.path.basename(f), open(f, encoding='utf-8').read()))
        for what, xml in docs:
            # names survive the cycle only if they mean the same afterwards: a qualified type name must lead to this namespace
            # or to one the document includes (what the reader resolves it against)
            try:
                root = ET.fromstring(xml)
                own = root.find(S.CORE + 'namespace').get('name')
                incs = {own}
                todo = [(i.get('name'), i.get('version')) for i in root.findall(S.CORE + 'include')]
                while todo:         # includes are transitive: follow them through the stub GIRs
                    n_, v_ = todo.pop()
                    if n_ in incs:
                        continue
                    incs.add(n_)
                    f_ = os.path.join(ROOT, 'harness', 'stubgir', '%s-%s.gir' % (n_, v_))
                    if os.path.exists(f_):
                        todo += [(i.get('name'), i.get('version')) for i in ET.parse(f_).getroot().findall(S.CORE + 'include')]
                bad = sorted(set(t.get('name') for t in root.iter() if t.tag in (S.CORE + 'type', S.CORE + 'array') and t.get('name')
                                 and '.' in t.get('name') and t.get('name').split('.')[0] not in incs
                                 and t.get('name').split('.')[0] not in ('GLib', 'GObject', 'Gio')))
                from giscanner import ast as giast
                nsel = root.find(S.CORE + 'namespace')
                local = set(e.get('name') or e.get(S.GLIB + 'name') for e in nsel) | set(giast.type_names) | {'none', 'gpointer', 'utf8', 'filename', 'va_list'}
                bare = sorted(set(t.get('name') for t in root.iter() if t.tag in (S.CORE + 'type',) and t.get('name') and '.' not in t.get('name')
                                  and t.get('name') not in local))
                if bare:
                    ck.failing_input('an unqualified type name in the written GIR is neither a fundamental type nor defined in the document\'s '
                                     'namespace, so the reader gives it another meaning than the model that was written',
                                     dict(document=what, gir=xml[:100000]), detail=bare[:5])
                if bad:
                    ck.failing_input('a type name in the written GIR names a namespace the document neither is nor includes, so the '
                                     'reader gives it another meaning than the model that was written', dict(document=what, gir=xml[:100000]),
                                     detail=bad[:5])
            except ET.ParseError:
                pass
            p = os.path.join(tmp, 'doc.gir')
            cur = xml
            ck.count_case(dict(document=what, bytes=len(xml)), nontrivial=len(xml) > 2000, kind=what.split('#')[0].split(' ')[0])
            for round_ in (1, 2, 3):
                open(p, 'w', encoding='utf-8').write(cur)
                try:
                    nxt = passthrough(p)
                except BaseException as e:      # noqa
                    ck.failing_input('the GIR reader or writer raises %s on %s (cycle %d)' % (type(e).__name__, what, round_),
                                     dict(document=what, gir=cur if len(cur) < 200000 else cur[:5000]), detail=repr(e))
                    break
                if nxt != cur:
                    ck.failing_input('reading a GIR and writing it back does not give identical XML (%s, cycle %d)'
                                     % ('as written by the scanner' if round_ == 1 else 'itself produced by a write', round_),
                                     dict(document=what, gir=cur if len(cur) < 200000 else '<shipped file>'), detail=first_diff(cur, nxt))
                    break
                cur = nxt
            else:
                stable_docs.append((what, cur))
        # GIR files are not only what this writer wrote: documentation text of a stable document gets characters of every kind
        # XML 1.0 allows in text (beyond the basic plane, private use, the replacement character); the cycle must keep them
        extra = ['\U0001D11E', '\U0001F600 smile', '\U00020000', '\uE000\uFFFD', 'caf\u00e9 \u4e2d']
        nd = 0
        for what, xml in stable_docs:
            if '</doc>' not in xml or len(xml) > 400000:
                continue
            nd += 1
            if nd > (4 if tier == 'quick' else 40):
                break
            ins = extra[nd % len(extra)]
            doc2 = xml.replace('</doc>', ' ' + ins + '</doc>', 1)
            pz = os.path.join(tmp, 'docx.gir')
            open(pz, 'w', encoding='utf-8').write(doc2)
            ck.count_case(dict(document=what, inserted=ins), nontrivial=True, kind='text-of-every-plane')
            try:
                back = passthrough(pz)
            except BaseException as e:      # noqa
                ck.failing_input('the GIR reader or writer raises %s on documentation text with %r' % (type(e).__name__, ins),
                                 dict(document=what, inserted=ins, gir=doc2[:60000]), detail=repr(e))
                continue
            # the longer text may make the writer lay the element's attributes out on several lines: compared are the texts of
            # all elements as an XML reader gives them, and the written file must then cycle to itself
            def texts(x):
                return [(e.tag, e.text) for e in ET.fromstring(x.encode('utf-8')).iter() if e.text and e.text.strip()]
            try:
                t1, t2 = texts(doc2), texts(back)
            except ET.ParseError as e:
                ck.failing_input('a GIR written back after reading is not well-formed XML', dict(document=what, inserted=ins), detail=repr(e))
                continue
            if t1 != t2:
                diff = next(((a, b) for a, b in zip(t1, t2) if a != b), (t1[len(t2):][:1], t2[len(t1):][:1]))
                ck.failing_input('reading a GIR and writing it back changes documentation text',
                                 dict(document=what, inserted_into_first_doc_element=ins, gir=doc2[:60000]), detail=dict(first_difference=diff))
                continue
            open(pz, 'w', encoding='utf-8').write(back)
            try:
                back2 = passthrough(pz)
            except BaseException as e:      # noqa
                ck.failing_input('the GIR reader or writer raises %s on documentation text with %r' % (type(e).__name__, ins),
                                 dict(document=what, inserted=ins, gir=back[:60000]), detail=repr(e))
                continue
            if back2 != back:
                ck.failing_input('reading a GIR and writing it back does not give identical XML (itself produced by a write)',
                                 dict(document=what, inserted=ins, gir=back[:60000]), detail=first_diff(back, back2))
        # files read one after the other by ONE reader object (GIRParser.parse is public and may be called again): each must be
        # written back as a fresh reader writes it - nothing of an earlier file may stay behind in the reader
        from giscanner.girparser import GIRParser
        from giscanner.girwriter import GIRWriter
        seq = [d for d in stable_docs if len(d[1]) < 400000]
        rng.shuffle(seq)
        seq = seq[:12 if tier == 'quick' else 60]
        reader = GIRParser()
        prev = None
        for k, (what, xml) in enumerate(seq):
            pk = os.path.join(tmp, 'seq%d.gir' % k)
            open(pk, 'w', encoding='utf-8').write(xml)
            ck.count_case(dict(sequence=[w for w, _ in seq[:k + 1]]), nontrivial=True, kind='one-reader-sequence')
            try:
                reader.parse(pk)
                again = GIRWriter(reader.get_namespace()).get_encoded_xml().decode('utf-8')
            except BaseException as e:      # noqa
                ck.failing_input('the GIR reader or writer raises %s on the %d. file read by one reader' % (type(e).__name__, k + 1),
                                 dict(read_before=[w for w, _ in seq[:k]], document=what), detail=repr(e))
                break
            if again != xml:
                ck.failing_input('a GIR read by a reader that has read other files before is not written back unchanged',
                                 dict(read_before=[w for w, _ in seq[:k]], document=what, gir=xml[:60000]), detail=first_diff(xml, again))
                break
            # ... and what was read earlier does not change when the reader goes on to another file
            if prev is not None:
                pwhat, pxml, pns = prev
                try:
                    pagain = GIRWriter(pns).get_encoded_xml().decode('utf-8')
                except BaseException as e:      # noqa
                    ck.failing_input('the GIR writer raises %s on a namespace read before the reader read another file' % type(e).__name__,
                                     dict(document=pwhat, read_afterwards=what), detail=repr(e))
                    break
                if pagain != pxml:
                    ck.failing_input('a namespace read from a GIR changes when the same reader reads another file afterwards',
                                     dict(document=pwhat, read_afterwards=what, gir=pxml[:60000]), detail=first_diff(pxml, pagain))
                    break
            prev = (what, xml, reader.get_namespace())
        # the hand-written GIR files of gir/: their layout is not the writer's, so the first write normalises it; what the
        # namespace element says must survive, and the file the writer produced must then cycle to itself
        for f in sorted(glob.glob(os.path.join(REPO, 'gir', '*.gir'))):
            what = 'shipped gir/' + os.path.basename(f)
            src = open(f, encoding='utf-8').read()
            ck.count_case(dict(document=what, bytes=len(src)), nontrivial=True, kind='shipped-gir')
            try:
                w1 = passthrough(f)
                p1 = os.path.join(tmp, 'w1.gir')
                open(p1, 'w', encoding='utf-8').write(w1)
                w2 = passthrough(p1)
            except BaseException as e:      # noqa
                ck.failing_input('the GIR reader or writer raises %s on %s' % (type(e).__name__, what), dict(document=what), detail=repr(e))
                continue
            a, b_ = ET.fromstring(src).find(S.CORE + 'namespace'), ET.fromstring(w1).find(S.CORE + 'namespace')
            for attr in ('name', 'version', 'shared-library', S.CNS + 'identifier-prefixes', S.CNS + 'symbol-prefixes'):
                if a.get(attr) is not None and a.get(attr) != (b_.get(attr) or ''):      # (DBus*-1.0.gir use the old c:prefix and state none)
                    ck.failing_input('reading a shipped GIR and writing it back changes the %s of the namespace'
                                     % attr.replace(S.CNS, 'c:'), dict(document=what, namespace_element={k.replace(S.CNS, 'c:'): v for k, v in a.attrib.items()}),
                                     detail=dict(read_back=b_.get(attr)))
            ka = sorted((e.tag, e.get('name') or e.get(S.GLIB + 'name') or '') for e in a)
            kb = sorted((e.tag, e.get('name') or e.get(S.GLIB + 'name') or '') for e in b_)
            if ka != kb:
                ck.failing_input('reading a shipped GIR and writing it back loses or adds definitions', dict(document=what),
                                 detail=dict(lost=[x for x in ka if x not in kb][:5], added=[x for x in kb if x not in ka][:5]))
            if w2 != w1:
                ck.failing_input('reading a GIR and writing it back does not give identical XML (itself produced by a write)',
                                 dict(document=what), detail=first_diff(w1, w2))
    finally:
        shutil.rmtree(tmp, ignore_errors=True)
    import c07t
    c07t.type_codec(ck, tier, seed)
    return ck.finish(rule='GIR documents written by the real scanner for the generators of annotated callables, runtime-dump worlds, '
                          'structure/virtual-method worlds, declaration worlds, a structure-member generator (anonymous unions and '
                          'structures, function-pointer members, arrays whose length is another member) and an escaping generator '
                          '(attribute values and documentation with both quote kinds, &, <, >, ]]>, non-ASCII), plus the %d shipped '
                          'tests/scanner/*-expected.gir files; each is read by GIRParser and written by GIRWriter three times in a row and '
                          'must stay byte-identical' % len(glob.glob(os.path.join(REPO, 'tests', 'scanner', '*-expected.gir'))))


if __name__ == '__main__':
    sys.exit(main(os.environ.get('VERIF_TIER', 'quick'), int(os.environ.get('VERIF_SEED', '1'))))
