"""Writes /verif/MANIFEST.json from the table below (kept in one place so that the
manifest is always valid)."""
import json, os
ROOT = os.path.dirname(os.path.dirname(os.path.abspath(__file__)))

CLAIMED = {
 'C19': dict(
   technique='Coq proof over a regex model regenerated from shlibs.py + in-Coq correspondence with CPython',
   text='Theorems (Coq, axiom-free): the ldd pattern, regenerated from giscanner/shlibs.py on every run, matches a '
        'word iff it is [dir/]lib<name><non-name-char><no slash...> (C19_pattern_spec, C19_pattern_basename, for all '
        'names and words); the resolve loop, for any matcher, returns exactly the first listed match of every request '
        'in listing order or fails naming exactly the unmatched requests (C19_resolve_first, under the property\'s '
        'disjointness hypothesis); header lines contribute nothing; reported names contain no slash; a dlname is a '
        'substring of the .la file. Tie: translator (regex) + correspondence of resolve_from_ldd_output, '
        '_ldd_library_pattern, sanitize_shlib_path, _extract_dlname_field with the model evaluated by vm_compute on '
        'the same generated inputs, and an executable restatement of the property judged on the implementation\'s '
        'own outputs.',
   note='Trusted: Coq kernel+VM; translate/regex2coq.py and CPython re._parser; re.escape modelled as literal match; '
        'str.split/splitlines tables generated from the running CPython; only the non-Darwin/non-Windows path; '
        'subprocess/ldd invocation itself not modelled.',
   ref='DESIGN.md §4 C19'),
 'C20': dict(
   technique='Coq proof over a byte-exact model of xmlwriter.py and over an XML reader for whole documents written from XML 1.0 (parse(write(program)) = the document the program describes, for every program) + in-Coq correspondence of writer model and reader model with XMLWriter and expat',
   text='Theorems (Coq, axiom-free) over a byte-exact model of xmlwriter.py and saxutils.escape/quoteattr: escaping is '
        'inverted by reference decoding and leaves no < or > (all strings); quoteattr yields a quoted body without its '
        'own quote, without <, newline, CR, tab, which decodes to the value; for every tag, indentation and line '
        'length the emitted attribute text scans back to exactly the valued attributes (wrapping never changes '
        'content, valueless attributes omitted); for every nesting of tagcontext blocks and every abort point the '
        'output is the rendering of a well-bracketed event list (every opened element closed in order). WHOLE DOCUMENTS '
        '(Model/C20D.v: a one-pass XML reader with an element stack, written from XML 1.0 and stricter than a full '
        'processor): for EVERY program of leaf elements, comments and tagcontext blocks of any depth - names being names, '
        'comment text free of "-->", attribute values and element text arbitrary strings - the reader accepts the bytes the '
        'writer returns and reports exactly the elements in order and nesting, exactly the attributes that have a value with '
        'their exact values, exactly the text, and the writer\'s own line breaks and indentation as character data at the stated '
        'places (C20_document_roundtrip); with blank-only text dropped that is the document the program describes, nothing '
        'added and nothing lost (C20_document_meaning; C20_comment_padding discharges the comment hypothesis from "no -->"), and two '
        'programs that give the same bytes describe the same document (C20_lossless); '
        'a program that raises leaves the document of the program cut at the first raise, still accepted, every entered block '
        'closed (C20_document_roundtrip_abort). Tie: Model.C20.run_program = XMLWriter byte for byte on generated programs '
        '(valid, aborting, malformed push/pop); Model.C20D.xml_parse and expat read every document of the run alike (elements, '
        'attributes in order, text, comments); expat read-back against the intended document; write_line text and '
        'disable_whitespace by expat only.',
   note='Trusted: Coq kernel+VM; saxutils modelled from CPython source (compared through the writer); the reader of '
        'Model/C20D.v as the statement of what the bytes mean (stricter than XML 1.0: no DOCTYPE, CDATA, blanks in end tags; '
        'compared with expat on every document of the run); names are names (no blank, quote, =, <, >, /; element names not '
        'beginning with ! or ?) and text is XML 1.0 Char by hypothesis; one root element is the caller\'s business; '
        'write_line text statements and disable_whitespace mode are outside the document theorems.',
   ref='DESIGN.md §4 C20'),
 'C13': dict(
   technique='Coq proof over a model of _enum_common_prefix/_create_enum/_create_const with the wrap table regenerated from source + in-Coq correspondence through the real Transformer/GIRWriter',
   text='Theorems (Coq, axiom-free): for every enumeration whose members have non-empty words and none is a '
        'word-prefix of another, the prefix cut is exactly the shared whole words + "_" (none when no word is shared), '
        'each emitted name is the lower-cased rest of the words, or the namespace-stripped identifier when nothing is '
        'shared (C13_prefix_whole_words, C13_names_shared, C13_rest_of_words, C13_names_unshared); for every input the '
        'public members appear in declaration order with exact values and identifiers (C13_order_and_values); constants '
        'of guint8/16/32/64, guint, gushort and gunichar lie in [0,2^w) and are congruent to the declared value, others are as written, for all '
        'integers, with the modulus table regenerated from _create_const on every run (C13_const_*). Tie: translator '
        '(wrap table) + correspondence of member lists and constant values through Transformer.parse and GIRWriter; '
        'the executable property is judged on the real outputs. Two defects found and fixed (see known-findings.json).',
   note='Trusted: Coq kernel+VM; translate/gen_c13.py (Python-ast walk of _create_const); the stub lexer (const_int, '
        'is_bitfield, private are inputs); ASCII identifiers; single namespace without includes for the namespace-prefix '
        'case. Known finding C13-K1: gulong, gsize and guintptr (platform-dependent width) are emitted as written, also when negative.',
   ref='DESIGN.md §4 C13'),
 'C08': dict(
   technique='Coq proof that the giroffsets.c layout algorithm (GI_ALIGN translated from source) is the least-offset C ABI + 3-way correspondence model / real g-ir-compiler / gcc',
   text='Theorems (Coq, axiom-free) over a model of giroffsets.c whose GI_ALIGN is translated from the macro text and '
        'whose platform sizes come from a probe compiled against the current sources: for any number of members of '
        'known size with power-of-two alignments the computed offsets are admissible, pointwise least, non-overlapping, '
        'the alignment is the largest member alignment and the size the least covering multiple (C08_struct_is_abi, '
        'C08_no_overlap, C08_union_is_abi, C08_nested_struct); a member of unknown size makes the structure unknown and '
        'marks it and all later fields unknown (C08_unknown_propagates); the enumeration storage chosen represents every '
        'value in the 64-bit range (C08_enum_width_fits). Tie: every generated declaration is compiled by the real '
        'g-ir-compiler built from /repo, read back through the repository API and compared with the model (in Coq) '
        'and with gcc on the same declaration. That the model\'s rule is gcc\'s rule for enumerations is tested, not '
        'proved. Two defects found and fixed.',
   note='Trusted: Coq kernel+VM; translate/cexpr.py; cshim (miniglib headers, GLib 2.74 runtime); libffi; gcc as the '
        'ABI oracle; only acyclic declarations; unknown-size members cannot be produced through g-ir-compiler (its '
        'warning is fatal), so that clause is tied by reading only; callbacks in unions excluded (known finding C15-K1); declarations of 2**31 bytes and more are judged against gcc only (known finding C08-K1: wrapped size).',
   ref='DESIGN.md §4 C08'),
 'C17': dict(
   technique='Coq proof (invariant by induction over fuel and over operation histories) over a model of girepository.c require/election + correspondence against the real repository code on generated directory trees and histories',
   text='Theorems (Coq, axiom-free): an explicit version loads the file of the first search-path directory that has it, '
        'refused on a namespace or version mismatch, not-found otherwise (C17_first_directory, C17_exact); without a '
        'version the elected candidate has no numerically higher (major, minor) competitor nor an equal one from an '
        'earlier directory (C17_latest, C17_version_order, 1.10 > 1.9); prepended directories come first; a loaded '
        'namespace is returned for the same version and a version conflict changes nothing (C17_already_loaded); for '
        'every history of prepend/require/private-require calls over an acyclic set of files, every loaded namespace '
        'comes from a file naming it and every recorded dependency is loaded at the recorded version, states only grow '
        '(C17_invariant, C17_require_result). Tie: a C driver that #includes girepository.c of the working tree '
        'executes generated histories in fresh processes on generated directory trees of typelibs compiled by the real '
        'compiler (mislabelled and garbage files, missing directories, odd version spellings) and the model is evaluated '
        'on the same histories in Coq (results, error codes, final reports); parse_version is driven directly. '
        'load-from-memory is modelled as coded (re-registers on a version clash) and outside the invariant theorem. '
        'One defect found and fixed.',
   note='Trusted: Coq kernel+VM; cshim; the harness reads each file\'s header namespace/version/dependencies with the '
        'repository\'s own accessors; readdir order = os.listdir order; g_slist_sort stable; strtol per ISO C; lazy '
        'loading and cyclic dependency sets not modelled.',
   ref='DESIGN.md §4 C17'),
 'C14': dict(
   technique='Coq proof of the lookup logic for an arbitrary hash (soundness) and under a checked perfect-hash hypothesis (completeness), size arithmetic regenerated from source + correspondence through the real compiler and repository API',
   text='Theorems (Coq, axiom-free): whatever the hash function and table contain, an entry returned through the index or '
        'the linear path has exactly the probed name and an absent name yields none (C14_lookup_sound, C14_linear_sound, '
        'C14_absent); if the packed hash is injective on the names and below n, every entry is found through the table '
        'the builder writes and both paths agree on every probe (C14_complete, C14_paths_agree); GType-name and '
        'error-domain scans return the first matching entry or none; the two-pass repository search finds a type iff '
        'some typelib registers it (C14_find_by_gtype); the reserved section is at least the packed size for every entry '
        'count, with ALIGN_VALUE and the width of required_size regenerated from the sources (C14_pack_arith). '
        'CMPH\'s minimal-perfect-hash construction is NOT proved: it is the hypothesis of the completeness theorems and '
        'is checked on every generated key set. Tie: gthash.c builder/search driven directly; namespaces of 1..33000 '
        '(thorough 65535) entries compiled by the real compiler and queried through find_by_name/gtype/error_domain '
        'with and without the index section. One defect found and fixed.',
   note='Trusted: Coq kernel+VM; cexpr translator; cshim; CMPH as a tested oracle; strcmp/strlen per ISO C.',
   ref='DESIGN.md §4 C14'),
 'C18': dict(
   technique='Coq proof of an invariant over all schedules of a small-step process/file-system model + replay of schedules on the real CacheStore under a baton scheduler',
   text='Theorems (Coq, axiom-free): for every schedule — any number of processes, any interleaving of their system '
        'calls, kills at any point, any history of source modifications, unlinks and unreadable entries — an operation '
        'that finishes returns the parse of a version that was current at some moment during it (C18_safe); every '
        'readable file ever published under the entry name is a complete parse stamped no later than the version it '
        'holds, so an entry older than its source is never accepted and a half-written temporary is never visible '
        '(C18_published, C18_validated_entry). The code as found is refuted by two schedules (C18_stale_refuted_a/b), '
        'both reproduced on the real CacheStore, then fixed. Tie: the real CacheStore and Transformer._parse_include run '
        'in threads with every shared system call as a yield point; event lists (Spawn/Step/Modify/Kill/Unlink/Garbage) '
        'are replayed on the implementation and on the model evaluated in Coq and the per-process results compared. '
        '"Using the cache never changes the GIR" is checked under C16 (cold/warm).',
   note='Trusted: Coq kernel+VM; rename atomicity within one file system (shutil.move across devices not modelled); '
        'strictly increasing mtimes (logical clock); pickle prefix never loads; one entry; the harness scheduler and '
        'its monkeypatched os/pickle/shutil proxies; threads stand for processes.',
   ref='DESIGN.md §4 C18'),
 'C09': dict(
   technique='Coq proof (linear arithmetic for all counts) over accessor expressions regenerated from gi*info.c, over the type accessors of gitypeinfo.c against the regenerated blob layout and over the array blob model of C06K + correspondence: full API walk and g-ir-generate output against the compiled GIR, typelibs swept across the 64 KiB boundary',
   text='Theorems (Coq, axiom-free): the 23 closed-form offset expressions of giobjectinfo.c, giinterfaceinfo.c, '
        'gistructinfo.c, giunioninfo.c, gienuminfo.c are translated from the C source on every run; for ALL counts of '
        'interfaces/prerequisites (odd or even), fields, embedded callbacks, properties, methods, signals, vfuncs, '
        'constants, values and every index, each accessor computes exactly the position at which the builder '
        '(girnode.c, hand model with its ALIGN_VALUE translated) placed that member (C09_object_sections, '
        'C09_interface_sections, C09_struct_enum_sections, C09_field_walk); for unions only when no field embeds a '
        'callback (C09_union_sections; the accessor has no walk). the offset g_type_info_get_param_type computes (expression recognised in gitypeinfo.c on every run) is the position of ArrayTypeBlob.type and of ParamTypeBlob.type[n] in the layout regenerated from gitypelib-internal.h, for every n (C09_param_type_offset); every accessor of a type tells a type blob from a basic type stored in place by one test (recognised in all ten places of gitypeinfo.c and gibaseinfo.c, fail-closed): with the flag positions of the regenerated layout every offset below 2^24 is recognised as an offset, so in a typelib smaller than 16 MiB no type blob is ever taken for a basic type, and 2^24 is the first offset that would be (C09_complex_types_recognised, C09_inline_misread_at_16MiB); through the blob the compiler writes (Model/C06K.blob_carray) and the two dimension accessors recognised in gitypeinfo.c, the API reports the length index the GIR gives and the fixed size the GIR gives except for an array that also has a length - never anything else (C09_array_dimensions, with the 16-bit wrap of the dimension spelled out, and C09_array_dimensions_exact below 65536: the exact extent of known findings C09-K1 and C09-K2; before fix b101e79 the length index came back as the fixed size: C09_array_dimensions_refuted_before_fix). Tie: generated namespaces over all container kinds are '
        'compiled by the real compiler, walked through the whole public API by a C driver (every count, i-th accessor, '
        'flag, type, attribute by iteration and by name) and compared line by line with the description derived from the '
        'GIR; g-ir-generate output is parsed and compared with the same API (names, order of parameters, flags). '
        'Separating accessor faults from compiler faults by an independent decoder is C06\'s part. Three API-side '
        'defects and four compiler-side defects found and fixed.',
   note='Trusted: Coq kernel+VM; cexpr translator and the textual recognition of the field-walk loops; hand model of '
        'the builder layout; cshim; harness/girgen.py expectation (semantics of GIR attributes as implemented by '
        'girparser.c, reviewed case by case); types in g-ir-generate output not compared.',
   ref='DESIGN.md §4 C09'),
 'C06': dict(
   technique='Coq proof of the blob codec over a layout regenerated from gitypelib-internal.h and of the soundness of the key under which serialize_type shares the blobs of C arrays (model tied to the real function by a C driver) + translation validation of whole typelibs with an independent decoder written in Coq',
   text='Theorems (Coq, axiom-free): reading a member after writing it gives the value and no other member changes; '
        'for ANY list of non-overlapping members and values fitting their widths, decoding the encoded blob returns every '
        'value (C06_blob_roundtrip: every blob kind at once; the format\'s 16-bit limits are the width hypotheses); the '
        'layout regenerated on every run from gitypelib-internal.h by a compiled prober has all members inside their '
        'struct, pairwise non-overlapping, and all blob sizes multiples of four (C06_layout_wellformed); blobs laid from an '
        'aligned start stay aligned (C06_offsets_aligned). THE SHARING KEY of C arrays (Model/C06K.v: girnode.c serialize_type, tied to the real function through a driver that includes girnode.c): two arrays with the same key have element types with the same key and the same ArrayTypeBlob fields - pointer, zero_terminated, has_length, has_size, the one dimension - for every element key, index and size (C06_array_key_sound, for the blob as repaired in b101e79; C06_array_key_refuted_before_fix is the witness of the defect: an array with a length and a fixed size shares the key of the array with the length alone and claimed a size); key_carray is compared inside Coq with the real serialize_type on 400 (thorough 6000) arrays, blob_carray with what the API reports for every C-array parameter of the generated namespaces. PARTIAL: the whole-file statement decode(compile g) = api_of g '
        'is not proved (string pool, type de-duplication, directory construction of girnode.c/girmodule.c are not '
        'modelled as an encoder); it is established per run by translation validation: generated GIR documents are '
        'compiled by the real g-ir-compiler (accepted silently, deterministic bytes), decoded from the bytes by the '
        'independent Coq decoder Model/C06.v (evaluated by vm_compute; header sizes/offsets/alignment checked), and the '
        'decoded description is compared line by line with the repository API\'s and with the one derived from the GIR. '
        'Four compiler defects found and fixed.',
   note='Trusted: Coq kernel+VM; the layout prober (gcc, cshim); harness/girgen.py as the statement of what a GIR means; '
        'one namespace without includes; record sizes/offsets compared only decoder vs API (C08 decides them).',
   ref='DESIGN.md §4 C06'),
 'C02': dict(
   technique='Coq proof over a model of the scanner\'s default rules with the C-spelling table regenerated from ast.py + in-Coq correspondence through the real pipeline',
   text='Theorems (Coq, axiom-free): every documented C spelling maps to the documented fundamental on the table '
        'regenerated from giscanner/ast.py (C02_type_table, 42 spellings; returned char**/GStrv become arrays of utf8); the '
        'emitted c:type is the spelling of the declarator tree for every tree (C02_ctype_preserved); in-parameters never '
        'transfer, out/inout transfer fully unless caller-allocated, returned basic/const/gpointer/void values are not '
        'transferred, non-const strings are, untyped pointers are nullable (C02_transfer_defaults, C02_return_defaults, '
        'C02_untyped_pointer_nullable); for EVERY parameter list a destroy-notify attaches to the callback in force, a '
        'user-data pointer becomes its closure and the callback precedes both (C02_callback_triple, '
        'C02_callback_precedes, induction over the list); a trailing GError** is removed, the callable throws and no other '
        'parameter is touched (C02_throws). Tie: un-annotated functions over 16 basic spellings, 50 typedef names, pointers '
        'to 23 bases and all kinds of callback/user-data/destroy/GError arrangements go through the real Transformer, '
        'MainTransformer, IntrospectablePass and GIRWriter; type element, name, c:type, element type, transfer, nullable, '
        'scope, closure and destroy indices and throws of every parameter and return value are compared with the model '
        'inside Coq.',
   note='Trusted: Coq kernel+VM; gen_c02.py (dumps ast.type_names of the imported module); stub lexer (SourceSymbol trees '
        'are inputs); declared identifiers and their classes are model inputs; stub include GIRs for GLib/GObject/Gio; '
        'fields and constants use the same mapping but are not compared here; constructor return defaults are C04\'s.',
   ref='DESIGN.md §4 C02'),
 'C01': dict(
   technique='Coq proof over a model of annotation application per callable (annotation pass, pass 3 heuristics, writer emission) + in-Coq correspondence through the real comment parser, transformer passes and GIR writer',
   text='Theorems (Coq, axiom-free, for every value and every annotation set): a valid (transfer) is stored with the documented '
        'value, floating meaning none, an invalid one is reported and changes nothing, validity being the documented rule '
        '(C01_transfer); direction and caller-allocation are stored as written and reset the transfer default (C01_direction); '
        'valid nullable/optional are set silently, invalid nullable/optional/allow-none are reported and every flag equals what '
        'it would be without the annotation (C01_nullable, C01_optional, C01_allow_none_invalid); (not nullable) and (not '
        'optional) each override their own attribute and nothing else (C01_not_overrides; refuted before fix da7007c by '
        'C01_not_optional_refuted_before_fix); skip and free-form attributes are kept (C01_skip_and_attributes); array options '
        'are stored and emitted as documented (C01_array, C01_array_emission); the length parameter takes the direction of its '
        'array and transfer full when out, in every state of the callable (C01_length_follows); emitted closure/destroy/length '
        'indices are in range and name the annotated parameter (C01_indices_in_range); scope/closure/destroy on non-callbacks are '
        'reported and inert, on callbacks stored as written (C01_callback_annotations). The end-to-end statement for '
        'scope/closure is FALSE of the faithful model: C01_explicit_closure_overridden_refuted, '
        'C01_explicit_scope_overridden_refuted, C01_invalid_closure_kept_refuted are the witnesses of known findings '
        'C01-K1..K4. Tie: generated functions and callback types (43 C types x mostly-valid and ill-fitting annotation sets) go '
        'through GtkDocCommentBlockParser, Transformer, MainTransformer, IntrospectablePass and GIRWriter; 17 attributes of '
        'every parameter/return value, throws and the located warning classes are compared with Model.C01 inside Coq; crisp '
        'clauses of the property are also judged directly on the output.',
   note='Trusted: Coq kernel+VM; stub lexer (SourceSymbol trees are inputs); declared identifiers and their classes are model '
        'inputs; stub include GIRs. Methods, virtual methods and the callbacks of class-structure fields are generated for (array length=) only (judged directly: the index names the annotated parameter in every element). Not generated: signals, other annotations on methods, nested type '
        'strings, unknown names in length/closure/destroy (a fatal scanner error). Known findings (not repaired, printed as '
        'KNOWN-FINDING): pass-3 callback heuristics overwrite explicit closure/scope/destroy; invalid closure kept.',
   ref='DESIGN.md §4 C01'),
 'C16': dict(
   technique='Coq proof of permutation invariance over a model of the scanner\'s ordering points (sorted emission, main position, comment-block dict, tag namespace) + differential runs of the real pipeline in fresh processes',
   text='Theorems (Coq, axiom-free): for every permutation of the members of a namespace or class with distinct (kind, name) the written '
        'sequence is identical (C16_members_perm_invariant, generic insertion-sort lemma: two strictly sorted permutations are equal); '
        'the sibling order is sorted by (alias first, name by code point) and a permutation of the input (C16_sibling_order, '
        'C16_aliases_first); the main source position is independent of the iteration order of the position set and prefers a '
        'definition to a typedef (C16_main_position_perm, C16_main_position_prefers_definition; refuted for the code as found by '
        'C16_main_position_refuted_before_fix, fix 3ae31bf); the lookup of comment blocks with distinct identifiers is independent of '
        'their order (C16_blocks_perm_invariant); typedef-then-struct, struct-then-typedef and a forward declaration before or after '
        'give the same record (C16_typedef_struct_order, C16_forward_declaration_order). Tie: generated worlds are scanned by the '
        'real Transformer/GDumpParser/MainTransformer/IntrospectablePass/GIRWriter in fresh processes under several PYTHONHASHSEED '
        'values, permuted comment blocks, reordered typedef/struct/forward declarations and cold/warm dependency cache; all outputs '
        'must be byte-identical, and the sibling sequences of the real output are checked against the model order inside Coq.',
   note='Trusted: Coq kernel+VM; stub lexer (SourceSymbol trees are inputs); interpreter-level determinism is tested, not proved; the '
        'order of unrelated declarations is the order of the C source and is not varied.',
   ref='DESIGN.md §4 C16'),
 'C12': dict(
   technique='Coq proof over a model of the runtime-dump merge (flag bits, nearest known parent, symbol prefix, signal parameters, type-structure links, virtual methods, get-type removal) + in-Coq correspondence through the real GDumpParser and passes',
   text='Theorems (Coq, axiom-free): the four property booleans are exactly the four low bits of any flags word (C12_property_flags); '
        'the parent is the first ancestor of the reported chain that is known, all earlier ones being unknown (C12_nearest_known_parent, '
        'induction over the chain); classes keep the reported type name, get-type function, abstract/final and the number of '
        'properties, signals and interfaces (C12_class_facts); the symbol prefix is the get-type function without namespace prefix and '
        '_get_type/_get_gtype suffix for every prefix (C12_symbol_prefix); every reported property keeps its flags, type and default, '
        'every signal its flags, return and parameter types with parameters named object, p0, p1, ... (C12_properties_complete, '
        'C12_signals_complete, C12_signal_param_names); class/interface structures and their types point at each other '
        '(C12_type_struct_link, C12_type_struct_names); exactly the function-pointer members whose first parameter is the instance '
        'become virtual methods (C12_virtual_methods); get-type functions and nothing else leave the function list '
        '(C12_get_type_functions_removed); an error-quark function gives its domain to the enumeration whose get-type symbol prefix, '
        'underscored name or name it carries, the registered prefix deciding first, a later quark function of the same enumeration '
        'overwriting an earlier one, an enumeration without quark function keeping none, and exactly the quark functions without '
        'enumeration being reported - for every list of enumerations and quark functions (C12_error_domain_given, '
        'C12_error_domain_kept, C12_unmatched_quarks_reported, C12_registered_prefix_first; Model/C12Q.v). Tie: generated worlds (classes with instance/class structures, interfaces, boxed types, '
        'hidden ancestors, properties over all flag bytes, signals) and their dump XML go through the real GDumpParser, '
        'MainTransformer, IntrospectablePass and GIRWriter; every class, interface, structure and the function list are compared with '
        'Model.C12 inside Coq, and flag bits, parent choice, property and signal types are also judged directly; worlds of registered and '
        'unregistered enumerations, flags and error-quark functions are compared with Model.C12Q inside Coq (domains, number of '
        'unmatched quarks) and judged directly.',
   note='Trusted: Coq kernel+VM; gen_c02.py (type table); stub lexer; the dump is given as XML (girepository/gdump.c and the '
        'introspection binary are not exercised: stated partial). Not generated: enumerations/flags of the dump, error quarks, '
        'pointer and fundamental types, unknown interface names (two unresolved interface types make the writer\'s sort raise).',
   ref='DESIGN.md §4 C12'),
 'C15': dict(
   technique='Coq proof of the writer/reader vocabulary contract on lists regenerated from girwriter.py and girparser.c, and of the attribute round trips (C01 writer model and C07 type writer model composed with models of the reader of the compiler) + translation validation through the real scanner, g-ir-compiler, g_typelib_validate and repository API',
   text='Theorems (Coq, axiom-free): every element name the GIR writer can emit (extracted from the syntax tree of giscanner/girwriter.py, '
        'fail-closed) is among the names girepository/girparser.c tests element_name against or starts with "c:" '
        '(C15_vocabulary_contract, finite); for EVERY parameter slot of the C01 model, what the writer emits is read back by the '
        'compiler\'s reader as the same direction, caller-allocation, nullable, optional, skip and transfer '
        '(C15_parameter_flags_roundtrip), scope, closure and destroy likewise (C15_callback_links_roundtrip), and nullability, skip and '
        'transfer of every return value (C15_return_flags_roundtrip); the reader as found is refuted '
        '(C15_inout_nullable_refuted_before_fix, fix e1eedbc). ARRAYS: what the writer model of C07 (Model/C07T.write_ty, tied to '
        'GIRWriter._write_type) says about an array is what a model of the compiler\'s reader (Model/C15T.c_read_array: girparser.c '
        'start_type, array branch, with atoi) takes from it - the kind, and for C arrays zero-termination, length index and fixed size, for '
        'every combination and magnitude (C15_array_attributes_roundtrip); the reader model is compared inside Coq with what the typelibs of '
        'the run say about every array of every scanner-written GIR. Tie: GIRs '
        'written by the real scanner passes for six generators (annotated callables, runtime-dump worlds, structure/virtual-method '
        'worlds, declaration worlds, constants cast to every kind of type with unions, structures with anonymous, nested and '
        'function-pointer members) and the 12 shipped tests/scanner/*-expected.gir files (output of the real C lexer; includes '
        'satisfied by stub GIRs, gir/cairo-1.0.gir.in and each other) are '
        'compiled by the real g-ir-compiler (must be silent), validated by g_typelib_validate and walked through the repository API; '
        'top-level names, callable paths, parameter lists and every parameter/return flag are compared (flags inside Coq against '
        'Model.C15).',
   note='PARTIAL: the whole-pipeline statement (every scanner output is accepted and faithfully exposed) is validated per run, not '
        'proved; proved are the vocabulary contract and the parameter attribute round trip. Trusted: Coq kernel+VM; gen_c15.py '
        '(Python-ast walk of girwriter.py, regex over girparser.c); stub lexer and stub include GIRs; docs/gir-1.2.rnc is not consulted. '
        'Known finding C15-K1 (union with a function-pointer member aborts the compiler) is printed as KNOWN-FINDING. Fixed in /repo on the '
        'way: 4dd319e, e1eedbc, 7e3498a, d85154f (gunichar constants), 1652d1c (pointer/unknown-typed constants), 4dd2de6 (record in '
        'record). Type structure is C06\'s subject.',
   ref='DESIGN.md §4 C15'),
 'C03': dict(
   technique='Coq proof over a model of identifier-level annotation application (block keys, tags, target annotations, rename-to as a state machine) + in-Coq correspondence through the real comment parser, MainTransformer and GIRWriter',
   text='Theorems (Coq, axiom-free): a block whose key differs from an element\'s key changes nothing about that element wherever it '
        'stands in the block list, the element\'s own block is the one applied and without one it carries no identifier-level data '
        '(C03_other_block_is_inert, C03_own_block); Class:prop / Class::sig / Struct.field keys determine owner and member and a '
        'property key is never a signal key (C03_keys_injective, C03_property_never_signal); Since/Deprecated/Stability/skip/description '
        'become version, deprecation, stability, introspectable and doc (C03_tags); each target annotation appears as the corresponding '
        'GIR attribute on the kinds of element it belongs to and on no other (C03_target_annotations); after ANY sequence of rename-to '
        'requests every shadows has its shadowed-by and vice versa, in the data and in what the writer shows (C03_rename_to_pairs, '
        'invariant by induction over the requests; refuted for the check as found by C03_rename_to_refuted_before_fix, fix faa1326); a '
        'virtual method with a block of its own is documented by it, without one it carries exactly what its invoker\'s block says, '
        'without invoker nothing (C03_virtual_method_blocks). '
        'Tie: generated worlds (functions, records with fields, enumeration, constants, a class with properties, signals and a class '
        'structure with three virtual methods whose invokers are found by name, named by (virtual SLOT), or absent) with '
        'comment blocks in shuffled order go through GtkDocCommentBlockParser, Transformer, GDumpParser, MainTransformer, '
        'IntrospectablePass and GIRWriter; doc, version, deprecation, stability, introspectable, attributes, kind-specific attributes '
        'of every element, of every virtual method (vfunc_meta) and the shadows pairs are compared with Model.C03 inside Coq; crisp '
        'clauses (tags and their texts, description, attributes, inheritance of virtual methods) are also judged directly.',
   note='Trusted: Coq kernel+VM; stub lexer; dump given as XML. Not generated: (method)/(constructor) role selection (C04), '
        'a virtual method that has a block of its own AND an invoker with a block (the implementation merges the two; the property is '
        'silent), moved-to copies.',
   ref='DESIGN.md §4 C03'),
 'C04': dict(
   technique='Coq proof over a model of symbol naming and pairing (underscore names, longest type prefix, constructor/method/static decisions) + in-Coq correspondence through the real Transformer, GDumpParser, MainTransformer and GIRWriter',
   text='Theorems (Coq, axiom-free): the type found for a symbol is the longest prefix in whole underscore-separated words that names a '
        'type, and prefix + "_" + rest reassembles the symbol (C04_longest_type_prefix, C04_split_join_roundtrip, induction over the '
        'components); underscore names never contain upper case and the documented examples hold (C04_underscore_names); a function '
        'becomes a method only of the type that is its first parameter (by value or single pointer), which can have methods and '
        'whose prefix plus "_" starts the symbol, named by the rest (C04_method_conditions); a constructor only of the longest-prefix '
        'type, which can be constructed, and only when it returns that type or one of its ancestors (C04_constructor_conditions; the '
        'code as found accepted any class, fix f29afa9); every function is described exactly once plus at most one moved-to copy '
        '(C04_described_once); get-type functions are never paired (C04_get_type_not_paired). Tie: generated namespaces over a pool of '
        '12 types and adversarial symbols go through the real pipeline; container, element kind, name and moved-to of every C '
        'identifier are compared with Model.C04 inside Coq; underscore/foreign symbols must be absent; crisp clauses judged directly.',
   note='Trusted: Coq kernel+VM; stub lexer; dump as XML; whether a function is introspectable is an observed input of the '
        'comparison (non-introspectable compatibility copies are dropped by the introspectable pass). Not generated: '
        '(constructor) annotations other than on functions that return a class of an included namespace, aliases, callbacks, constants, unions, out-direction first parameters.',
   ref='DESIGN.md §4 C04'),
 'C05': dict(
   technique='Coq proof of closure of the introspectable pass over arbitrary reference graphs (monotone fixpoint argument) + in-Coq correspondence through the real passes + a GIR linter for the cross-reference clauses',
   text='Theorems (Coq, axiom-free): for EVERY reference graph of aliases, callback types, functions and other definitions (any size, '
        'references forwards and backwards, chains of any length) the repaired pass ends in a state no further walk changes '
        '(C05_fixpoint) in which whatever is still shown introspectable refers only to fundamental types and to definitions that are '
        'themselves shown introspectable (C05_closed; proof: walks only clear flags (C05_only_clears), a walk that leaves the count '
        'unchanged changed nothing and every node was stable, |nodes|+1 rounds suffice); the pass as found is refuted on an alias '
        'chain and a callback chain (C05_found_not_closed, fix 8edfc58). Tie: generated reference graphs go through the real '
        'Transformer, MainTransformer, IntrospectablePass and GIRWriter and the introspectable attribute of every node is compared with '
        'the model inside Coq. The other clauses (no varargs/va_list/long long, transfer on every value, scope on callback '
        'parameters, element types, closure/destroy/length indices in range, mutual shadows / type-struct / invoker / accessor links) '
        'are judged by a linter on every GIR written by the generators of C01, C12, C15 and C16 and on the graphs themselves.',
   note='PARTIAL for the cross-reference clauses: they are checked by the linter on generated GIRs (and proved where they belong: '
        'indices C01, shadows C03, type-struct C12), not re-proved here. Trusted: Coq kernel+VM; stub lexer; a callable\'s own findings '
        '(unresolved parameter, callback parameter of a callback type) are inputs of the model.',
   ref='DESIGN.md §4 C05'),
 'C10': dict(
   technique='Coq proof over two models of the comment parser - the annotation fields (character loop, option parsing, serializer) and the whole block parser (parse_comment_block with its fifteen regular expressions translated from the compiled patterns, validate() with rules read from the syntax tree) - + in-Coq correspondence of both with the real parser on generated, damaged and line-soup comments + differential runs of the real parser and writer over layouts',
   text='Theorems (Coq, axiom-free): whatever runs of blanks (tabs, several spaces, none) stand before, between and after the '
        'parenthesised annotation groups, exactly the groups are recovered in order (C10_annotation_layout, induction over the character '
        'loop with its nesting level, buffer and previous-character state); the options of a list annotation come back in order and an '
        'annotation body is split into its name and options (C10_list_options, C10_list_annotation); for EVERY list of list annotations '
        'with distinct names and well-formed options, parsing what the project\'s writer serializes gives the same annotations, an '
        'empty description and no complaint (C10_write_parse_roundtrip); a field without annotations is its description, a leading colon '
        'included, and annotations + colon + description as the writer lays them out give back both (C10_description_without_annotations, '
        'C10_annotations_and_description; the first was false before fix 4782904); key=value options of array/attributes annotations come '
        'back key by key in order, a value containing = included, for every list of distinct keys (C10_dict_options); lines joined by LF, '
        'by CR LF or by CR are cut into exactly those lines, so the whole result of the block parser - block, indentation, diagnostics - '
        'is the same under the three conventions (C10_line_endings, C10_block_line_endings, over Model.C10B.parse_block); whatever blanks stand in '
        'front of each line\'s asterisk, differing from line to line, the line loop arrives at the same block, part in progress and flags '
        '(C10_indentation_independent, by symbolic evaluation of COMMENT_ASTERISK_RE, C10_asterisk_prefix, and non-interference of every '
        'parser function with the quoted line and column). Tie: 600 '
        '(thorough 6000) field strings - serialized annotation sets in varying layouts, a malformed stream and character soup - go '
        'through the real _parse_fields and are compared with Model.C10.parse_fields inside Coq, the real _serialize_annotations is '
        'compared byte for byte with the model; 620 (thorough 9500) whole comments - generated blocks in ten layouts and comments '
        'composed line by line from everything the state machine distinguishes (all identifier kinds, parameters, @returns, @Varargs, '
        'tags incl. the deprecated annotation tags and Description:, continuation lines, 100 annotation spellings, damaged start and '
        'end tokens, lines without asterisk, non-ASCII case variants) - go through the real parse_comment_block and are compared inside '
        'Coq with Model.C10B.parse_block: the block with every part, annotation, position, description and value, block.indentation, '
        'every diagnostic with its line, column and quoted line, and the diagnostics of validate(); whole blocks rendered with '
        'LF/CRLF/CR, space and tab indentation, wrapped annotations, optional and set-off colons must parse to the generated block and '
        'survive write + parse with the project\'s own writer.',
   note='PARTIAL: the writer GtkDocCommentBlockWriter.write is tied by the write + parse runs only; the block-level round trip and the '
        'independence of the indentation in front of the asterisks are validated per run, not proved (the block model executes the '
        'translated regular expressions; symbolic reasoning about them was done for the three unguarded patterns only, see C11). '
        'Trusted: Coq kernel+VM; gen_c10.py, gen_c10b.py (CPython\'s re._parser for the pattern structure; \\s, \\w, \\d, '
        'case-insensitive literals, str.lower and str.capitalize as tables computed by the running interpreter; final-sigma '
        'lower-casing not modelled), gen_c10v.py (syntax tree of the _do_validate_ methods), gen_unicode.py.',
   ref='DESIGN.md §4 C10'),
 'C11': dict(
   technique='Coq proof over the block-level model of the comment parser (every diagnostic placed on its source line with the caret inside; no unguarded match can fail) and over models of diagnostic counting/suppression + in-Coq correspondence of the model with the real parser, exceptions and every diagnostic included + robustness and position clauses on the real parser',
   text='Theorems (Coq, axiom-free, for EVERY comment text): in a comment whose opening and closing tokens stand alone on their lines, '
        'every diagnostic of the parse phase names a line of the comment, quotes exactly that source line and keeps its caret within '
        'it - or stands on a line with a deprecated tag-style annotation (diagnostic 13 on that line), where the property claims the line '
        'only (C11_diagnostics_placed; by an invariant of the annotation character loop, the bound on capture groups of the '
        'backtracking matcher, and the fact that str.lower keeps the length of what comes out ASCII); the parser never dereferences a '
        'failed match: INDENTATION_RE, TAG_VALUE_VERSION_RE and TAG_VALUE_STABILITY_RE, the three patterns used without a test, match '
        'every text without a line feed, and no line feed reaches them (C11_unguarded_patterns_total, C11_model_never_raises; '
        'total_on_lines is a verified sufficient condition evaluated on the patterns as regenerated from the source); every diagnostic '
        'is counted whether or not it is displayed, so a warnings-as-errors run fails exactly when something was diagnosed '
        '(C11_counted_even_when_suppressed, C11_fails_iff_diagnosed); line arithmetic and the caret bound of the field-level model '
        '(C11_block_line_numbers, C11_caret_within_field); a malformed annotation is ignored rather than half-applied: a failed parse hands '
        'on no annotation at all, and a continuation line whose annotations are malformed leaves the parameter\'s annotations, their '
        'position, the identifier\'s annotations and the tags exactly as they were, however many well-formed annotations precede the '
        'malformed one on that line (C11_failed_parse_is_empty, C11_malformed_continuation_not_applied). Tie: 750 (thorough 15000) damaged and line-soup comments go through the real '
        'parse_comment_block and are compared inside Coq with Model.C10B.parse_block - raised or not, the block, every diagnostic with '
        'level, message kind, line, column and quoted line, and validate()\'s diagnostics; the crisp clauses (no exception, file, line '
        'inside the comment, quoted line = source line, caret within it) are judged directly on each of them. Further on the real parser: '
        'a damaged comment between two well-formed ones never raises and never loses the neighbours; one of 10 annotation defects on a '
        'known line at three starting lines; deprecated tag-style annotations; every annotation name without options; '
        'warnings-as-errors through the real scanner_main.',
   note='The theorems are about Model.C10B (the real parser is CPython code): "never raises" is proved for the model - whose only raising '
        'points are failed matches that are dereferenced - and tied per run by comparing the flag with exceptions actually raised; '
        'exceptions of other origin (a TypeError inside CPython, say) are outside the model and are only sampled. The C lexer that '
        'extracts comments from sources is not exercised (not buildable here). Known findings: C11-K1 (validate() names the first line '
        'of a part), C11-K2 (text in front of the end token is quoted without it).',
   ref='DESIGN.md §4 C11'),
 'C07': dict(
   technique='Coq proof of the writer/reader attribute contract on lists regenerated from girwriter.py and girparser.py, of the default-value encodings, of the member length pairing and of the read/write cycle of the whole type sub-language (model of _write_type and _parse_type_simple) + in-Coq correspondence of that model with the real writer and reader + the project\'s own read/write cycle on scanner-written, altered and shipped GIRs',
   text='Theorems (Coq, axiom-free): every attribute name the GIR writer can write (extracted from the syntax tree of girwriter.py) is '
        'read by girparser.py, or is derived from data that is read, or is XML syntax (C07_attribute_contract, finite, regenerated); the '
        'encodings with defaults - readable/writable style flags, nullable/optional/allow-none per direction, direction with '
        'caller-allocates, array zero-termination - decode to what was encoded, for all values (C07_encodings); array length indices of '
        'structure members come back on the member they were written for (C07_member_lengths; the pairing as found is refuted by '
        'C07_member_lengths_refuted_before_fix, fix 047a320); THE TYPE SUB-LANGUAGE (Model/C07T.v: GIRWriter._write_type, '
        'GIRParser._parse_type_simple/_parse_type/_parse_type_array_length, Namespace.type_from_name, GIRWriter._type_to_name): for EVERY '
        'type the syntax tree can hold - C arrays and GLib array kinds with any fixed size, length index and zero-termination, lists, hash '
        'tables, fundamental types, names of this and other namespaces, unresolved C types, nested to any depth - what the reader makes of '
        'the written element is written as the same element again (C07_type_cycle), it is the same type unless a name of the own namespace '
        'is spelled like a fundamental type (C07_type_read_back), and int(\'%d\' % n) = n for every n (C07_numbers). Tie: 300 (thorough '
        '5000) generated type trees go through the real _write_type, _parse_type_simple and _write_type again (same XML), the written '
        'element and the type read back are compared with Model.C07T.write_ty/read_ty inside Coq, and 150 (thorough 2500) elements of '
        'other origin (odd attributes, several children, callbacks) with the reader\'s answer or exception; GIRs written by the real scanner for five generators (annotated '
        'callables, runtime-dump worlds, structure/virtual-method worlds, declaration worlds, structure members with anonymous '
        'unions/structures, function pointers and length-carrying arrays) and the 10 shipped tests/scanner/*-expected.gir files are read '
        'by GIRParser and written by GIRWriter three times in a row (the project\'s own passthrough) and must stay byte-identical.',
   note='PARTIAL: write(read(x)) = x for every GIR is validated per run, not proved; proved are the attribute contract, the '
        'default encodings, the member pairing and the cycle of the type sub-language (hypotheses: namespace names without a dot, GI names '
        'Namespace.Name, no <varargs/> inside a list or hash table, no named type called GLib.List/SList/HashTable; the target_foreign '
        'flag of a type is not modelled). Trusted: Coq kernel+VM; gen_c07.py (Python-ast walks of both files); stub lexer.',
   ref='DESIGN.md §4 C07'),
}

PLANNED = {}
for i in range(1, 21):
    pid = 'C%02d' % i
    if pid not in CLAIMED:
        PLANNED[pid] = 'check not built yet in this development (design in DESIGN.md §4 %s); not claimed until its Coq model, theorems and tie exist' % pid

def main():
    checks = []
    for pid in sorted(CLAIMED):
        c = CLAIMED[pid]
        checks.append(dict(
            property_id=pid,
            quick_cmd='./check %s --tier quick' % pid,
            thorough_cmd='./check %s --tier thorough' % pid,
            evidence_file='evidence/%s.json' % pid,
            replay_cmd_template='./check %s --replay {path}' % pid,
            engine='coq',
            level_claimed=dict(category=c.get('category', 'proof'), text=c['text'], design_ref=c['ref']),
            level_note=c['note'],
            technique=c['technique']))
    m = dict(
        version=1,
        setup_cmd='./setup.sh',
        hooks=dict(guard='GI_VERIF', enable='no hooks: checks import /repo sources directly (PYTHONPATH=/repo) and '
                   'compile /repo C sources against cshim/; GI_VERIF=1 is exported by ./check but nothing in /repo reads it',
                   baseline_off_cmd='cd /repo && /venv/bin/python -m pytest -ra -q -p no:cacheprovider --timeout=900 '
                                    '--continue-on-collection-errors',
                   source_commits=[], add_only=True),
        engines=[dict(name='coq', path='coq/', serves_properties=sorted(CLAIMED),
                      kind_free_text='Coq 8.16.1 development (Lib/Model/Proofs/Props, Gen regenerated from /repo) + '
                                     'in-Coq correspondence (vm_compute on generated case files)')],
        checks=checks,
        not_applicable=[dict(property_id=p, reason=r) for p, r in sorted(PLANNED.items())],
        notes='All checks: ./check <id> [--tier quick|thorough]; VERIF_SEED respected; evidence rewritten each run.')
    json.dump(m, open(os.path.join(ROOT, 'MANIFEST.json'), 'w'), indent=1)

if __name__ == '__main__':
    main()
