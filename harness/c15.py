"""C15 — whatever the scanner writes, the typelib compiler accepts."""
import glob
import json
import os
import random
import re
import shutil
import subprocess
import sys
import tempfile

from common import Check, coq_eval, parse_defs, parse_nlist, cstr, clist, cbool, copt, c_build, c_driver, CBUILD, ROOT, REPO, run

HERE = os.path.dirname(os.path.abspath(__file__))
SHIPPED_EXTRA = ('<callback name="Callback" c:type="GCallback"><return-value transfer-ownership="none"><type name="none" c:type="void"/>'
                 '</return-value></callback><record name="InitiallyUnownedClass" c:type="GInitiallyUnownedClass"/>'
                 '<record name="TypeInstance" c:type="GTypeInstance"/><record name="TypeClass" c:type="GTypeClass"/>')
STUBGIR = os.path.join(HERE, 'stubgir')


def scanner_girs(rng, n_each):
    """GIR documents written by the real scanner pipeline for three kinds of generated worlds"""
    import scanner as S
    import xml.etree.ElementTree as ET
    import c01
    import c12
    import c16
    import c16_run
    from c02 import world_symbols, DUMP, src_tree
    out = []
    for b in range(n_each):
        batch = [c01.gen_callable(rng, i, cbtype=(i % 5 == 4)) for i in range(25)]
        syms = world_symbols()
        comments = []
        line = 1000
        for c in batch:
            ps = [S.param(nm, src_tree(c01.tree_of(tn))) for nm, tn, _ in c['params']]
            syms.append(S.cbtypedef(c['name'], src_tree(c01.tree_of(c['ret'])), ps) if c['cbtype']
                        else S.func(c['name'], src_tree(c01.tree_of(c['ret'])), ps))
            text, _, _ = c01.comment_for(c, line)
            comments.append((text, '/src/foo.c', line))
            line += text.count('\n') + 3
        r = S.run(syms, comments=comments, includes=['GLib', 'GObject', 'Gio'], dump=ET.ElementTree(ET.fromstring(DUMP)), warnings=False)
        out.append(('annotated callables #%d' % b, r.xml, ['GLib', 'GObject', 'Gio']))
    for b in range(n_each):
        w = c12.gen_world(rng)
        # some of the properties carry a block of their own with a (transfer ...) annotation, floating included
        pcomments = []
        for d_ in w['dump']:
            for p_ in d_.get('props', []):
                if rng.random() < 0.5:
                    pcomments.append(('/**\n * %s:%s: (transfer %s)\n *\n * A property.\n */' % (d_['name'], p_['name'],
                                      rng.choice(['none', 'full', 'floating', 'container', 'floating'])), '/src/foo.c', 1000 + 10 * len(pcomments)))
        r = S.run(c12.symbols(w, S), comments=pcomments, includes=['GLib', 'GObject', 'Gio'], dump=ET.ElementTree(ET.fromstring(c12.dump_xml(w))), warnings=False)
        out.append(('runtime dump world #%d' % b, r.xml, ['GLib', 'GObject', 'Gio']))
    for b in range(n_each):
        out.append(('structure and virtual-method world #%d' % b, vfunc_world(rng, S, ET), ['GLib', 'GObject', 'Gio']))
    for b in range(n_each):
        w = c16.gen_world(rng, b)
        out.append(('declaration world #%d' % b, c16_run.build(w), w['includes']))
    import c03
    for b in range(n_each):
        # identifier-level annotations and tags (Since/Deprecated with and without version and text, Stability, attributes,
        # rename-to pairs, property/signal/field/virtual-method blocks)
        w = c03.gen_world(rng)
        comments, line = [], 1000
        for key, blk, text in w['blocks']:
            comments.append((text, '/src/foo.c', line))
            line += text.count('\n') + 3
        r = S.run(w['syms'], comments=comments, includes=['GLib', 'GObject', 'Gio'], dump=ET.ElementTree(ET.fromstring(w['dump'])), warnings=False)
        out.append(('documented world #%d' % b, r.xml, ['GLib', 'GObject', 'Gio']))
    import c05
    for b in range(n_each):
        # reference graphs of aliases, callback types, functions and records, and structures with members of callback types, some
        # of which are or turn out to be not introspectable: what stays introspectable must be something the compiler can resolve
        nodes = c05.gen_world(rng)
        gsyms, gcomments = c05.build(nodes, S)
        r = S.run(gsyms, comments=gcomments, includes=['GLib', 'GObject'], warnings=False)
        out.append(('reference graph #%d' % b, r.xml, ['GLib', 'GObject']))
        out.append(('typed members world #%d' % b, c05.typed_member_world(rng, S, ET), ['GLib', 'GObject', 'Nib']))
        out.append(('one unbindable callback type #%d' % b, lonely_world(rng, S, plain=(b % 2 == 0)), ['GLib', 'GObject']))
    for b in range(max(1, n_each // 2)):
        out.append(('extension namespace #%d' % b, extension_world(rng, S), ['GLib', 'GObject'], 'GObjectKit-1.0'))
    import c07
    for b in range(n_each):
        out.append(('constants and members world #%d' % b, misc_world(rng, S, c07), ['GLib', 'GObject']))
        out.append(('structure members world #%d' % b, c07.field_world(rng, S, ET), ['GLib', 'GObject']))
        out.append(('registered types world #%d' % b, c07.registered_world(rng, S, ET), ['GLib', 'GObject']))
    return out


CONST_TYPES = ['gint', 'guint', 'gint8', 'guint8', 'gint16', 'guint16', 'gint32', 'guint32', 'gint64', 'guint64', 'glong', 'gulong', 'gshort',
               'gushort', 'gchar', 'guchar', 'gsize', 'gssize', 'gintptr', 'guintptr', 'gboolean', 'gfloat', 'gdouble', 'gunichar', 'GType',
               'time_t', 'off_t', 'gpointer', 'void*', 'gchar*', 'FooNope', 'FooMiscEnum', None]


def lonely_world(rng, S, plain=False):
    """ONE callback type that cannot be introspected (va_list, variable arguments or long long) and nothing else that is not
    introspectable: a structure with a member of that type declared before or after it, optionally an alias of it and a function
    taking it; whatever refers to it must not stay introspectable, or the compiler cannot resolve the reference"""
    from giscanner.sourcescanner import CSYMBOL_TYPE_ELLIPSIS
    bad = rng.choice([[S.param('fmt', S.ptr(S.td('gchar'))), S.param('args', S.td('va_list'))],
                      [S.param('fmt', S.ptr(S.td('gchar'))), S.FS(CSYMBOL_TYPE_ELLIPSIS, None, base_type=None)],
                      [S.param('v', S.basic('long long'))],
                      [S.param('event', S.ptr(S.td('XEvent')))], [S.param('event', S.ptr(S.td('XEvent')))]])     # a type nobody describes
    if plain:
        bad = [S.param('event', S.ptr(S.td('XEvent')))]
    cb = [S.cbtypedef('FooStepFunc', S.VOID, bad, line=10)]
    rec = [S.FS(S.CSYMBOL_TYPE_TYPEDEF, 'FooRunner', base_type=S.FT(S.CTYPE_STRUCT, '_FooRunner'), line=20),
           S.FS(S.CSYMBOL_TYPE_STRUCT, '_FooRunner', base_type=S.FT(S.CTYPE_STRUCT, '_FooRunner', child_list=[
               S.FS(S.CSYMBOL_TYPE_MEMBER, 'n', base_type=S.td('gint'), line=22),
               S.FS(S.CSYMBOL_TYPE_MEMBER, 'step', base_type=S.td('FooStepFunc'), line=23)]), line=21)]
    rest = []
    if rng.random() < 0.5:
        rest.append(S.FS(S.CSYMBOL_TYPE_TYPEDEF, 'FooStepAlias', base_type=S.td('FooStepFunc'), line=30))
    if rng.random() < 0.5:
        rest.append(S.func('foo_runner_run', S.VOID, [S.param('self_', S.ptr(S.td('FooRunner'))), S.param('n', S.td('gint'))], line=40))
    if rng.random() < 0.3:
        rest.append(S.func('foo_set_step', S.VOID, [S.param('cb', S.td('FooStepFunc'))], line=41))
    groups = [cb, rec, rest]
    rng.shuffle(groups)
    if plain:
        groups = [rec, cb, rest]        # the structure first, then the callback type its member has
    r = S.run([x for g in groups for x in g], comments=[], includes=['GLib', 'GObject'], warnings=False)
    return r.xml


def extension_world(rng, S):
    """a namespace whose name extends the name of a namespace it includes (GstBase/Gst, PangoCairo/Pango, GioUnix/Gio): here
    GObjectKit including GObject, with types of its own that have the short names of GObject's (Object, Value, Closure) and
    functions that take the included type and the own type side by side, in either order"""
    syms = []
    pairs = rng.sample([('GObject', 'FooObject'), ('GValue', 'FooValue'), ('GClosure', 'FooClosure')], rng.randint(1, 3))
    line = 10
    for inc_t, own_t in pairs:
        syms += [S.FS(S.CSYMBOL_TYPE_TYPEDEF, own_t, base_type=S.FT(S.CTYPE_STRUCT, '_' + own_t), line=line),
                 S.FS(S.CSYMBOL_TYPE_STRUCT, '_' + own_t, base_type=S.FT(S.CTYPE_STRUCT, '_' + own_t, child_list=[
                     S.FS(S.CSYMBOL_TYPE_MEMBER, 'x', base_type=S.td('gint'), line=line + 1)]), line=line + 1)]
        line += 5
    k = 0
    for inc_t, own_t in pairs:
        for order in rng.sample([0, 1, 2, 3], rng.randint(2, 4)):
            a, b = S.param('theirs', S.ptr(S.td(inc_t))), S.param('ours', S.ptr(S.td(own_t)))
            ps = [[a, b], [b, a], [a], [b]][order]
            syms.append(S.func('foo_combine_%d' % k, S.VOID, ps, line=100 + k))
            k += 1
    r = S.run(syms, comments=[], nsname='GObjectKit', identifier_prefixes=['Foo'], symbol_prefixes=['foo'], includes=['GLib', 'GObject'], warnings=False)
    return r.xml


def misc_world(rng, S, c07):
    """constants cast to every kind of type (numeric, gunichar, GType, pointers, an enumeration, an unknown type), string/boolean/double
    constants, structures with anonymous and function-pointer members, and a union with a function-pointer member"""
    syms = [S.enum_typedef('FooMiscEnum', [('FOO_MISC_ENUM_A', 0, False), ('FOO_MISC_ENUM_B', 1, False)])]
    for i in range(rng.randint(3, 10)):
        t = rng.choice(CONST_TYPES)
        bt = None if t is None else S.ptr(S.VOID) if t == 'void*' else S.ptr(S.td('gchar')) if t == 'gchar*' else S.td(t)
        k = rng.random()
        if k < 0.7:
            syms.append(S.const('FOO_MK%d' % i, bt, const_int=rng.choice([0, 1, -1, 127, 255, 8364, 65536, 2 ** 31, 2 ** 32 - 1, -2 ** 31, 2 ** 63 - 1]), line=50 + i))
        elif k < 0.8:
            syms.append(S.const('FOO_MK%d' % i, None, const_string=rng.choice(['', 'text', 'a "q" <&>', '\u20ac']), line=50 + i))
        elif k < 0.9:
            syms.append(S.const('FOO_MK%d' % i, None, const_boolean=rng.random() < 0.5, line=50 + i))
        else:
            syms.append(S.const('FOO_MK%d' % i, None, const_double=rng.choice([0.0, 1.5, -2.25e10]), line=50 + i))
    line = 100
    for r in range(rng.randint(0, 2)):
        kids = [S.FS(S.CSYMBOL_TYPE_MEMBER, 'a', base_type=S.td('gint'), line=line)]
        if rng.random() < 0.6:
            kids.append(S.FS(S.CSYMBOL_TYPE_MEMBER, 'cb', base_type=S.ptr(S.FT(S.CTYPE_FUNCTION, base_type=S.VOID,
                                                                                child_list=[S.param('x', S.td('gint'))])), line=line + 1))
        kids.append(S.FS(S.CSYMBOL_TYPE_MEMBER, 'd', base_type=S.td('gdouble'), line=line + 2))
        syms.append(S.FS(S.CSYMBOL_TYPE_TYPEDEF, 'FooMiscU%d' % r, base_type=S.FT(S.CTYPE_UNION, '_FooMiscU%d' % r), line=line + 3))
        syms.append(S.FS(S.CSYMBOL_TYPE_UNION, '_FooMiscU%d' % r, base_type=S.FT(S.CTYPE_UNION, '_FooMiscU%d' % r, child_list=kids), line=line + 4))
        line += 10
    # function-like macros with documented parameters
    mcomments = []
    for i in range(rng.randint(0, 3)):
        names = ['a', 'b', 'c'][:rng.randint(1, 3)]
        syms.append(S.FS(S.CSYMBOL_TYPE_FUNCTION_MACRO, 'FOO_MACRO_%d' % i,
                         base_type=S.FT(S.CTYPE_FUNCTION, child_list=[S.FS(S.CSYMBOL_TYPE_OBJECT, n) for n in names]), line=400 + i))
        docd = [n for n in names if rng.random() < 0.7]
        mcomments.append(('/**\n * FOO_MACRO_%d:\n%s *\n * A macro.\n *\n * Since: 1.%d\n */' % (i, ''.join(' * @%s: the %s value\n' % (n, n) for n in docd), i),
                          '/src/foo.c', 3000 + 20 * i))
    # containers of containers: a hash table whose values are string arrays or lists
    for i, et in enumerate(rng.sample(['utf8 GStrv', 'utf8 GLib.List(utf8)', 'gint GLib.PtrArray(utf8)', 'utf8 utf8'], rng.randint(1, 3))):
        syms.append(S.func('foo_misc_table_%d' % i, S.VOID, [S.param('t', S.ptr(S.td('GHashTable')))], line=450 + i))
        mcomments.append(('/**\n * foo_misc_table_%d:\n * @t: (element-type %s): a table\n */' % (i, et), '/src/foo.c', 3500 + 10 * i))
    # a type of an included namespace whose name begins with the name of this one (Foo / FooExt)
    syms.append(S.func('foo_misc_use_ext', S.VOID, [S.param('thing', S.ptr(S.td('FooExtThing')))], line=300))
    r = S.run(syms, comments=mcomments, includes=['GLib', 'GObject', 'FooExt'], warnings=False)
    return r.xml


def vfunc_world(rng, S, ET):
    """a class whose class structure has function-pointer members with annotated return values and parameters (they become virtual
    methods), and a plain structure whose members include function pointers the scanner cannot describe (variadic, unknown types)"""
    from giscanner.sourcescanner import CSYMBOL_TYPE_ELLIPSIS
    def tree(t):
        n = t.rstrip('*')
        r = S.VOID if n == 'void' else S.td(n)
        for _ in range(len(t) - len(n)):
            r = S.ptr(r)
        return r

    def member_cb(name, ret, params, line):
        return S.FS(S.CSYMBOL_TYPE_MEMBER, name, base_type=S.ptr(S.FT(S.CTYPE_FUNCTION, base_type=tree(ret), child_list=params)), line=line)
    syms = [S.FS(S.CSYMBOL_TYPE_TYPEDEF, 'FooVObj', base_type=S.FT(S.CTYPE_STRUCT, '_FooVObj'), line=10),
            S.FS(S.CSYMBOL_TYPE_STRUCT, '_FooVObj', base_type=S.FT(S.CTYPE_STRUCT, '_FooVObj', child_list=[
                S.FS(S.CSYMBOL_TYPE_MEMBER, 'parent', base_type=S.td('GObject'), line=11)]), line=11),
            S.FS(S.CSYMBOL_TYPE_TYPEDEF, 'FooVObjClass', base_type=S.FT(S.CTYPE_STRUCT, '_FooVObjClass'), line=20),
            S.func('foo_vobj_get_type', S.td('GType'), [], line=5)]
    rets = [('GList*', '(transfer container) (element-type utf8)'), ('GList*', '(transfer full) (element-type utf8)'),
            ('GPtrArray*', '(transfer container) (element-type utf8)'), ('gchar*', '(transfer full)'), ('gchar*', '(transfer none) (nullable)'),
            ('gint', ''), ('FooVObj*', '(transfer none)'), ('FooVObj*', '(transfer full)'), ('GHashTable*', '(transfer container) (element-type utf8 utf8)')]
    kids = [S.FS(S.CSYMBOL_TYPE_MEMBER, 'parent_class', base_type=S.td('GObjectClass'), line=21)]
    comments = []
    line = 1000
    for i in range(rng.randint(2, 6)):
        rt, rann = rng.choice(rets)
        pnames = ['self'] + ['p%d' % j for j in range(rng.randint(0, 2))]
        ptypes = ['FooVObj*'] + [rng.choice(['gint', 'gchar*', 'gchar**', 'GList*', 'gint*']) for _ in pnames[1:]]
        panns = [''] + [rng.choice(['', '(nullable)', '(out)', '(inout) (nullable)', '(transfer full)', '(element-type gint)', '(out) (optional)'])
                        if t.endswith('*') else '' for t in ptypes[1:]]
        kids.append(member_cb('vm%d' % i, rt, [S.param(n, tree(t)) for n, t in zip(pnames, ptypes)], 22 + i))
        text = '/**\n * FooVObjClass::vm%d:\n%s *\n * A virtual method.\n *\n * Returns: %s%sthe value\n */' % (
            i, ''.join(' * @%s: %s%sparameter\n' % (n, a, ': ' if a else '') for n, a in zip(pnames, panns)), rann, ': ' if rann else '')
        comments.append((text, '/src/foo.c', line))
        line += 20
        if rng.random() < 0.6:      # the invoker method
            syms.append(S.func('foo_vobj_vm%d' % i, tree(rt), [S.param(n, tree(t)) for n, t in zip(pnames, ptypes)], line=40 + i))
    if rng.random() < 0.7:
        # an asynchronous triple among the virtual methods and among the methods: load / load_async / load_finish
        selfp = lambda: S.param('self', tree('FooVObj*'))
        kids += [member_cb('load_async', 'void', [selfp(), S.param('callback', S.td('GAsyncReadyCallback')), S.param('user_data', S.td('gpointer'))], 70),
                 member_cb('load_finish', 'gboolean', [selfp(), S.param('res', tree('GAsyncResult*'))], 71),
                 member_cb('load', 'gboolean', [selfp()], 72)]
        syms += [S.func('foo_vobj_load_async', S.VOID, [selfp(), S.param('callback', S.td('GAsyncReadyCallback')), S.param('user_data', S.td('gpointer'))], line=80),
                 S.func('foo_vobj_load_finish', S.td('gboolean'), [selfp(), S.param('res', tree('GAsyncResult*'))], line=81),
                 S.func('foo_vobj_load', S.td('gboolean'), [selfp()], line=82)]
    syms.append(S.FS(S.CSYMBOL_TYPE_STRUCT, '_FooVObjClass', base_type=S.FT(S.CTYPE_STRUCT, '_FooVObjClass', child_list=kids), line=21))
    # a plain table of operations: some members cannot be described
    ops = [S.FS(S.CSYMBOL_TYPE_MEMBER, 'count', base_type=S.td('gint'), line=61),
           member_cb('plain', 'void', [S.param('x', S.td('gint'))], 62)]
    if rng.random() < 0.7:
        ops.append(member_cb('log', 'void', [S.param('fmt', tree('gchar*')), S.FS(CSYMBOL_TYPE_ELLIPSIS, None, base_type=None)], 63))
    if rng.random() < 0.7:
        ops.append(member_cb('mystery', 'void', [S.param('u', tree('FooUnknownThing*'))], 64))
    if rng.random() < 0.5:
        ops.append(member_cb('va', 'void', [S.param('args', S.td('va_list'))], 65))
    rng.shuffle(ops)
    syms += [S.FS(S.CSYMBOL_TYPE_TYPEDEF, 'FooOps', base_type=S.FT(S.CTYPE_STRUCT, '_FooOps'), line=60),
             S.FS(S.CSYMBOL_TYPE_STRUCT, '_FooOps', base_type=S.FT(S.CTYPE_STRUCT, '_FooOps', child_list=ops), line=60)]
    dump = '<?xml version="1.0"?><dump><class name="FooVObj" get-type="foo_vobj_get_type" parents="GObject"></class></dump>'
    r = S.run(syms, comments=comments, includes=['GLib', 'GObject', 'Gio'], dump=ET.ElementTree(ET.fromstring(dump)), warnings=False)
    return r.xml


def parse_dump(text):
    """api_dump output -> {path: dict(ret=..., args=[...])} for callables, and the set of top-level names"""
    top = set()
    calls = {}
    stack = []      # (depth, path)
    cur = None
    for line in text.splitlines():
        if not line.strip() or line.startswith(('NS ', 'DEP ')):
            continue
        depth = (len(line) - len(line.lstrip(' '))) // 2
        l = line.strip()
        tag = l.split(' ', 1)[0]
        if tag == 'E':
            parts = l.split(' ')
            kind, name = parts[1], parts[2]
            while stack and stack[-1][0] >= depth:
                stack.pop()
            parent = stack[-1][1] if stack else ''
            path = '%s/%s:%s' % (parent, {'function': 'function', 'callback': 'callback', 'signal': 'signal', 'vfunc': 'vfunc'}.get(kind, 'type'), name)
            stack.append((depth, path))
            if depth == 0:
                top.add(name)
            cur = None
            if kind in ('function', 'callback', 'signal', 'vfunc'):
                cur = calls.setdefault(path, dict(ret=None, args=[]))
        elif tag in ('R', 'A') and cur is not None and stack and depth == stack[-1][0] + 1:
            kv = dict(x.split('=', 1) for x in l.split(' ') if '=' in x)
            if tag == 'R':
                cur['ret'] = kv
            else:
                kv['name'] = l.split(' ')[1]
                cur['args'].append(kv)
    return top, calls


def gir_callables(root, S):
    """introspectable callables of a scanner GIR: {path: (return element, [parameter elements])}, and top-level names"""
    ns = root.find(S.CORE + 'namespace')
    top = set()
    calls = {}
    KIND = {S.CORE + 'function': 'function', S.CORE + 'method': 'function', S.CORE + 'constructor': 'function', S.CORE + 'callback': 'callback',
            S.GLIB + 'signal': 'signal', S.CORE + 'virtual-method': 'vfunc'}

    def walk(el, parent, depth):
        for ch in el:
            if ch.get('introspectable') == '0' or ch.get('shadowed-by') is not None:
                continue
            if ch.tag in KIND:
                # a function that shadows another one is exposed under that one's name
                path = '%s/%s:%s' % (parent, KIND[ch.tag], ch.get('shadows') or ch.get('name'))
                ps = ch.find(S.CORE + 'parameters')
                calls[path] = (ch.find(S.CORE + 'return-value'), list(ps.findall(S.CORE + 'parameter')) if ps is not None else [], ch)
                if depth == 0:
                    top.add(ch.get('shadows') or ch.get('name'))
            elif ch.tag == S.CORE + 'field' and depth > 0:
                cb = ch.find(S.CORE + 'callback')
                if cb is not None and cb.get('introspectable') != '0':
                    path = '%s/callback:%s' % (parent, cb.get('name'))
                    ps = cb.find(S.CORE + 'parameters')
                    calls[path] = (cb.find(S.CORE + 'return-value'), list(ps.findall(S.CORE + 'parameter')) if ps is not None else [], cb)
            elif ch.tag in (S.CORE + 'record', S.CORE + 'union', S.CORE + 'class', S.CORE + 'interface', S.CORE + 'enumeration', S.CORE + 'bitfield',
                            S.GLIB + 'boxed'):
                name = ch.get('name') or ch.get(S.GLIB + 'name')
                if depth == 0:
                    top.add(name)
                walk(ch, '%s/type:%s' % (parent, name), depth + 1)
            elif ch.tag == S.CORE + 'constant' and depth == 0:
                top.add(ch.get('name'))
    walk(ns, '', 0)
    return top, calls


def main(tier, seed):
    ck = Check('C15', tier, seed)
    ck.assumptions += ['the GIRs are written by the real scanner passes from SourceSymbol trees (stub lexer) and stub include GIRs',
                       'the relax-ng schema docs/gir-1.2.rnc is not consulted: the contract checked is the compiler\'s own reader',
                       'compared per callable: presence, parameter names and order, direction, caller-allocates, nullable, optional, skip, '
                       'transfer, scope, closure and destroy; type structure is C06\'s subject']
    ck.prove(['gen_c15.py', 'gen_c02.py'], models=['Model/C15.vo', 'Model/C15T.vo'])
    ok, out = c_build()
    exe = val = None
    if ok:
        exe, out = c_driver('api_dump', os.path.join(ROOT, 'cshim', 'api_dump.c'))
        if exe:
            val, out = c_driver('validate_driver', os.path.join(ROOT, 'cshim', 'validate_driver.c'))
    if not exe or not val:
        ck.tie_broken('build', 'C build failed:\n' + out[-2000:])
        return ck.finish()
    import scanner as S
    import c01
    import xml.etree.ElementTree as ET
    rng = random.Random(seed)
    tmp = tempfile.mkdtemp(prefix='giv15')
    compiler = os.path.join(CBUILD, 'g-ir-compiler')
    items = []
    cases = []
    arr_items, arr_cases = [], []
    try:
        # include directory: the stub GIRs (the GObject stub completed with the four names the shipped Regress GIR refers to),
        # the hand-written gir/cairo-1.0.gir.in, and the shipped expected GIRs under their namespace names
        inc = os.path.join(tmp, 'inc')
        os.mkdir(inc)
        for f in os.listdir(STUBGIR):
            text = open(os.path.join(STUBGIR, f)).read()
            if f == 'GObject-2.0.gir':
                text = text.replace('</namespace>', SHIPPED_EXTRA + '</namespace>')
            open(os.path.join(inc, f), 'w').write(text)
        shutil.copy(os.path.join(REPO, 'gir', 'cairo-1.0.gir.in'), os.path.join(inc, 'cairo-1.0.gir'))
        shipped = []
        for f in sorted(glob.glob(os.path.join(REPO, 'tests', 'scanner', '*-expected.gir'))):
            n = os.path.basename(f)[:-len('-expected.gir')]
            shutil.copy(f, os.path.join(inc, n + '.gir'))
            shipped.append(('shipped ' + os.path.basename(f), open(f, encoding='utf-8').read(), None, n))
        for n in ('GLib-2.0', 'GObject-2.0', 'Gio-2.0', 'Base-1.0', 'Mid-1.0', 'FooExt-1.0', 'Nib-1.0', 'cairo-1.0', 'Utility-1.0'):
            rc, o = run([compiler, '--includedir', inc, os.path.join(inc, n + '.gir'), '-o', os.path.join(tmp, n + '.typelib')])
            if rc != 0:
                ck.tie_broken('harness', 'cannot compile the stub dependency %s: %s' % (n, o[-500:]))
        try:
            girs = [g if len(g) == 4 else g + ('Foo-1.0',) for g in scanner_girs(rng, 4 if tier == 'quick' else 40)]
        except (Exception, SystemExit) as e:      # noqa
            ck.tie_broken('correspondence', 'the scanner fails on a generated world: %r' % (e,))
            girs = []
        for gi_, (what, xml, incs, nsv) in enumerate(girs + shipped):
            work = os.path.join(tmp, 'w')
            shutil.rmtree(work, ignore_errors=True)
            os.mkdir(work)
            gir = os.path.join(work, nsv + '.gir')
            tl = os.path.join(tmp, nsv + '.typelib')
            open(gir, 'w', encoding='utf-8').write(xml)
            if gi_ % 3 == 1:
                # the dependencies are found through GI_GIR_PATH, as the scanner found them: the variable extended from an unset one
                # (leading separator), with an empty element in the middle, or plain
                env_ = dict(os.environ, GI_GIR_PATH=[os.pathsep + inc, os.path.join(tmp, 'nowhere') + os.pathsep + os.pathsep + inc, inc][(gi_ // 3) % 3])
                p = subprocess.run([compiler, gir, '-o', tl], capture_output=True, text=True, timeout=300, env=env_)
            else:
                p = subprocess.run([compiler, '--includedir', inc, gir, '-o', tl], capture_output=True, text=True, timeout=300)
            root = ET.fromstring(xml)
            if what.startswith('shipped') and p.returncode != 0 and re.search(r"Can't resolve type '(GLib|GObject|Gio|cairo)\.", p.stdout + p.stderr):
                # an include that the stub GIRs do not satisfy: outside the property's quantifier
                ck.extra.setdefault('shipped_girs_with_unsatisfied_includes', []).append(what)
                continue
            gtop, gcalls = gir_callables(root, S)
            ck.count_case(dict(world=what, callables=len(gcalls), top=len(gtop)), nontrivial=len(gcalls) > 3, kind=what.split('#')[0].strip())
            if p.returncode != 0 or p.stdout.strip() or p.stderr.strip():
                # known finding C15-K1: only a union that has a function-pointer member, refused with exactly the reader's message
                k1 = 'element callback from state 27 is unknown' in p.stderr and 'Caught NULL node' in p.stderr \
                    and any(f.find(S.CORE + 'callback') is not None for u in root.iter(S.CORE + 'union') for f in u.findall(S.CORE + 'field'))
                ck.failing_input('the typelib compiler does not accept a GIR written by the scanner silently (rc=%d)' % p.returncode,
                                 dict(world=what, gir=xml), detail=(p.stdout + p.stderr)[-1500:],
                                 fid='C15-K1-union-with-function-pointer-member' if k1 else None)
                if p.returncode != 0:
                    continue
            v = subprocess.run([val, tl], capture_output=True, text=True, timeout=120)
            if v.returncode != 0:
                ck.failing_input('the typelib compiled from a scanner GIR does not validate', dict(world=what, gir=xml), detail=v.stdout[-500:])
                continue
            q = subprocess.run([exe, tmp, nsv.split('-')[0]], capture_output=True, text=True, timeout=120)
            if q.returncode != 0:
                ck.failing_input('the typelib compiled from a scanner GIR cannot be walked (rc=%d)' % q.returncode, dict(world=what, gir=xml),
                                 detail=(q.stdout[-300:] + q.stderr[-300:]))
                continue
            ttop, tcalls = parse_dump(q.stdout)
            if ttop != gtop:
                ck.failing_input('the typelib does not expose exactly the introspectable top-level elements of the GIR',
                                 dict(world=what, gir=xml), detail=dict(only_in_gir=sorted(gtop - ttop), only_in_typelib=sorted(ttop - gtop)))
            if set(tcalls) != set(gcalls):
                ck.failing_input('the typelib does not expose exactly the introspectable callables of the GIR', dict(world=what, gir=xml),
                                 detail=dict(only_in_gir=sorted(set(gcalls) - set(tcalls))[:10], only_in_typelib=sorted(set(tcalls) - set(gcalls))[:10]))
            for path in sorted(set(gcalls) & set(tcalls)):
                rv, params, el = gcalls[path]
                t = tcalls[path]
                if [p_.get('name') for p_ in params] != [a['name'] for a in t['args']] or t['ret'] is None:
                    ck.failing_input('parameter list of %s differs between GIR and typelib' % path, dict(world=what, gir=xml),
                                     detail=dict(gir=[p_.get('name') for p_ in params], typelib=[a['name'] for a in t['args']]))
                    continue
                # records, classes, interfaces, enumerations and callbacks named by a value: the typelib names the same definition of
                # the same namespace (aliases are resolved by the compiler and are left out)
                nsname_ = root.find(S.CORE + 'namespace').get('name')
                kinds_ = ('record', 'class', 'interface', 'enumeration', 'bitfield', 'union', 'callback')
                local_ = set(d_.get('name') for d_ in root.find(S.CORE + 'namespace') if d_.tag.replace(S.CORE, '') in kinds_)
                for what_, el_, tl_ in [('return value', rv, t['ret'])] + [('parameter ' + p_.get('name'), p_, a) for p_, a in zip(params, t['args'])]:
                    ty = el_.find(S.CORE + 'type') if el_ is not None else None
                    tn = None if ty is None else ty.get('name')
                    m = re.match(r'iface\(([^,)]*)', tl_.get('type', ''))
                    if not tn or not m:
                        continue
                    want_q = tn if ('.' in tn and not tn.startswith(('GLib.List', 'GLib.SList', 'GLib.HashTable', 'GLib.Array', 'GLib.PtrArray',
                                                                      'GLib.ByteArray', 'GLib.Error'))) else \
                        ('%s.%s' % (nsname_, tn) if tn in local_ else None)
                    if want_q is not None and '.' in m.group(1) and m.group(1) != want_q and what.startswith('extension namespace'):
                        ck.failing_input('the typelib names another definition than the GIR for the %s of %s' % (what_, path),
                                         dict(world=what, callable=path, gir=xml), detail=dict(gir=want_q, typelib=m.group(1)))
                # C arrays: zero-termination, length index and fixed size as a GIR reader takes them, against the typelib's type
                for what_, el_, tl_ in [('return value', rv, t['ret'])] + [('parameter ' + p_.get('name'), p_, a) for p_, a in zip(params, t['args'])]:
                    arr = el_.find(S.CORE + 'array') if el_ is not None else None
                    ma = re.match(r'array\[(\d),zero=(\d),len=(-?\d+),fixed=(-?\d+),', tl_.get('type', ''))
                    if arr is not None and ma:
                        # the attributes as written, for Model.C15T.c_read_array (the compiler's reader of <array>)
                        k_, z_, l_, f_ = (int(x) for x in ma.groups())
                        arr_items.append('(%d, %s, {| ca_kind := %d; ca_zero := %s; ca_len := %s; ca_size := %s |})' % (
                            len(arr_cases), clist(['(%s, %s)' % (cstr(kk.replace(S.CNS, 'c:')), cstr(vv)) for kk, vv in arr.attrib.items()]),
                            k_, cbool(z_ == 1), copt(None if l_ < 0 else l_, lambda n: '%d' % n), copt(None if f_ < 0 else f_, lambda n: '%d' % n)))
                        arr_cases.append(dict(world=what, callable=path, value=what_, array=dict(arr.attrib), typelib=tl_.get('type')))
                    m = re.match(r'array\[0,zero=(\d),len=(-?\d+),fixed=(-?\d+),', tl_.get('type', ''))
                    if arr is not None and arr.get('name') is None and m:
                        zt = arr.get('zero-terminated')
                        want = (1 if (zt == '1' if zt is not None else (arr.get('length') is None and arr.get('fixed-size') is None)) else 0,
                                int(arr.get('length', -1)), int(arr.get('fixed-size', -1)))
                        got = tuple(int(x) for x in m.groups())
                        if want != got:
                            ck.failing_input('the typelib describes the array of %s of %s otherwise than the GIR (zero-terminated, length, '
                                             'fixed-size)' % (what_, path), dict(world=what, callable=path, gir=xml),
                                             detail=dict(gir=want, typelib=got))
                args = []
                for p_, a in zip(params, t['args']):
                    args.append('(%s, (%s, %s, %s, %s, %s, %s, %s, %s, %s, %s))' % (
                        c01.coq_obs1(c01.observe1(p_, S)), cbool(a['dir'] in ('0', '2')), cbool(a['dir'] in ('1', '2')), cbool(a['calleralloc'] == '1'),
                        cbool(a['null'] == '1'), cbool(a['opt'] == '1'), cbool(a['skip'] == '1'), a['transfer'], a['scope'],
                        copt(None if a['closure'] == '-1' else int(a['closure']), lambda x: '%d%%nat' % x),
                        copt(None if a['destroy'] == '-1' else int(a['destroy']), lambda x: '%d%%nat' % x)))
                ret = '(%s, (%s, %s, %s))' % (c01.coq_obs1(c01.observe1(rv, S)), cbool(t['ret']['null'] == '1'), cbool(t['ret']['skip'] == '1'),
                                              t['ret']['transfer'])
                items.append('(%d, %s, %s)' % (len(cases), clist(args), ret))
                cases.append((what, path, xml))
    finally:
        shutil.rmtree(tmp, ignore_errors=True)
    if ck.models_ok and arr_items:
        text = '\n'.join(['From Coq Require Import List NArith Bool.', 'From GIV.Lib Require Import Regex Str.',
                          'From GIV.Model Require Import C07T C15T.', 'Import ListNotations.', 'Local Open Scope N_scope.',
                          'Definition cases : list (N * list (str * str) * carr) := [%s].' % ';\n'.join(arr_items),
                          "Definition bad := Eval vm_compute in map (fun c => fst (fst c)) (filter (fun c => let '(_, a, t) := c in",
                          '  negb (carr_eqb (c_read_array a) t)) cases).', 'Print bad.'])
        rc, out = coq_eval('C15T_arrays', text)
        if rc != 0:
            ck.tie_broken('correspondence', 'array case file does not evaluate:\n' + out[-2000:])
        else:
            badarr = parse_nlist(parse_defs(out)['bad'])
            if badarr:
                ck.tie_broken('correspondence', 'the typelib describes %d arrays otherwise than Model.C15T.c_read_array takes the <array> '
                              'attributes of the GIR' % len(badarr), arr_cases[badarr[0]])
        ck.extra['arrays_compared_with_compiler_reader_model'] = len(arr_items)
    if ck.models_ok and items:
        bad = []
        per = 300
        for s0 in range(0, len(items), per):
            text = '\n'.join([
                'From Coq Require Import List NArith Bool.', 'From GIV.Lib Require Import Regex Str.',
                'From GIV.Model Require Import C02 C02Spec C01 C01Spec C15.', 'Import ListNotations.', 'Local Open Scope N_scope.',
                'Definition tl := (bool * bool * bool * bool * bool * bool * N * N * option nat * option nat)%type.',
                'Definition arg_ok (p : obs1 * tl) : bool :=',
                "  let '(o, (i, ou, ca, nu, op, sk, tr, sc, cl, de)) := p in let r := read_param true o in",
                '  Bool.eqb (rf_in r) i && Bool.eqb (rf_out r) ou && Bool.eqb (rf_caller_allocates r) ca && Bool.eqb (rf_nullable r) nu',
                '  && Bool.eqb (rf_optional r) op && Bool.eqb (rf_skip r) sk && match rf_transfer r with Some t => N.eqb t tr | None => false end',
                '  && N.eqb (rf_scope r) sc && onat_eqb (rf_closure r) cl && onat_eqb (rf_destroy r) de.',
                'Definition ret_ok (p : obs1 * (bool * bool * N)) : bool :=',
                "  let '(o, (nu, sk, tr)) := p in let '(n, s0, t) := read_return o in",
                '  Bool.eqb n nu && Bool.eqb s0 sk && match t with Some x => N.eqb x tr | None => false end.',
                'Definition cases : list (N * list (obs1 * tl) * (obs1 * (bool * bool * N))) := [%s].' % ';\n'.join(items[s0:s0 + per]),
                "Definition bad := Eval vm_compute in map (fun c => fst (fst c)) (filter (fun c => let '(_, args, ret) := c in",
                '  negb (forallb arg_ok args && ret_ok ret)) cases).', 'Print bad.'])
            rc, out = coq_eval('C15_cases_%d' % (s0 // per), text)
            if rc != 0:
                ck.tie_broken('correspondence', 'case file does not evaluate:\n' + out[-2000:])
                break
            bad += parse_nlist(parse_defs(out)['bad'])
        ck.extra['traces_validated_against_impl'] = len(items)
        for i in bad[:20]:
            what, path, xml = cases[i]
            ck.failing_input('the typelib states other flags for %s than the GIR the scanner wrote' % path, dict(world=what, callable=path, gir=xml),
                             fid=None)
    return ck.finish(rule='GIRs written by the real scanner for annotated callables (C01 generator), runtime-dump worlds (C12 generator) and '
                          'declaration worlds (C16 generator) are compiled by the real g-ir-compiler (must be silent), validated by '
                          'g_typelib_validate, walked through the repository API; top-level names, callable paths and parameter lists must '
                          'match the introspectable part of the GIR, and every parameter/return flag is compared with Model.C15 inside Coq')


if __name__ == '__main__':
    sys.exit(main(os.environ.get('VERIF_TIER', 'quick'), int(os.environ.get('VERIF_SEED', '1'))))
