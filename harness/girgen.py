"""Generator of abstract namespace descriptions, their rendering as GIR XML (the input of
g-ir-compiler) and the canonical dump the repository API must produce for them (same line
format as cshim/api_dump.c)."""
import xml.sax.saxutils as sx

BASIC = ['gboolean', 'gint8', 'guint8', 'gint16', 'guint16', 'gint32', 'guint32', 'gint64', 'guint64', 'gfloat',
         'gdouble', 'GType', 'gunichar']
ALIAS = {'gint': 'gint32', 'guint': 'guint32', 'glong': 'gint64', 'gulong': 'guint64', 'gshort': 'gint16',
         'gushort': 'guint16', 'gchar': 'gint8', 'guchar': 'guint8', 'gsize': 'guint64', 'gssize': 'gint64',
         'gintptr': 'gint64', 'guintptr': 'guint64'}
DIR = {'in': 0, 'out': 1, 'inout': 2}
TRANSFER = {'none': 0, 'container': 1, 'full': 2}
SCOPE = {None: 0, 'call': 1, 'async': 2, 'notified': 3, 'forever': 4}
SIGFLAGS = {'first': 1, 'last': 2, 'cleanup': 4, None: 2}     # no `when`: run-last


def q(v):
    return sx.quoteattr(str(v))


def attrs_xml(d):
    return ''.join(' %s=%s' % (k, q(v)) for k, v in d.items() if v is not None)


# ------------------------------------------------------------------ types
# ('basic', name) ('ptrbasic', name) ('utf8',) ('filename',) ('gpointer',) ('none',)
# ('array', elem, dict(zero=, length=, fixed=)) ('garray', kind, elem)  ('iface', name, pointer)
# ('glist', elem) ('gslist', elem) ('ghash', k, v) ('error',)

def type_xml(t, out=False, nested=False):
    """out: the type of an out/inout parameter (the C type carries one more '*', which the
    compiler strips again)"""
    k = t[0]
    o = '*' if out else ''
    if nested and k == 'xiface':
        return '<type name="%s.%s"/>' % (t[1], t[2])
    if nested and k in ('basic', 'utf8', 'filename', 'gpointer', 'iface'):
        # element types carry no c:type in scanner output
        return '<type name="%s"/>' % ({'utf8': 'utf8', 'filename': 'filename', 'gpointer': 'gpointer'}.get(k) or (t[1] if k == 'basic' else 'T.' + t[1]))
    if k == 'basic':
        return '<type name="%s" c:type="%s%s"/>' % (t[1], t[1], o)
    if k == 'ptrbasic':
        return '<type name="%s" c:type="%s*%s"/>' % (t[1], t[1], o)
    if k == 'utf8':
        return '<type name="utf8" c:type="gchar*%s"/>' % o
    if k == 'filename':
        return '<type name="filename" c:type="gchar*%s"/>' % o
    if k == 'gpointer':
        return '<type name="gpointer" c:type="gpointer%s"/>' % o
    if k == 'none':
        return '<type name="none" c:type="void"/>'
    if k == 'array':
        o = t[2]
        a = {}
        if o.get('zero') is not None:
            a['zero-terminated'] = '1' if o['zero'] else '0'
        if o.get('length') is not None:
            a['length'] = o['length']
        if o.get('fixed') is not None:
            a['fixed-size'] = o['fixed']
        return '<array%s c:type="gpointer">%s</array>' % (attrs_xml(a), type_xml(t[1], nested=True))
    if k == 'garray':
        return '<array name="%s" c:type="%s*">%s</array>' % (t[1], t[1].replace('.', ''), type_xml(t[2], nested=True))
    if k == 'iface':
        return '<type name="T.%s" c:type="T%s%s%s"/>' % (t[1], t[1], '*' if t[2] else '', o)
    if k == 'xiface':
        # a type of an included namespace; ("X"|"Y").Handle is a pointer="1" record in X (its C name is already a
        # pointer) and a plain record in Y
        star = '' if (t[1], t[2]) == ('X', 'Handle') else '*'
        return '<type name="%s.%s" c:type="%s%s%s%s"/>' % (t[1], t[2], t[1], t[2], star, o)
    if k == 'glist':
        return '<type name="GLib.List" c:type="GList*">%s</type>' % type_xml(t[1], nested=True)
    if k == 'gslist':
        return '<type name="GLib.SList" c:type="GSList*">%s</type>' % type_xml(t[1], nested=True)
    if k == 'ghash':
        return '<type name="GLib.HashTable" c:type="GHashTable*">%s%s</type>' % (type_xml(t[1], nested=True), type_xml(t[2], nested=True))
    if k == 'error':
        return '<type name="GLib.Error" c:type="GError*"/>'
    raise ValueError(t)


def type_str(t, in_field=False, nested=False):
    k = t[0]
    if k == 'basic':
        return ALIAS.get(t[1], t[1])
    if k == 'ptrbasic':
        return ALIAS.get(t[1], t[1]) + '*'
    if k == 'utf8':
        return 'utf8*'
    if k == 'filename':
        return 'filename*'
    if k == 'gpointer':
        return 'void*'
    if k == 'none':
        return 'void'
    if k == 'array':
        o = t[2]
        has_len = o.get('length') is not None
        has_fixed = o.get('fixed') is not None
        zero = (1 if o['zero'] else 0) if o.get('zero') is not None else (0 if (has_len or has_fixed) else 1)
        ptr = 0 if (has_fixed and in_field) else 1
        return 'array[0,zero=%d,len=%d,fixed=%d,ptr=%d](%s)' % (zero, o['length'] if has_len else -1,
                                                               o['fixed'] if has_fixed else -1, ptr, type_str(t[1], nested=True))
    if k == 'garray':
        kind = {'GLib.Array': 1, 'GLib.PtrArray': 2, 'GLib.ByteArray': 3}[t[1]]
        return 'array[%d,zero=0,len=-1,fixed=-1,ptr=1](%s)' % (kind, type_str(t[2], nested=True))
    if k == 'iface':
        return 'iface(T.%s,ptr=%d)' % (t[1], 1 if (t[2] and not nested) else 0)
    if k == 'xiface':
        # an element type carries no c:type, so only a pointer="1" record of the included namespace is known to be a pointer
        return 'iface(%s.%s,ptr=%d)' % (t[1], t[2], (1 if (t[1], t[2]) == ('X', 'Handle') else 0) if nested else 1)
    if k == 'glist':
        return 'glist(%s)' % type_str(t[1], nested=True)
    if k == 'gslist':
        return 'gslist(%s)' % type_str(t[1], nested=True)
    if k == 'ghash':
        return 'ghash(%s,%s)' % (type_str(t[1], nested=True), type_str(t[2], nested=True))
    if k == 'error':
        return 'error*'
    raise ValueError(t)


# ------------------------------------------------------------------ generation

class Gen(object):
    def __init__(self, rng):
        self.rng = rng
        self.n = 0
        self.types = []          # names usable in iface types: (name, kind)
        self.foreign = False     # may refer to types of the included namespaces X and Y (see INCLUDED)

    def uid(self, p):
        self.n += 1
        return '%s%d' % (p, self.n)

    def gen_type(self, depth=2, allow_void=False, nested=False):
        r = self.rng.random()
        if nested and r >= 0.86:
            r = 0.2
        if allow_void and r < 0.15:
            return ('none',)
        if r < 0.35:
            return ('basic', self.rng.choice(BASIC + list(ALIAS)))
        if r < 0.45:
            return ('utf8',) if self.rng.random() < 0.8 else ('filename',)
        if r < 0.52:
            return ('gpointer',)
        if self.foreign and 0.52 <= r < 0.56:
            return ('xiface',) + self.rng.choice([('X', 'Item'), ('Y', 'Item'), ('X', 'Other'), ('X', 'Handle'), ('Y', 'Handle'), ('Y', 'Item')])
        if r < 0.6 and self.types:
            n, kind = self.rng.choice(self.types)
            return ('iface', n, kind in ('record', 'object', 'interface', 'union') and self.rng.random() < 0.9)
        if depth > 0:
            if r < 0.7:
                o = {}
                rr = self.rng.random()
                if rr < 0.3:
                    o['fixed'] = self.rng.choice([1, 3, 16])
                elif rr < 0.5:
                    o['zero'] = True
                elif rr < 0.6:
                    o['zero'] = False
                return ('array', self.gen_type(depth - 1, nested=True), o)
            if r < 0.75:
                kind = self.rng.choice(['GLib.Array', 'GLib.PtrArray', 'GLib.ByteArray'])
                # the element type of a GByteArray is not part of the type's identity in the typelib
                return ('garray', kind, ('basic', 'guint8') if kind == 'GLib.ByteArray' else self.gen_type(0, nested=True))
            if r < 0.82:
                return (self.rng.choice(['glist', 'gslist']), self.gen_type(0, nested=True))
            if r < 0.86:
                return ('ghash', ('utf8',), self.gen_type(0, nested=True))
        if r < 0.9 and not nested:
            return ('ptrbasic', self.rng.choice(['gint32', 'gdouble', 'guint8']))
        return ('basic', 'gint32')

    def gen_attrs(self):
        if self.rng.random() < 0.8:
            return {}
        return {self.uid('k'): self.rng.choice(['v', 'a b', 'x<y&"z"', '']) for _ in range(self.rng.randint(1, 3))}

    def gen_param(self, i, nparams):
        d = self.rng.choice(['in'] * 5 + ['out', 'out', 'inout'])
        p = dict(name='p%d' % i, dir=d, transfer=self.rng.choice(['none', 'none', 'full', 'container']),
                 nullable=self.rng.random() < 0.2, optional=(d != 'in' and self.rng.random() < 0.3),
                 caller_allocates=(d == 'out' and self.rng.random() < 0.3), skip=self.rng.random() < 0.05,
                 scope=None, closure=None, destroy=None, type=self.gen_type(), attrs=self.gen_attrs())
        if self.rng.random() < 0.15:
            p['scope'] = self.rng.choice(['call', 'async', 'notified', 'forever'])
            if self.rng.random() < 0.6 and nparams > 1:
                p['closure'] = self.rng.randrange(nparams)
            if p['scope'] == 'notified' and nparams > 2:
                p['destroy'] = self.rng.randrange(nparams)
        if p['type'][0] == 'array' and self.rng.random() < 0.3 and nparams > 1 and p['type'][2].get('fixed') is None:
            p['type'] = ('array', p['type'][1], dict(p['type'][2], length=self.rng.randrange(nparams)))
        return p

    def gen_callable(self, maxp=5):
        n = self.rng.choice([0, 1, 1, 2, 3, maxp])
        return dict(params=[self.gen_param(i, n) for i in range(n)],
                    ret=dict(type=self.gen_type(allow_void=True), transfer=self.rng.choice(['none', 'full', 'container']),
                             nullable=self.rng.random() < 0.2, skip=self.rng.random() < 0.05, attrs=self.gen_attrs()),
                    throws=self.rng.random() < 0.15)

    def gen_function(self, kind='function', prefix='f'):
        f = dict(kind=kind, name=self.uid(prefix), deprecated=self.rng.random() < 0.1, attrs=self.gen_attrs())
        f['cid'] = 't_' + f['name']
        f.update(self.gen_callable())
        return f

    def gen_fields(self, n, allow_cb=True):
        out = []
        for i in range(n):
            f = dict(name='fld%d' % i, readable=self.rng.choice([None, None, True, False]),
                     writable=self.rng.choice([None, True, False]), attrs=self.gen_attrs())
            if allow_cb and self.rng.random() < 0.25:
                f['callback'] = dict(name=f['name'], **self.gen_callable(3))
            else:
                f['type'] = self.gen_type(1)
            out.append(f)
        return out

    def gen_record(self, union=False):
        r = dict(kind='union' if union else 'record', name=self.uid('U' if union else 'R'),
                 deprecated=self.rng.random() < 0.1, attrs=self.gen_attrs())
        if self.rng.random() < 0.4:
            r['gtype'] = 'T' + r['name']
            r['get_type'] = 't_%s_get_type' % r['name'].lower()
        if not union and self.rng.random() < 0.1:
            r['foreign'] = True
        if self.rng.random() < 0.15:
            r['copy'] = 't_%s_copy' % r['name'].lower()
            r['free'] = 't_%s_free' % r['name'].lower()
        r['fields'] = self.gen_fields(self.rng.choice([0, 1, 2, 3, 5]), allow_cb=not union)
        r['methods'] = [self.gen_function(self.rng.choice(['method', 'constructor', 'function']), 'm')
                        for _ in range(self.rng.choice([0, 0, 1, 2, 3]))]
        self.fix_constructors(r)
        return r

    def fix_constructors(self, c):
        # the typelib validator requires a constructor to return its container type
        for m in c['methods']:
            if m['kind'] == 'constructor':
                m['ret']['type'] = ('iface', c['name'], True)
                m['ret']['skip'] = False

    def gen_enum(self):
        e = dict(kind=self.rng.choice(['enumeration', 'bitfield']), name=self.uid('E'), deprecated=self.rng.random() < 0.1,
                 attrs=self.gen_attrs())
        if self.rng.random() < 0.4:
            e['gtype'] = 'T' + e['name']
            e['get_type'] = 't_%s_get_type' % e['name'].lower()
        if e['kind'] == 'enumeration' and self.rng.random() < 0.3:
            e['domain'] = 't-%s-quark' % e['name'].lower()
        e['members'] = [dict(name='m%d' % i, value=self.rng.choice([i, i * 7, -i - 1, 1 << i, 2147483647, -2147483648]),
                             attrs=self.gen_attrs()) for i in range(self.rng.choice([0, 1, 2, 4]))]
        e['functions'] = [self.gen_function('function', 'ef') for _ in range(self.rng.choice([0, 0, 1, 2]))]
        return e

    def gen_constant(self):
        t = self.rng.choice(['gint32', 'guint32', 'gint8', 'guint8', 'gint16', 'guint16', 'gint64', 'guint64', 'gboolean',
                             'gdouble', 'gfloat', 'utf8', 'gint', 'gulong'])
        if t == 'utf8':
            v = self.rng.choice(['', 'hello', 'a "q" <b> & c', 'ü'])
            ty = ('utf8',)
        elif t == 'gboolean':
            v = self.rng.choice(['true', 'false'])
            ty = ('basic', t)
        elif t in ('gdouble', 'gfloat'):
            v = self.rng.choice(['0.5', '-1.25', '3', '1e10'])
            ty = ('basic', t)
        else:
            bits = {'8': 8, '16': 16, '32': 32, '64': 64}.get(ALIAS.get(t, t).lstrip('guint'), 32)
            signed = ALIAS.get(t, t).startswith('gint')
            lo, hi = (-(1 << (bits - 1)), (1 << (bits - 1)) - 1) if signed else (0, (1 << bits) - 1)
            v = str(self.rng.choice([lo, hi, 0, 1, min(hi, 100)]))
            ty = ('basic', t)
        return dict(kind='constant', name=self.uid('K'), type=ty, value=v, deprecated=self.rng.random() < 0.1,
                    attrs=self.gen_attrs())

    def gen_property(self):
        return dict(name=self.uid('prop-'), readable=self.rng.choice([None, True, False]),
                    writable=self.rng.random() < 0.5, construct=self.rng.random() < 0.2,
                    construct_only=self.rng.random() < 0.2, transfer=self.rng.choice([None, 'none', 'full', 'container']),
                    type=self.gen_type(1), deprecated=self.rng.random() < 0.1, attrs=self.gen_attrs())

    def gen_signal(self):
        s = dict(name=self.uid('sig-'), when=self.rng.choice([None, 'first', 'last', 'cleanup']),
                 no_recurse=self.rng.random() < 0.2, detailed=self.rng.random() < 0.2, action=self.rng.random() < 0.2,
                 no_hooks=self.rng.random() < 0.2, deprecated=self.rng.random() < 0.1, attrs=self.gen_attrs())
        s.update(self.gen_callable(3))
        s['throws'] = False
        return s

    def gen_vfunc(self, methods):
        v = dict(name=self.uid('vf'), offset=self.rng.choice([None, 0, 8, 24]), invoker=None,
                 deprecated=self.rng.random() < 0.1, attrs=self.gen_attrs())
        v.update(self.gen_callable(3))
        inst = [m for m in methods if m['kind'] == 'method']
        if inst and self.rng.random() < 0.4:
            v['invoker'] = self.rng.choice(inst)['name']
        return v

    def gen_class(self, interface=False, parents=(), ifaces=()):
        c = dict(kind='interface' if interface else 'class', name=self.uid('I' if interface else 'C'),
                 deprecated=self.rng.random() < 0.1, attrs=self.gen_attrs())
        c['gtype'] = 'T' + c['name']
        c['get_type'] = 't_%s_get_type' % c['name'].lower()
        if interface:
            c['prerequisites'] = [self.rng.choice(list(parents) + list(ifaces))] if (parents or ifaces) and self.rng.random() < 0.5 else []
            if len(parents) + len(ifaces) > 1 and self.rng.random() < 0.3:
                c['prerequisites'] = list(dict.fromkeys(c['prerequisites'] + [self.rng.choice(list(parents) + list(ifaces))]))
        else:
            c['parent'] = self.rng.choice(list(parents)) if parents and self.rng.random() < 0.6 else None
            c['abstract'] = self.rng.random() < 0.2
            c['final'] = self.rng.random() < 0.1
            c['fundamental'] = self.rng.random() < 0.1
            if c['fundamental']:
                for k in ('ref', 'unref', 'setv', 'getv'):
                    if self.rng.random() < 0.7:
                        c[k] = 't_%s_%s' % (c['name'].lower(), k)
            k = self.rng.choice([0, 0, 1, 2, 3])
            c['implements'] = self.rng.sample(list(ifaces), min(k, len(ifaces)))
            c['fields'] = self.gen_fields(self.rng.choice([0, 1, 2, 3]))
        c['properties'] = [self.gen_property() for _ in range(self.rng.choice([0, 0, 1, 2, 3]))]
        c['methods'] = [self.gen_function(self.rng.choice(['method', 'method', 'function'] + ([] if interface else ['constructor'])), 'm')
                        for _ in range(self.rng.choice([0, 1, 2, 4]))]
        c['signals'] = [self.gen_signal() for _ in range(self.rng.choice([0, 0, 1, 2]))]
        c['vfuncs'] = [self.gen_vfunc(c['methods']) for _ in range(self.rng.choice([0, 0, 1, 2]))]
        c['constants'] = []
        self.fix_constructors(c)
        # accessor annotations, both ways as the scanner writes them
        props = c['properties']
        for m in c['methods']:
            if m['kind'] == 'method' and props and self.rng.random() < 0.3:
                which = self.rng.choice(['set_property', 'get_property'])
                p = self.rng.choice(props)
                m[which] = p['name']
                if self.rng.random() < 0.8:
                    p['setter' if which == 'set_property' else 'getter'] = m['name']
        return c

    def namespace(self, n_entries):
        entries = []
        objs, ifs = [], []
        for _ in range(n_entries):
            r = self.rng.random()
            if r < 0.2:
                e = self.gen_function()
            elif r < 0.28:
                e = dict(kind='callback', name=self.uid('Cb'), deprecated=self.rng.random() < 0.1, attrs=self.gen_attrs())
                e.update(self.gen_callable())
                self.types.append((e['name'], 'callback'))
            elif r < 0.45:
                e = self.gen_record()
                self.types.append((e['name'], 'record'))
            elif r < 0.52:
                e = self.gen_record(union=True)
                self.types.append((e['name'], 'union'))
            elif r < 0.65:
                e = self.gen_enum()
                self.types.append((e['name'], 'enum'))
            elif r < 0.75:
                e = self.gen_constant()
            elif r < 0.88:
                e = self.gen_class(False, objs, ifs)
                objs.append(e['name'])
                self.types.append((e['name'], 'object'))
            else:
                e = self.gen_class(True, objs, ifs)
                ifs.append(e['name'])
                self.types.append((e['name'], 'interface'))
            entries.append(e)
        if self.rng.random() < 0.6:
            entries.append(self.gen_twins())
        return dict(name='T', version='1.0', entries=entries)

    def gen_twins(self):
        """a function whose array parameters differ in a single option each (zero-termination with the same length
        or fixed size, length index 0 against 1, fixed sizes): types the compiler may be tempted to share"""
        elem = self.rng.choice([('basic', 'gint32'), ('utf8',), ('basic', 'guint8'), ('gpointer',)])
        f = self.gen_function()
        mk = lambda i, o: dict(name='p%d' % i, dir='in', transfer='none', nullable=False, optional=False, caller_allocates=False,
                               skip=False, scope=None, closure=None, destroy=None, type=('array', elem, o), attrs={})
        f['params'] = [dict(name='p0', dir='in', transfer='none', nullable=False, optional=False, caller_allocates=False, skip=False,
                            scope=None, closure=None, destroy=None, type=('basic', 'gint32'), attrs={}),
                       dict(name='p1', dir='in', transfer='none', nullable=False, optional=False, caller_allocates=False, skip=False,
                            scope=None, closure=None, destroy=None, type=('basic', 'gint32'), attrs={}),
                       mk(2, dict(length=0, zero=True)), mk(3, dict(length=0, zero=False)), mk(4, dict(length=1, zero=False)),
                       mk(5, dict(fixed=4, zero=True)), mk(6, dict(fixed=4, zero=False)), mk(7, dict(fixed=3, zero=False)),
                       mk(8, dict(zero=True)), mk(9, dict(zero=False)), mk(10, dict(length=0)),
                       # a length parameter AND a fixed size (the scanner writes both when both are annotated)
                       mk(11, dict(length=1, fixed=4, zero=False)), mk(12, dict(length=0, fixed=3, zero=True)),
                       # a fixed size that does not fit the 16 bits the typelib has for it
                       mk(13, dict(fixed=70000, zero=False))]
        self.rng.shuffle(f['params'])
        # keep the two integers in front so that the length indices stay 0 and 1
        ints = [p for p in f['params'] if p['type'][0] == 'basic']
        arrs = [p for p in f['params'] if p['type'][0] == 'array']
        f['params'] = ints + arrs
        for i, p in enumerate(f['params']):
            p['name'] = 'p%d' % i
        return f


# ------------------------------------------------------------------ GIR rendering

def b1(v):
    return '1' if v else None


def attr_elems(e):
    return ''.join('<attribute name=%s value=%s/>' % (q(k), q(v)) for k, v in e.get('attrs', {}).items())


def callable_xml(c, instance=False):
    out = ['<return-value%s>%s%s</return-value>' % (
        attrs_xml({'transfer-ownership': c['ret']['transfer'], 'nullable': b1(c['ret']['nullable']), 'skip': b1(c['ret']['skip'])}),
        attr_elems(c['ret']), type_xml(c['ret']['type']))]
    if c['params'] or instance:
        out.append('<parameters>')
        if instance:
            out.append('<instance-parameter name="self" transfer-ownership="none"><type name="gpointer" c:type="gpointer"/></instance-parameter>')
        for p in c['params']:
            a = {'name': p['name'], 'direction': p['dir'] if p['dir'] != 'in' else None,
                 'caller-allocates': b1(p['caller_allocates']), 'transfer-ownership': p['transfer'],
                 'nullable': b1(p['nullable']), 'optional': b1(p['optional']), 'skip': b1(p['skip']), 'scope': p['scope'],
                 'closure': p['closure'], 'destroy': p['destroy']}
            out.append('<parameter%s>%s%s</parameter>' % (attrs_xml(a), attr_elems(p), type_xml(p['type'], out=p['dir'] != 'in')))
        out.append('</parameters>')
    return ''.join(out)


def function_xml(f):
    tag = f['kind']
    a = {'name': f['name'], 'c:identifier': f['cid'], 'throws': b1(f['throws']), 'deprecated': b1(f['deprecated']),
         'glib:set-property': f.get('set_property'), 'glib:get-property': f.get('get_property')}
    return '<%s%s>%s%s</%s>' % (tag, attrs_xml(a), attr_elems(f), callable_xml(f, instance=(tag == 'method')), tag)


def field_xml(f):
    a = {'name': f['name'], 'readable': None if f['readable'] is None else ('1' if f['readable'] else '0'),
         'writable': None if f['writable'] is None else ('1' if f['writable'] else '0')}
    if 'callback' in f:
        cb = f['callback']
        body = '<callback name=%s%s>%s</callback>' % (q(cb['name']), ' throws="1"' if cb['throws'] else '', callable_xml(cb))
    else:
        body = type_xml(f['type'])
    return '<field%s>%s%s</field>' % (attrs_xml(a), attr_elems(f), body)


def entry_xml(e):
    k = e['kind']
    if k == 'raw':
        return e['xml']
    dep = b1(e.get('deprecated'))
    if k == 'function':
        return function_xml(e)
    if k == 'callback':
        return '<callback%s>%s%s</callback>' % (attrs_xml({'name': e['name'], 'c:type': 'T' + e['name'], 'throws': b1(e['throws']),
                                                           'deprecated': dep}), attr_elems(e), callable_xml(e))
    if k in ('record', 'union'):
        a = {'name': e['name'], 'c:type': 'T' + e['name'], 'glib:type-name': e.get('gtype'), 'glib:get-type': e.get('get_type'),
             'foreign': b1(e.get('foreign')), 'copy-function': e.get('copy'), 'free-function': e.get('free'), 'deprecated': dep,
             'glib:is-gtype-struct-for': e.get('gtype_struct_for')}
        return '<%s%s>%s%s%s</%s>' % (k, attrs_xml(a), attr_elems(e), ''.join(field_xml(f) for f in e['fields']),
                                      ''.join(function_xml(m) for m in e['methods']), k)
    if k in ('enumeration', 'bitfield'):
        a = {'name': e['name'], 'c:type': 'T' + e['name'], 'glib:type-name': e.get('gtype'), 'glib:get-type': e.get('get_type'),
             'glib:error-domain': e.get('domain'), 'deprecated': dep}
        ms = ''.join('<member name=%s value="%d" c:identifier="T_%s_%s">%s</member>' % (q(m['name']), m['value'], e['name'].upper(),
                                                                                      m['name'].upper(), attr_elems(m))
                     for m in e['members'])
        return '<%s%s>%s%s%s</%s>' % (k, attrs_xml(a), attr_elems(e), ms, ''.join(function_xml(f) for f in e['functions']), k)
    if k == 'constant':
        return '<constant%s>%s%s</constant>' % (attrs_xml({'name': e['name'], 'value': e['value'], 'c:type': 'T_' + e['name'],
                                                           'deprecated': dep}), attr_elems(e), type_xml(e['type']))
    if k in ('class', 'interface'):
        a = {'name': e['name'], 'c:type': 'T' + e['name'], 'glib:type-name': e['gtype'], 'glib:get-type': e['get_type'],
             'deprecated': dep, 'glib:type-struct': e.get('type_struct')}
        if k == 'class':
            a.update({'parent': ('T.' + e['parent']) if e['parent'] else None, 'abstract': b1(e['abstract']), 'final': b1(e['final']),
                      'glib:fundamental': b1(e['fundamental']), 'glib:ref-func': e.get('ref'), 'glib:unref-func': e.get('unref'),
                      'glib:set-value-func': e.get('setv'), 'glib:get-value-func': e.get('getv')})
        out = ['<%s%s>' % (k, attrs_xml(a)), attr_elems(e)]
        if k == 'class':
            out += ['<implements name="T.%s"/>' % i for i in e['implements']]
            out += [field_xml(f) for f in e['fields']]
        else:
            out += ['<prerequisite name="T.%s"/>' % i for i in e['prerequisites']]
        for p in e['properties']:
            pa = {'name': p['name'], 'readable': None if p['readable'] is None else ('1' if p['readable'] else '0'),
                  'writable': b1(p['writable']), 'construct': b1(p['construct']), 'construct-only': b1(p['construct_only']),
                  'transfer-ownership': p['transfer'], 'deprecated': b1(p['deprecated']), 'setter': p.get('setter'),
                  'getter': p.get('getter')}
            out.append('<property%s>%s%s</property>' % (attrs_xml(pa), attr_elems(p), type_xml(p['type'])))
        out += [function_xml(m) for m in e['methods']]
        for s in e['signals']:
            sa = {'name': s['name'], 'when': s['when'], 'no-recurse': b1(s['no_recurse']), 'detailed': b1(s['detailed']),
                  'action': b1(s['action']), 'no-hooks': b1(s['no_hooks']), 'deprecated': b1(s['deprecated'])}
            out.append('<glib:signal%s>%s%s</glib:signal>' % (attrs_xml(sa), attr_elems(s), callable_xml(s)))
        for v in e['vfuncs']:
            va = {'name': v['name'], 'offset': v['offset'], 'invoker': v['invoker'], 'throws': b1(v['throws']),
                  'deprecated': b1(v['deprecated'])}
            out.append('<virtual-method%s>%s%s</virtual-method>' % (attrs_xml(va), attr_elems(v), callable_xml(v, instance=True)))
        out.append('</%s>' % k)
        return ''.join(out)
    raise ValueError(k)


# the two included namespaces: both have a record Item and a record Handle; X.Handle is a pointer="1" record
INCLUDED = {
    'X': '<?xml version="1.0"?>\n<repository version="1.2" xmlns="http://www.gtk.org/introspection/core/1.0" '
         'xmlns:c="http://www.gtk.org/introspection/c/1.0" xmlns:glib="http://www.gtk.org/introspection/glib/1.0">\n'
         '<namespace name="X" version="1.0" shared-library="libx.so" c:identifier-prefixes="X" c:symbol-prefixes="x">\n'
         '<record name="Item" c:type="XItem"><field name="a" writable="1"><type name="gint32" c:type="gint32"/></field></record>\n'
         '<record name="Other" c:type="XOther"><field name="b" writable="1"><type name="gdouble" c:type="gdouble"/></field></record>\n'
         '<record name="Handle" c:type="XHandle" disguised="1" pointer="1"/>\n</namespace>\n</repository>\n',
    'Y': '<?xml version="1.0"?>\n<repository version="1.2" xmlns="http://www.gtk.org/introspection/core/1.0" '
         'xmlns:c="http://www.gtk.org/introspection/c/1.0" xmlns:glib="http://www.gtk.org/introspection/glib/1.0">\n'
         '<namespace name="Y" version="1.0" shared-library="liby.so" c:identifier-prefixes="Y" c:symbol-prefixes="y">\n'
         '<record name="Item" c:type="YItem"><field name="c" writable="1"><type name="gint8" c:type="gint8"/></field>'
         '<field name="d" writable="1"><type name="gint64" c:type="gint64"/></field></record>\n'
         '<record name="Handle" c:type="YHandle"><field name="e" writable="1"><type name="gint16" c:type="gint16"/></field></record>\n'
         '</namespace>\n</repository>\n',
    # a namespace whose name begins with the name of ANOTHER included namespace (GstBase beside Gst) and that has a record of the
    # same name: a reference to X.Item is not a reference to XB.Item, whichever is met first
    'XB': '<?xml version="1.0"?>\n<repository version="1.2" xmlns="http://www.gtk.org/introspection/core/1.0" '
          'xmlns:c="http://www.gtk.org/introspection/c/1.0" xmlns:glib="http://www.gtk.org/introspection/glib/1.0">\n'
          '<namespace name="XB" version="1.0" shared-library="libxb.so" c:identifier-prefixes="XB" c:symbol-prefixes="xb">\n'
          '<record name="Item" c:type="XBItem"><field name="z" writable="1"><type name="gint16" c:type="gint16"/></field></record>\n'
          '</namespace>\n</repository>\n',
    # a namespace whose name begins with the name of the including namespace T (Gdk includes GdkPixbuf)
    'TX': '<?xml version="1.0"?>\n<repository version="1.2" xmlns="http://www.gtk.org/introspection/core/1.0" '
          'xmlns:c="http://www.gtk.org/introspection/c/1.0" xmlns:glib="http://www.gtk.org/introspection/glib/1.0">\n'
          '<namespace name="TX" version="1.0" shared-library="libtx.so" c:identifier-prefixes="TX" c:symbol-prefixes="tx">\n'
          '<record name="Pix" c:type="TXPix"><field name="a" writable="1"><type name="gint32" c:type="gint32"/></field></record>\n'
          '</namespace>\n</repository>\n'}

# an alias (and an alias of it) of a pointer="1" record of the same namespace: a value of the alias type is a pointer
ALIAS_FIXTURE = [
    dict(kind='raw', name='Selection', xml='<alias name="Selection" c:type="TSelection"><type name="Atom" c:type="TAtom"/></alias>', dump=[]),
    dict(kind='raw', name='Sel2', xml='<alias name="Sel2" c:type="TSel2"><type name="Selection" c:type="TSelection"/></alias>', dump=[]),
    dict(kind='raw', name='Atom', xml='<record name="Atom" c:type="TAtom" disguised="1" pointer="1"/>',
         dump=['E struct Atom dep=0 gtype=- init=- isgts=0 foreign=0 size=? align=? copy=- free=-']),
    dict(kind='raw', name='owner_set',
         xml='<function name="owner_set" c:identifier="t_owner_set"><return-value transfer-ownership="none"><type name="Selection" c:type="TSelection"/>'
             '</return-value><parameters><parameter name="selection" transfer-ownership="none"><type name="T.Selection" c:type="TSelection"/></parameter>'
             '<parameter name="atom" transfer-ownership="none"><type name="Atom" c:type="TAtom"/></parameter>'
             '<parameter name="s2" transfer-ownership="none"><type name="Sel2" c:type="TSel2"/></parameter>'
             '<parameter name="l" transfer-ownership="none"><type name="GLib.List" c:type="GList*"><type name="Selection"/></type></parameter>'
             '</parameters></function>',
         dump=['E function owner_set dep=0 sym=t_owner_set flags=0 prop=- vfunc=-',
               '  R transfer=0 null=0 skip=0 throws=0 method=0 type=iface(T.Atom,ptr=1)'] +
              ['  A %s dir=0 transfer=0 null=0 opt=0 calleralloc=0 skip=0 ret=0 scope=0 closure=-1 destroy=-1 type=%s' % (n_, t_)
               for n_, t_ in (('selection', 'iface(T.Atom,ptr=1)'), ('atom', 'iface(T.Atom,ptr=1)'), ('s2', 'iface(T.Atom,ptr=1)'),
                              ('l', 'glist(iface(T.Atom,ptr=1))'))])]


def to_gir(ns, includes=()):
    head = ('<?xml version="1.0"?>\n<repository version="1.2" xmlns="http://www.gtk.org/introspection/core/1.0" '
            'xmlns:c="http://www.gtk.org/introspection/c/1.0" xmlns:glib="http://www.gtk.org/introspection/glib/1.0">\n')
    inc = ''.join('<include name="%s" version="%s"/>\n' % i for i in includes)
    return (head + inc + '<namespace name="%s" version="%s" shared-library="libt.so" c:identifier-prefixes="T" '
            'c:symbol-prefixes="t">\n' % (ns['name'], ns['version'])
            + '\n'.join(entry_xml(e) for e in ns['entries']) + '\n</namespace>\n</repository>\n')


# ------------------------------------------------------------------ expected API dump

def exp_attrs(e, d, out):
    for k, v in e.get('attrs', {}).items():
        out.append('  ' * d + 'T %s=%s byname=%s' % (k, v, v))


def exp_callable(c, d, out, method=False, throws=None):
    r = c['ret']
    th = c['throws'] if throws is None else throws
    out.append('  ' * d + 'R transfer=%d null=%d skip=%d throws=%d method=%d type=%s'
               % (TRANSFER[r['transfer']], r['nullable'], r['skip'], th, method, type_str(r['type'])))
    exp_attrs(r, d + 1, out)
    for p in c['params']:
        out.append('  ' * d + 'A %s dir=%d transfer=%d null=%d opt=%d calleralloc=%d skip=%d ret=0 scope=%d closure=%d destroy=%d type=%s'
                   % (p['name'], DIR[p['dir']], TRANSFER[p['transfer']], p['nullable'], p['optional'],
                      1 if (p['caller_allocates'] and p['dir'] == 'out') else 0, p['skip'], SCOPE[p['scope']],
                      -1 if p['closure'] is None else p['closure'], -1 if p['destroy'] is None else p['destroy'],
                      type_str(p['type'])))
        exp_attrs(p, d + 1, out)


def exp_function(f, d, out, container=None):
    flags = 0
    if f['kind'] in ('method', 'constructor'):
        flags |= 1 if f['kind'] == 'method' else 0
    if f['kind'] == 'constructor':
        flags |= 2
    prop = '-'
    if f['kind'] == 'method' and f.get('set_property'):
        flags |= 8
        prop = f['set_property']
    elif f['kind'] == 'method' and f.get('get_property'):
        flags |= 4
        prop = f['get_property']
    vf = '-'        # GI_FUNCTION_WRAPS_VFUNC is never set from GIR (the link is stored on the vfunc side)
    if f['throws']:
        flags |= 32
    out.append('  ' * d + 'E function %s dep=%d sym=%s flags=%d prop=%s vfunc=%s' % (f['name'], f['deprecated'], f['cid'], flags, prop, vf))
    exp_callable(f, d + 1, out, method=(f['kind'] == 'method'))
    exp_attrs(f, d + 1, out)


def exp_field(f, d, out, offset='?', size='?'):
    flags = (1 if (f['readable'] is None or f['readable']) else 0) | (2 if f['writable'] else 0)
    if 'callback' in f:
        t = 'iface(T.%s,ptr=0)' % f['name']
    else:
        t = type_str(f['type'], in_field=True)
    out.append('  ' * d + 'F %s flags=%d offset=%s size=0 type=%s' % (f['name'], flags, offset, t))
    if 'callback' in f:
        cb = f['callback']
        out.append('  ' * (d + 1) + 'E callback %s dep=0' % cb['name'])
        exp_callable(cb, d + 2, out)
    exp_attrs(f, d + 1, out)


def exp_entry(e, d, out):
    k = e['kind']
    if k == 'raw':
        out.extend(e['dump'])
        return
    dep = 1 if e.get('deprecated') else 0
    if k == 'function':
        exp_function(e, d, out)
        return
    if k == 'callback':
        out.append('  ' * d + 'E callback %s dep=%d' % (e['name'], dep))
        exp_callable(e, d + 1, out)
    elif k in ('record', 'union'):
        reg = ' gtype=%s init=%s' % (e.get('gtype') or '-', e.get('get_type') or '-')
        if k == 'record':
            out.append('  ' * d + 'E struct %s dep=%d%s isgts=%d foreign=%d size=? align=? copy=%s free=%s'
                       % (e['name'], dep, reg, 1 if e.get('gtype_struct_for') else 0, 1 if e.get('foreign') else 0,
                          e.get('copy') or '-', e.get('free') or '-'))
        else:
            out.append('  ' * d + 'E union %s dep=%d%s size=? align=? copy=%s free=%s'
                       % (e['name'], dep, reg, e.get('copy') or '-', e.get('free') or '-'))
        for f in e['fields']:
            exp_field(f, d + 1, out)
        for m in e['methods']:
            exp_function(m, d + 1, out)
    elif k in ('enumeration', 'bitfield'):
        out.append('  ' * d + 'E %s %s dep=%d gtype=%s init=%s storage=? domain=%s'
                   % ('enum' if k == 'enumeration' else 'flags', e['name'], dep, e.get('gtype') or '-', e.get('get_type') or '-',
                      e.get('domain') or '-'))
        for m in e['members']:
            out.append('  ' * (d + 1) + 'V %s %d dep=0' % (m['name'], m['value']))
            out.append('  ' * (d + 2) + 'T c:identifier=T_%s_%s byname=T_%s_%s' % ((e['name'].upper(), m['name'].upper()) * 2))
            exp_attrs(m, d + 2, out)
        for f in e['functions']:
            exp_function(f, d + 1, out)
    elif k == 'constant':
        t = e['type']
        tn = ALIAS.get(t[1], t[1]) if t[0] == 'basic' else 'utf8'
        if tn == 'utf8':
            v = '<%s>' % e['value']
        elif tn == 'gboolean':
            v = '1' if e['value'] == 'true' else '0'
        elif tn in ('gdouble', 'gfloat'):
            import struct
            x = float(e['value'])
            v = ('f%08x' % struct.unpack('<I', struct.pack('<f', x))[0]) if tn == 'gfloat' else \
                ('d%016x' % struct.unpack('<Q', struct.pack('<d', x))[0])
        else:
            v = e['value']
        out.append('  ' * d + 'E constant %s dep=%d type=%s value=%s' % (e['name'], dep, type_str(t), v))
    elif k == 'class':
        out.append('  ' * d + 'E object %s dep=%d gtype=%s init=%s parent=%s abstract=%d fundamental=%d final=%d cls=%s ref=%s unref=%s setv=%s getv=%s'
                   % (e['name'], dep, e['gtype'], e['get_type'], ('T.' + e['parent']) if e['parent'] else '-.-', e['abstract'],
                      e['fundamental'], e['final'], e.get('type_struct') or '-', e.get('ref') or '-', e.get('unref') or '-',
                      e.get('setv') or '-', e.get('getv') or '-'))
        for i in e['implements']:
            out.append('  ' * (d + 1) + 'I T.%s' % i)
        for f in e['fields']:
            exp_field(f, d + 1, out)
        exp_members(e, d, out)
    elif k == 'interface':
        out.append('  ' * d + 'E interface %s dep=%d gtype=%s init=%s cls=%s' % (e['name'], dep, e['gtype'], e['get_type'], e.get('type_struct') or '-'))
        for i in e['prerequisites']:
            out.append('  ' * (d + 1) + 'I T.%s' % i)
        exp_members(e, d, out)
    exp_attrs(e, d + 1, out)


def exp_members(e, d, out):
    for p in e['properties']:
        flags = (1 if (p['readable'] is None or p['readable']) else 0) | (2 if p['writable'] else 0) | \
            (4 if p['construct'] else 0) | (8 if p['construct_only'] else 0)
        # g_property_info_get_setter/_getter answer only for writable (not construct-only) / readable properties
        setter = (p.get('setter') or '-') if (p['writable'] and not p['construct_only']) else '-'
        getter = (p.get('getter') or '-') if (p['readable'] is None or p['readable']) else '-'
        out.append('  ' * (d + 1) + 'E property %s dep=%d flags=%d transfer=%d setter=%s getter=%s type=%s'
                   % (p['name'], p['deprecated'], flags, TRANSFER[p['transfer'] or 'none'], setter, getter, type_str(p['type'])))
        exp_attrs(p, d + 2, out)
    for m in e['methods']:
        exp_function(m, d + 1, out, container=e)
    for s in e['signals']:
        flags = SIGFLAGS.get(s['when'], 0) | (8 if s['no_recurse'] else 0) | (16 if s['detailed'] else 0) | \
            (32 if s['action'] else 0) | (64 if s['no_hooks'] else 0)
        out.append('  ' * (d + 1) + 'E signal %s dep=%d flags=%d stops=0 clos=-' % (s['name'], s['deprecated'], flags))
        exp_callable(s, d + 2, out, method=True)
        exp_attrs(s, d + 2, out)
    for v in e['vfuncs']:
        flags = 8 if v['throws'] else 0
        # VFuncBlob has no deprecated bit
        out.append('  ' * (d + 1) + 'E vfunc %s dep=0 flags=%d offset=%d invoker=%s signal=-'
                   % (v['name'], flags, 0xFFFF if v['offset'] is None else v['offset'], v['invoker'] or '-'))
        exp_callable(v, d + 2, out, method=True)
        exp_attrs(v, d + 2, out)


def expected_dump(ns):
    out = []
    for e in ns['entries']:
        exp_entry(e, 0, out)
    return out


# a namespace GLib with definitions whose names begin with the names of the built-in containers, and a document that uses them by
# value and by pointer: they are ordinary records and enumerations, not GHashTable / GError / GList
GLIB_NAMES_DEP = ('<?xml version="1.0"?>\n<repository version="1.2" xmlns="http://www.gtk.org/introspection/core/1.0" '
                  'xmlns:c="http://www.gtk.org/introspection/c/1.0" xmlns:glib="http://www.gtk.org/introspection/glib/1.0">\n'
                  '<namespace name="GLib" version="2.0" shared-library="libglib-2.0.so.0" c:identifier-prefixes="G" c:symbol-prefixes="g,glib">\n'
                  '<record name="HashTable" c:type="GHashTable" disguised="1" opaque="1"/>\n'
                  '<record name="HashTableIter" c:type="GHashTableIter">' +
                  ''.join('<field name="dummy%d" readable="0" private="1"><type name="gpointer" c:type="gpointer"/></field>' % i_ for i_ in range(1, 6)) +
                  '</record>\n<enumeration name="ErrorType" c:type="GErrorType"><member name="unknown" value="0" c:identifier="G_ERR_UNKNOWN"/></enumeration>\n'
                  '<record name="List" c:type="GList"/>\n<record name="SListNode" c:type="GSListNode"><field name="a" writable="1"><type name="gint32" c:type="gint32"/></field></record>\n'
                  '<record name="ListStoreish" c:type="GListStoreish"><field name="a" writable="1"><type name="gint32" c:type="gint32"/></field></record>\n'
                  '</namespace>\n</repository>\n')
GLIB_NAMES_DOC = ('<?xml version="1.0"?>\n<repository version="1.2" xmlns="http://www.gtk.org/introspection/core/1.0" '
                  'xmlns:c="http://www.gtk.org/introspection/c/1.0" xmlns:glib="http://www.gtk.org/introspection/glib/1.0">\n'
                  '<include name="GLib" version="2.0"/>\n'
                  '<namespace name="U" version="1.0" shared-library="libu.so" c:identifier-prefixes="U" c:symbol-prefixes="u">\n'
                  '<record name="Walker" c:type="UWalker">'
                  '<field name="n" writable="1"><type name="gint32" c:type="gint32"/></field>'
                  '<field name="iter" writable="1"><type name="GLib.HashTableIter" c:type="GHashTableIter"/></field>'
                  '<field name="kind" writable="1"><type name="GLib.ErrorType" c:type="GErrorType"/></field>'
                  '<field name="table" writable="1"><type name="GLib.HashTable" c:type="GHashTable*"><type name="utf8"/><type name="gint32"/></type></field>'
                  '</record>\n'
                  '<function name="walk" c:identifier="u_walk"><return-value transfer-ownership="none"><type name="none" c:type="void"/></return-value>'
                  '<parameters><parameter name="iter" transfer-ownership="none"><type name="GLib.HashTableIter" c:type="GHashTableIter*"/></parameter>'
                  '<parameter name="kind" transfer-ownership="none"><type name="GLib.ErrorType" c:type="GErrorType"/></parameter>'
                  '<parameter name="ls" transfer-ownership="none"><type name="GLib.ListStoreish" c:type="GListStoreish*"/></parameter>'
                  '<parameter name="sn" transfer-ownership="none"><type name="GLib.SListNode" c:type="GSListNode*"/></parameter>'
                  '<parameter name="l" transfer-ownership="none"><type name="GLib.List" c:type="GList*"><type name="GLib.ListStoreish"/></type></parameter>'
                  '</parameters></function>\n</namespace>\n</repository>\n')
GLIB_NAMES_DUMP = [
    'E struct Walker dep=0 gtype=- init=- isgts=0 foreign=0 size=? align=? copy=- free=-',
    '  F n flags=3 offset=? size=0 type=gint32',
    '  F iter flags=3 offset=? size=0 type=iface(GLib.HashTableIter,ptr=0)',
    '  F kind flags=3 offset=? size=0 type=iface(GLib.ErrorType,ptr=0)',
    '  F table flags=3 offset=? size=0 type=ghash(utf8*,gint32)',
    'E function walk dep=0 sym=u_walk flags=0 prop=- vfunc=-',
    '  R transfer=0 null=0 skip=0 throws=0 method=0 type=void'] + [
    '  A %s dir=0 transfer=0 null=0 opt=0 calleralloc=0 skip=0 ret=0 scope=0 closure=-1 destroy=-1 type=%s' % (n_, t_)
    for n_, t_ in (('iter', 'iface(GLib.HashTableIter,ptr=1)'), ('kind', 'iface(GLib.ErrorType,ptr=0)'), ('ls', 'iface(GLib.ListStoreish,ptr=1)'),
                   ('sn', 'iface(GLib.SListNode,ptr=1)'), ('l', 'glist(iface(GLib.ListStoreish,ptr=0))'))]


BOTH_RE = None


def both_dimensions(exp, got):
    """Known finding (C06-K1/C09-K1): the typelib format has room for ONE dimension of a C array; for an array with a length
    parameter and a fixed size the compiler stores the length and no size.  Expected lines of that shape whose size-less
    form is what was reported are replaced by it, so that everything else is still compared.  Returns (exp', hits)."""
    import re
    gots = {}
    for l in got:
        gots[l] = gots.get(l, 0) + 1
    out, hits = [], []
    for l in exp:
        m = re.search(r'array\[0,zero=\d,len=(\d+),fixed=(\d+)', l)
        if m and gots.get(l, 0) == 0:
            alt = l[:m.start(2)] + '-1' + l[m.end(2):]
            if gots.get(alt, 0) > 0:
                gots[alt] -= 1
                out.append(alt)
                hits.append(dict(finding='K1', expected=l.strip(), reported=alt.strip()))
                continue
        # K2: a fixed size of 2**16 or more is stored modulo 2**16
        m = re.search(r'array\[0,zero=\d,len=-1,fixed=(\d+)', l)
        if m and int(m.group(1)) >= 65536 and gots.get(l, 0) == 0:
            alt = l[:m.start(1)] + str(int(m.group(1)) % 65536) + l[m.end(1):]
            if gots.get(alt, 0) > 0:
                gots[alt] -= 1
                out.append(alt)
                hits.append(dict(finding='K2', expected=l.strip(), reported=alt.strip()))
                continue
        if l in gots and gots[l] > 0:
            gots[l] -= 1
        out.append(l)
    return out, hits
