"""C13 — enumeration members and constants keep correct names, types and values."""
import os
import random
import sys

from common import Check, coq_eval, parse_defs, parse_nlist, cstr, clist, cbool, copt

WORDS = ['FOO', 'BAR', 'KIND', 'A', 'B', 'ALPHA', 'BETA', 'X2', 'MODE', 'FLAG', 'FO', 'FOOD', 'Foo', 'foo', 'Z9']
INT_TYPES = ['guint8', 'guint16', 'guint32', 'guint64', 'gint8', 'gint16', 'gint32', 'gint64', 'gint', 'guint',
             'glong', 'gulong', 'gsize', 'gssize', 'uint8_t', 'uint16_t', 'uint32_t', 'uint64_t', 'int32_t',
             'gushort', 'guchar', 'gchar', 'gunichar', 'goffset', 'guintptr', 'gintptr', None, 'FooByte', 'FooWord', 'FooBig', 'FooPlain',
             'FooWord2', 'FooByte3']
ALIASES = {'FooByte': 'guint8', 'FooWord': 'guint16', 'FooBig': 'guint64', 'FooPlain': 'gint', 'FooWord2': 'FooWord', 'FooByte3': 'FooByte2',
           'FooByte2': 'FooByte'}      # the last three: typedefs of typedefs


def alias_base(t):
    while t in ALIASES:
        t = ALIASES[t]
    return t
VALUES = [0, 1, -1, 255, 256, 300, 65535, 65536, 70000, 2 ** 31, 2 ** 32, 2 ** 32 + 5, -2 ** 31, 2 ** 63, 2 ** 64 - 1,
          2 ** 64, 2 ** 64 + 7, -2 ** 63, -300, 12345678901234567890]


def gen_enum(rng, prefixes):
    r = rng.random()
    nmem = rng.choice([0, 1, 2, 2, 3, 3, 4, 6])
    nsword = rng.choice(prefixes).upper().rstrip('_')
    if r < 0.45:
        shared = [nsword] + [rng.choice(WORDS) for _ in range(rng.choice([0, 1, 1, 2]))]
    elif r < 0.6:
        shared = [rng.choice(WORDS) for _ in range(rng.choice([1, 2]))]
    else:
        shared = []
    idents = []
    for i in range(nmem):
        tail = [rng.choice(WORDS) for _ in range(rng.choice([1, 1, 2]))]
        if rng.random() < 0.7:
            tail[0] = tail[0] + str(i)      # distinct first tail word: no shared tail, no prefix relation
        head = list(shared)
        if not shared and rng.random() < 0.75:
            head = [rng.choice(prefixes).upper().rstrip('_')] if len(prefixes) > 1 or rng.random() < 0.3 else head
            if not head and rng.random() < 0.5:
                head = [rng.choice(['OTHER', 'X'])]
        w = head + tail
        rr = rng.random()
        if rr < 0.04:
            w = w[:-1] or w        # may become a word-prefix of another member
        elif rr < 0.07:
            w.insert(rng.randrange(len(w) + 1), '')
        elif rr < 0.09:
            w = [x.lower() for x in w]
        ident = '_'.join(w)
        if not ident or ident == '_':
            ident = 'FOO_X%d' % i
        idents.append(ident)
    if rng.random() < 0.12:
        # one member whose last word another member extends and a third continues with a further word
        # (FOO_STYLE_BOLD, FOO_STYLE_BOLDER, FOO_STYLE_BOLD_ITALIC): what all share ends before that word
        base = [nsword] + [rng.choice(WORDS) for _ in range(rng.choice([0, 1]))]
        w = rng.choice(['BOLD', 'TEX2D', 'A', 'MODE'])
        idents = ['_'.join(base + [w]), '_'.join(base + [w + rng.choice(['ER', 'X', '2', 'MS'])]), '_'.join(base + [w, rng.choice(['ITALIC', 'ARRAY', 'B'])])]
        if rng.random() < 0.4:
            idents.append('_'.join(base + [rng.choice(['OTHER', 'Z9'])]))
        rng.shuffle(idents)
    members = [(i, rng.choice(VALUES) if rng.random() < 0.3 else rng.randint(-5, 40), rng.random() < 0.1)
               for i in idents]
    return members, rng.random() < 0.3


def run_batch(enums, consts, prefixes, unpref, passes=False, comments=(), aliases_last=False):
    from scanner import (run, enum_typedef, const, td, FS, CSYMBOL_TYPE_TYPEDEF, CORE, CNS, gir_ns)
    syms = []
    alias_syms = [FS(CSYMBOL_TYPE_TYPEDEF, a, base_type=td(t)) for a, t in ALIASES.items()]
    if not aliases_last:
        syms += alias_syms
    for i, (members, bitfield) in enumerate(enums):
        syms.append(enum_typedef('FooE%d' % i, members, bitfield=bitfield, line=10 * i + 1))
    for i, (kind, ty, val) in enumerate(consts):
        kw = {'const_int': val} if kind == 'int' else {'const_string': val} if kind == 'str' else \
            {'const_boolean': val} if kind == 'bool' else {'const_double': val}
        syms.append(const('FOO_K%d' % i, td(ty) if ty else None, **kw))
    if aliases_last:
        syms += alias_syms       # the typedefs the constants are cast to are declared after them
    r = run(syms, symbol_prefixes=list(prefixes), accept_unprefixed=unpref, passes=passes, warnings=False, comments=list(comments))
    ns = gir_ns(r.root)
    eobs = {}
    for el in ns:
        tag = el.tag.replace(CORE, '')
        if tag in ('enumeration', 'bitfield'):
            ct = el.get(CNS + 'type')
            eobs[ct] = (tag, el.get('name'),
                        [(m.get('name'), m.get('value'), m.get(CNS + 'identifier')) for m in el.findall(CORE + 'member')])
    kobs = {}
    for el in ns.findall(CORE + 'constant'):
        t = el.find(CORE + 'type')
        kobs[el.get(CNS + 'type')] = (el.get('name'), el.get('value'), t.get('name') if t is not None else None)
    return eobs, kobs


def registered_enum_clauses(ck, rng, n):
    """enumerations and flags types that are registered with the type system: the runtime dump knows their members by nick,
    hand-written value name and value as a C int; the header knows the identifier and the exact value.  The GIR keeps identifier
    and value of the header (1u << 31 is 2147483648, not -2147483648), named by the nick"""
    import xml.etree.ElementTree as ET
    import scanner as S
    WORDS2 = ['none', 'keep', 'above', 'high', 'bit', 'all', 'mask', 'x2', 'fast', 'path']
    for i in range(n):
        flags = rng.random() < 0.5
        tn = 'FooWin%s' % ('Flags' if flags else 'Mode')
        up = 'FOO_WIN_%s_' % ('FLAGS' if flags else 'MODE')
        members, used = [], set()
        for j in range(rng.randint(2, 5)):
            ws = [rng.choice(WORDS2) for _ in range(rng.choice([1, 2, 2, 3]))]
            ws[0] += str(j)         # no word shared by all members beyond the type's own (glib-mkenums derives the nicks the same way)
            if '_'.join(ws) in used:
                continue
            used.add('_'.join(ws))
            v = rng.choice([j, 1 << j, 2147483648, 4294967295, 3000000000, -1 if not flags else 7, 2147483647])
            members.append((up + '_'.join(ws).upper(), v, '-'.join(ws)))
        gt = 'foo_win_%s_get_type' % ('flags' if flags else 'mode')
        dm = []
        for ident, v, nick in members:
            iv = v - (1 << 32) if v >= (1 << 31) else v        # what a GEnumValue (gint) holds
            vname = ident if rng.random() < 0.7 else rng.choice(['Keep above others', 'legacy-name', ident.lower()])
            dm.append('<member name="%s" nick="%s" value="%d"/>' % (vname, nick, iv))
        dump = '<?xml version="1.0"?><dump><%s name="%s" get-type="%s">%s</%s></dump>' % ('flags' if flags else 'enum', tn, gt, ''.join(dm),
                                                                                           'flags' if flags else 'enum')
        syms = [S.enum_typedef(tn, [(ident, v, False) for ident, v, _ in members], bitfield=flags, line=10), S.func(gt, S.td('GType'), [], line=30)]
        case = dict(header='typedef enum { %s } %s;' % (', '.join('%s = %d' % (a, b) for a, b, _ in members), tn), dump=dump)
        try:
            r = S.run(syms, includes=['GLib', 'GObject'], dump=ET.ElementTree(ET.fromstring(dump)), warnings=False)
        except (Exception, SystemExit) as e:      # noqa
            ck.failing_input('the scanner fails on a registered enumeration: %r' % (e,), case)
            continue
        ns = S.gir_ns(r.root)
        el = next((x for x in ns if x.get(S.CNS + 'type') == tn), None)
        ck.count_case(dict(type=tn, members=[m_[0] for m_ in members]), kind='registered-enum')
        want = [(nick.replace('-', '_'), str(v), ident) for ident, v, nick in members]
        got = None if el is None else [(m_.get('name'), m_.get('value'), m_.get(S.CNS + 'identifier')) for m_ in el.findall(S.CORE + 'member')]
        if el is None or el.tag != S.CORE + ('bitfield' if flags else 'enumeration') or got != want:
            ck.failing_input('the members of a registered enumeration do not carry the identifiers and values of the header', case,
                             detail=dict(expected=want, got=got, element=None if el is None else el.tag.replace(S.CORE, '')))


def cmember(m):
    return '{| m_ident := %s; m_value := (%d)%%Z; m_private := %s |}' % (cstr(m[0]), m[1], cbool(m[2]))


def main(tier, seed):
    ck = Check('C13', tier, seed)
    ck.assumptions += ['C identifiers are ASCII (str.lower modelled on ASCII)',
                       'one namespace, no includes: _strip_symbol sees only the namespace\'s own symbol prefixes',
                       'the lexer\'s const_int/is_bitfield/private attributes are taken as given (C lexer not built here)']
    ck.prove(['gen_c13.py'], models=['Model/C13Spec.vo'])
    rng = random.Random(seed)
    nb = 40 if tier == 'quick' else 600
    ecases, kcases = [], []
    registered_enum_clauses(ck, rng, 25 if tier == 'quick' else 300)
    for b in range(nb):
        prefixes = rng.choice([['foo'], ['foo'], ['foo', 'bar'], ['foo_'], ['fo', 'foo']])
        unpref = rng.random() < 0.15
        enums = [gen_enum(rng, prefixes) for _ in range(15)]
        if b == 0:   # corpus
            enums[0] = ([('FOO_KIND_ALPHA', 0, False), ('FOO_KIND_BETA', 1, False)], False)
            enums[1] = ([('ALPHA_X', 0, False), ('BETA_Y', 1, False)], False)
            enums[2] = ([('FOO_ALPHA_X', 0, False), ('BAR_BETA_Y', 1, False)], True)
            enums[3] = ([('FOO_ONLY', 3, False)], False)
        consts = []
        for _ in range(25):
            r = rng.random()
            if r < 0.8:
                consts.append(('int', rng.choice(INT_TYPES), rng.choice(VALUES) if rng.random() < 0.7
                               else rng.randint(-1000, 100000)))
            elif r < 0.9:
                consts.append(('str', None, ''.join(rng.choice('ab "<&\'\\n\té%') for _ in range(rng.randint(0, 6)))))
            else:
                consts.append(('bool', None, rng.random() < 0.5))
        if b == 0:
            consts[0] = ('int', 'guint8', 300)
            consts[1] = ('int', 'guint', -1)
        eobs, kobs = run_batch(enums, consts, prefixes, unpref)
        # the same constants again through the annotation passes, a third of them with a GTK-Doc block of their own
        # (no (value) annotation): documenting a constant must not change it
        documented = [i for i in range(len(consts)) if i % 3 == b % 3]
        comments = [('/**\n * FOO_K%d:\n *\n * The constant number %d.\n */' % (i, i), '/src/foo.h', 1000 + 10 * i) for i in documented]
        try:
            _, kobs2 = run_batch([], consts, prefixes, unpref, passes=True, comments=comments)
            # once more with the typedefs declared after the constants that are cast to them.  The real lexer parses macros after
            # all declarations, so this order is a property of the Python passes only; only the type name is judged in it
            # (at creation the constant cannot know the width of a type declared later, so its value is as written)
            _, kobs3 = run_batch([], consts, prefixes, unpref, passes=True, aliases_last=True)
        except (Exception, SystemExit) as e:      # noqa
            ck.failing_input('the scanner fails on documented constants: %r' % (e,), dict(consts=consts, documented=documented))
            kobs2 = None
        if kobs2 is not None:
            for i, (kind, ty, val) in enumerate(consts):
                for order, ko in (('before', kobs2), ('after', kobs3)):
                    b2 = ko.get('FOO_K%d' % i)
                    if kind == 'int' and ty in ALIASES and b2 is not None and b2[2] != ty[3:]:
                        ck.failing_input('a constant cast to a typedef of the namespace does not name that type (typedef declared %s the constant)'
                                         % order, dict(kind=kind, type=ty, value=val), detail=b2)
            for i in documented:
                a, b2 = kobs.get('FOO_K%d' % i), kobs2.get('FOO_K%d' % i)
                if a is not None and (b2 is None or b2[1] != a[1]):
                    ck.failing_input('a constant with a comment block of its own (and no (value) annotation) loses or changes its value',
                                     dict(kind=consts[i][0], type=consts[i][1], value=consts[i][2]),
                                     detail=dict(undocumented=a, documented=b2))
        for i, (members, bitfield) in enumerate(enums):
            o = eobs.get('FooE%d' % i)
            ecases.append(dict(prefixes=prefixes, unpref=unpref, members=members, bitfield=bitfield, obs=o))
        for i, (kind, ty, val) in enumerate(consts):
            kcases.append(dict(kind=kind, type=ty, value=val, obs=kobs.get('FOO_K%d' % i)))

    # direct checks that need no model: element kind, strings verbatim, booleans, value syntax
    for c in ecases:
        nontriv = len(c['members']) >= 2
        ck.count_case(dict(enum=c['members'], prefixes=c['prefixes'], obs=c['obs']), nontrivial=nontriv,
                      kind='enum:%d members' % min(len(c['members']), 4))
        if c['obs'] is not None and (c['obs'][0] == 'bitfield') != c['bitfield']:
            ck.failing_input('flags-style enumeration not emitted as bitfield (or vice versa)',
                             dict(members=c['members'], bitfield=c['bitfield']))
    for c in kcases:
        ck.count_case(dict(const=c['kind'], type=c['type'], value=c['value'], obs=c['obs']),
                      kind='const:%s' % c['kind'])
        if c['obs'] is None:
            ck.failing_input('public constant missing from the GIR', dict(type=c['type'], value=c['value']))
        elif c['kind'] == 'str' and c['obs'][1] != c['value']:
            ck.failing_input('string constant not verbatim', dict(value=c['value']), detail=c['obs'])
        elif c['kind'] == 'bool' and c['obs'][1] != ('true' if c['value'] else 'false'):
            ck.failing_input('boolean constant not true/false', dict(value=c['value']), detail=c['obs'])
        elif c['kind'] == 'int':
            # fixed-width unsigned constants wrap modulo their own width (judged without the model)
            fund = alias_base(c['type']) if c['type'] in ALIASES else c['obs'][2]
            w = {'guint8': 8, 'guint16': 16, 'guint32': 32, 'guint64': 64, 'guint': 32, 'gushort': 16, 'gunichar': 32}.get(fund)
            try:
                v = int(c['obs'][1])
            except (TypeError, ValueError):
                ck.failing_input('integer constant not emitted as an integer literal', dict(type=c['type'], value=c['value']), detail=c['obs'])
                continue
            if w is not None and not (0 <= v < 2 ** w and (v - c['value']) % (2 ** w) == 0):
                ck.failing_input('unsigned constant not wrapped modulo its own width', dict(type=c['type'], value=c['value']),
                                 detail=dict(observed=c['obs'], expected=c['value'] % (2 ** w)))
            elif w is None and fund in ('gulong', 'gsize', 'guintptr'):
                # the width of these depends on the platform, which the scanner does not know: known finding C13-K1 when the value
                # emitted is the one written and it lies outside every possible width (negative)
                if v < 0:
                    ck.failing_input('constant of an unsigned type emitted with a negative value', dict(type=c['type'], value=c['value']),
                                     detail=c['obs'], fid='C13-K1-platform-width-unsigned-not-wrapped' if v == c['value'] else None)
                elif v != c['value'] and (v - c['value']) % (2 ** 32) != 0:
                    ck.failing_input('unsigned constant changed by something other than wrapping', dict(type=c['type'], value=c['value']),
                                     detail=c['obs'])
            elif w is None and v != c['value']:
                ck.failing_input('signed or untyped integer constant not emitted as written', dict(type=c['type'], value=c['value']),
                                 detail=c['obs'])

    if ck.models_ok:
        eitems = []
        for i, c in enumerate(ecases):
            if c['obs'] is None:
                obs = 'None'
            else:
                try:
                    obs = '(Some %s)' % clist(['(%s, (%d)%%Z, %s)' % (cstr(n), int(v), cstr(ci)) for n, v, ci in c['obs'][2]])
                except (TypeError, ValueError):
                    ck.tie_broken('correspondence', 'member value is not an integer literal', c)
                    continue
            eitems.append('{| e_id := %d; e_prefixes := %s; e_unpref := %s; e_members := %s; e_obs := %s |}'
                          % (i, clist([cstr(p) for p in c['prefixes']]), cbool(c['unpref']),
                             clist([cmember(m) for m in c['members']]), obs))
        kitems = []
        for i, c in enumerate(kcases):
            if c['kind'] != 'int' or c['obs'] is None:
                continue
            fund = alias_base(c['type']) if c['type'] in ALIASES else c['obs'][2]
            try:
                ev = int(c['obs'][1])
            except ValueError:
                ck.tie_broken('correspondence', 'constant value is not an integer literal', c)
                continue
            kitems.append('(%d, %s, (%d)%%Z, (%d)%%Z)' % (i, cstr(fund), c['value'], ev))
        per = 400
        e_tie, e_spec, k_tie, k_spec, silent = [], [], [], [], 0
        nsh = max((len(eitems) + per - 1) // per, (len(kitems) + per - 1) // per)
        for s in range(nsh):
            text = '\n'.join([
                'From Coq Require Import List NArith ZArith Bool.',
                'From GIV.Lib Require Import Regex Str.', 'From GIV.Model Require Import C13 C13Spec.',
                'Import ListNotations.', 'Local Open Scope N_scope.',
                'Definition ecases : list ecase := [%s].' % ';\n'.join(eitems[s * per:(s + 1) * per]),
                'Definition kcases : list (N * str * Z * Z) := [%s].' % ';\n'.join(kitems[s * per:(s + 1) * per]),
                'Definition e_tie := Eval vm_compute in map e_id (filter e_tie_bad ecases).', 'Print e_tie.',
                '(* the property also speaks when members are word-prefixes of one another, as long as what ALL share is a proper',
                '   prefix of every member (so that no name comes out empty) *)',
                'Definition hyp2 (idents : list str) : bool := forallb words_ok idents &&',
                '  (let ws := map words idents in let sh := lcp_all ws in forallb (fun w => Nat.ltb (length sh) (length w)) ws).',
                'Definition e_spec_bad2 (c : ecase) : bool :=',
                '  let all := map m_ident c.(e_members) in let pub := filter (fun m => negb m.(m_private)) c.(e_members) in',
                '  if negb (hyp2 all) then false else match spec_names c.(e_prefixes) c.(e_unpref) all (map m_ident pub), c.(e_obs) with',
                '  | Some names, Some obs => negb (mem_eqb (combine (combine names (map m_value pub)) (map m_ident pub)) obs)',
                '  | Some _, None => true | None, _ => false end.',
                'Definition e_spec := Eval vm_compute in map e_id (filter (fun c => e_spec_bad c || e_spec_bad2 c) ecases).', 'Print e_spec.',
                'Definition e_silent := Eval vm_compute in N.of_nat (length (filter e_spec_silent ecases)).',
                'Print e_silent.',
                'Definition k_tie := Eval vm_compute in map (fun c => fst (fst (fst c))) (filter k_tie_bad kcases).',
                'Print k_tie.',
                'Definition k_spec := Eval vm_compute in map (fun c => fst (fst (fst c))) (filter k_spec_bad kcases).',
                'Print k_spec.'])
            rc, out = coq_eval('C13_cases_%d' % s, text)
            if rc != 0:
                ck.tie_broken('correspondence', 'case file does not evaluate:\n' + out[-2000:])
                break
            d = parse_defs(out)
            e_tie += parse_nlist(d['e_tie'])
            e_spec += parse_nlist(d['e_spec'])
            k_tie += parse_nlist(d['k_tie'])
            k_spec += parse_nlist(d['k_spec'])
            silent += int(d['e_silent'].rstrip('%N'))
        ck.extra['spec_silent_enums'] = silent
        ck.extra['traces_validated_against_impl'] = len(eitems) + len(kitems)
        for i in e_spec:
            c = ecases[i]
            ck.failing_input('enumeration member names contradict the property',
                             dict(members=[m[0] for m in c['members']], prefixes=c['prefixes'], unpref=c['unpref']),
                             detail=dict(observed=c['obs']), fid=None)
        for i in k_spec:
            c = kcases[i]
            ck.failing_input('constant value outside its type\'s range or not congruent to the declared value',
                             dict(type=c['type'], value=c['value']), detail=dict(observed=c['obs']))
        if e_tie:
            ck.tie_broken('correspondence', 'Transformer._create_enum disagrees with Model.C13.create_enum on %d '
                          'enumerations' % len(e_tie), ecases[e_tie[0]])
        if k_tie:
            ck.tie_broken('correspondence', 'Transformer._create_const disagrees with Model.C13.const_value on %d '
                          'constants' % len(k_tie), kcases[k_tie[0]])
    return ck.finish(rule='seeded generator: enumerations of 0-6 members built from shared word prefixes (0-3 words) '
                          'and distinct tails, with adversarial members (word-prefix of another, empty words, '
                          'lower case, private), 1-2 namespace symbol prefixes, accept-unprefixed on/off; constants '
                          'over 29 integer type spellings incl. aliases x boundary values, strings, booleans; '
                          'non-trivial enum = at least 2 members; distinct by sha256')


if __name__ == '__main__':
    sys.exit(main(os.environ.get('VERIF_TIER', 'quick'), int(os.environ.get('VERIF_SEED', '1'))))
