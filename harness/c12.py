"""C12 — runtime GObject type data is merged faithfully into the GIR."""
import os
import random
import re
import sys

from common import Check, coq_eval, parse_defs, parse_nlist, cstr, clist, cbool, copt

INCLUDES = {'GObject': 'GObject.Object', 'GInitiallyUnowned': 'GObject.InitiallyUnowned', 'GVariant': 'GLib.Variant',
            'GError': 'GLib.Error', 'GClosure': 'GObject.Closure', 'GCancellable': 'Gio.Cancellable'}
PROP_TYPES = ['gint', 'gchararray', 'gboolean', 'gdouble', 'guint64', 'GObject', 'GStrv', 'GHashTable', 'FooHidden', 'gfloat', 'GType',
              'gpointer', 'GByteArray', 'GPtrArray', 'GVariant', 'guint', 'glong', 'gchar', 'GCancellable']
WHEN = [None, 'first', 'last', 'cleanup']


def esc(v):
    return v.replace('&', '&amp;').replace('<', '&lt;').replace('"', '&quot;')


def gen_world(rng):
    ncls = rng.randint(1, 3)
    nif = rng.randint(0, 2)
    nbox = rng.randint(0, 2)
    classes = ['FooObj%d' % i for i in range(ncls)]
    ifaces = ['FooIface%d' % i for i in range(nif)]
    boxes = ['FooBox%d' % i for i in range(nbox)]
    own = classes + ifaces + boxes
    recs = []       # (local name, [(field, first-param ctype or None)])
    dump = []

    def props():
        names = rng.sample(['alpha', 'beta', 'Zeta', 'a-b', 'a_b', 'zz', 'count', 'name'], rng.randint(0, 4))
        return [dict(name=n, type=rng.choice(PROP_TYPES + own), flags=rng.choice([rng.randrange(256), rng.randrange(16), 1, 3, 11, 227]),
                     default=rng.choice([None, None, '0', 'NULL', 'a "quoted" <value>', '']))
                for n in names]

    def sigs():
        names = rng.sample(['changed', 'zz-top', 'a', 'activate', 'B'], rng.randint(0, 3))
        return [dict(name=n, ret=rng.choice(['void', 'gboolean', 'gint', 'GObject', 'FooHidden']), when=rng.choice(WHEN),
                     no_recurse=rng.random() < 0.3, detailed=rng.random() < 0.3, action=rng.random() < 0.3, no_hooks=rng.random() < 0.3,
                     params=[rng.choice(PROP_TYPES + own) for _ in range(rng.choice([0, 1, 2, 3, 12]))])
                for n in names]

    def cbs(owner):
        out = []
        for j in range(rng.randint(0, 4)):
            first = rng.choice([owner + '*', owner + '*', owner + '**', rng.choice(own) + '*', 'gint', None, 'GObject*'])
            out.append(('vf%d%s' % (j, rng.choice(['', '_x', 'Z'])), first, rng.choice([0, 0, 1, 2])))
        return out
    for i, c in enumerate(classes):
        recs.append((c[3:], []))
        if rng.random() < 0.8:
            recs.append((c[3:] + 'Class', cbs(c)))
        chain = []
        if rng.random() < 0.5:
            chain.append('FooHidden%d' % i)
        if i > 0 and rng.random() < 0.6:
            chain.append(rng.choice(classes[:i]))
            if rng.random() < 0.3:
                chain.insert(0, 'FooSecret')
        if rng.random() < 0.3:
            chain.append('GInitiallyUnowned')
        chain.append('GObject')
        dump.append(dict(k='class', name=c, get_type='foo_obj%d_get_type' % i, parents=chain, abstract=rng.random() < 0.2,
                         final=rng.random() < 0.2, ifaces=sorted(rng.sample(ifaces, rng.randint(0, len(ifaces)))), props=props(), sigs=sigs()))
        if rng.random() < 0.35:
            # the type also implements an interface that is not part of the API (no such type is registered by the dump, as with
            # GtkFileChooserEmbed): it is left out, the public ones stay
            dump[-1]['ifaces'] = sorted(dump[-1]['ifaces'] + ['FooPrivEmbed%d' % rng.randint(0, 1)])
    for i, c in enumerate(ifaces):
        suffix = rng.choice(['Iface', 'Interface', 'Interface', None])
        recs.append((c[3:], []))
        if suffix:
            recs.append((c[3:] + suffix, cbs(c)))
            if rng.random() < 0.2 and suffix == 'Interface':
                recs.append((c[3:] + 'Iface', cbs(c)))
        dump.append(dict(k='interface', name=c, get_type=rng.choice(['foo_iface%d_get_type', 'foo_iface%d_get_gtype']) % i,
                         prereqs=rng.sample(['GObject'] + classes, rng.randint(0, 2)) + (['FooPrivBase'] if rng.random() < 0.3 else []),
                         props=props(), sigs=sigs()))
    for i, c in enumerate(boxes):
        recs.append((c[3:], []))
        dump.append(dict(k='boxed', name=c, get_type='foo_box%d_get_type' % i))
    # hidden ancestors and private interfaces whose C structure is nevertheless declared in the scanned headers (an instance
    # structure in a public header without a get-type function): still not registered, so still not part of the hierarchy
    hidden = sorted(set(x for d in dump for x in d.get('parents', []) + d.get('ifaces', []) + d.get('prereqs', [])
                        if x.startswith(('FooHidden', 'FooSecret', 'FooPriv'))))
    for h in hidden:
        if rng.random() < 0.5:
            recs.append((h[3:], []))
    rng.shuffle(dump)
    funcs = [d['get_type'] for d in dump] + ['foo_plain', 'foo_obj0_get_type_name', 'foo_get_type_of', 'foo_a_get_gtype_x']
    return dict(recs=recs, dump=dump, funcs=funcs)


def dump_xml(world):
    out = ['<?xml version="1.0"?><dump>']
    for d in world['dump']:
        if d['k'] == 'boxed':
            out.append('<boxed name="%s" get-type="%s"/>' % (d['name'], d['get_type']))
            continue
        body = []
        for i in d.get('ifaces', []):
            body.append('<implements name="%s"/>' % i)
        for i in d.get('prereqs', []):
            body.append('<prerequisite name="%s"/>' % i)
        for p in d['props']:
            body.append('<property name="%s" type="%s" flags="%d"%s/>' % (p['name'], p['type'], p['flags'],
                        '' if p['default'] is None else ' default-value="%s"' % esc(p['default'])))
        for s in d['sigs']:
            body.append('<signal name="%s" return="%s"%s%s%s%s%s>%s</signal>' % (
                s['name'], s['ret'], '' if s['when'] is None else ' when="%s"' % s['when'], ' no-recurse="1"' if s['no_recurse'] else '',
                ' detailed="1"' if s['detailed'] else '', ' action="1"' if s['action'] else '', ' no-hooks="1"' if s['no_hooks'] else '',
                ''.join('<param type="%s"/>' % t for t in s['params'])))
        if d['k'] == 'class':
            out.append('<class name="%s" get-type="%s" parents="%s"%s%s>%s</class>' % (
                d['name'], d['get_type'], ','.join(d['parents']), ' abstract="1"' if d['abstract'] else '', ' final="1"' if d['final'] else '',
                ''.join(body)))
        else:
            out.append('<interface name="%s" get-type="%s">%s</interface>' % (d['name'], d['get_type'], ''.join(body)))
    out.append('</dump>')
    return ''.join(out)


def symbols(world, S):
    syms = []

    def ctype_tree(t):
        n = t.rstrip('*')
        r = S.td(n)
        for _ in range(len(t) - len(n)):
            r = S.ptr(r)
        return r
    line = 10
    for local, cbs in world['recs']:
        name = 'Foo' + local
        syms.append(S.FS(S.CSYMBOL_TYPE_TYPEDEF, name, base_type=S.FT(S.CTYPE_STRUCT, '_' + name), line=line))
        kids = [S.FS(S.CSYMBOL_TYPE_MEMBER, 'parent', base_type=S.td('gint'), line=line + 1)]
        for ci, (fname, first, nextra) in enumerate(cbs):
            ps = [] if first is None else [S.param('self_', ctype_tree(first))] + [S.param('x%d' % q, S.td('gint')) for q in range(nextra)]
            if first is not None and (len(name) + ci) % 3 == 0:
                # the member is declared through a callback typedef ("FooObj0NotifyFunc changed;"): the virtual method takes the member's name
                tdn = '%sSlot%dFunc' % (name, ci)
                syms.append(S.cbtypedef(tdn, S.VOID, ps, line=line + 1))
                kids.append(S.FS(S.CSYMBOL_TYPE_MEMBER, fname, base_type=S.td(tdn), line=line + 2))
                continue
            kids.append(S.FS(S.CSYMBOL_TYPE_MEMBER, fname, base_type=S.ptr(S.FT(S.CTYPE_FUNCTION, base_type=S.VOID, child_list=ps)), line=line + 2))
        syms.append(S.FS(S.CSYMBOL_TYPE_STRUCT, '_' + name, base_type=S.FT(S.CTYPE_STRUCT, '_' + name, child_list=kids), line=line + 5))
        line += 20
    for f in world['funcs']:
        syms.append(S.func(f, S.td('GType') if 'get_' in f and f.endswith(('_get_type', '_get_gtype')) else S.VOID, [], line=line))
        line += 2
    return syms


FUNDS = None


def rtype_of(el, S):
    """the <type>/<array> child of a property / parameter / return-value as a Model.C12 rtype term"""
    global FUNDS
    if FUNDS is None:
        from giscanner import ast
        FUNDS = set(t.target_fundamental for t in ast.type_names.values())
    t = None
    for ch in el:
        if ch.tag in (S.CORE + 'type', S.CORE + 'array'):
            t = ch
    if t is None:
        return 'RUnknown'
    name = t.get('name')
    if t.tag == S.CORE + 'array':
        if name == 'GLib.ByteArray':
            return 'RByteArray'
        if name is not None:
            return '(RArray %s)' % cstr(name)
        return 'RStrv'
    if name is None:
        return 'RUnknown'
    if name == 'GLib.HashTable':
        return 'RHash'
    if name in FUNDS:
        return '(RFund %s)' % cstr(name)
    return '(RNamed %s)' % cstr(name if '.' in name else 'Foo.' + name)


def obs_class(el, S):
    b = lambda v: v == '1'
    props = []
    for p in el.findall(S.CORE + 'property'):
        props.append('{| op_name := %s; op_flags := {| pf_readable := %s; pf_writable := %s; pf_construct := %s; pf_construct_only := %s |}; '
                     'op_type := %s; op_default := %s |}' % (cstr(p.get('name')), cbool(p.get('readable') != '0'), cbool(b(p.get('writable'))),
                                                           cbool(b(p.get('construct'))), cbool(b(p.get('construct-only'))), rtype_of(p, S),
                                                           copt(p.get('default-value'), cstr)))
    sigs = []
    for sg in el.findall(S.GLIB + 'signal'):
        ps = sg.find(S.CORE + 'parameters')
        params = ['(%s, %s)' % (cstr(p.get('name')), rtype_of(p, S)) for p in (ps.findall(S.CORE + 'parameter') if ps is not None else [])]
        sigs.append('{| os_name := %s; os_when := %s; os_flags := (%s, %s, %s, %s); os_return := %s; os_params := %s |}'
                    % (cstr(sg.get('name')), copt(sg.get('when'), cstr), cbool(b(sg.get('no-recurse'))), cbool(b(sg.get('detailed'))),
                       cbool(b(sg.get('action'))), cbool(b(sg.get('no-hooks'))), rtype_of(sg.find(S.CORE + 'return-value'), S), clist(params)))
    is_class = el.tag == S.CORE + 'class'
    rel = el.findall(S.CORE + ('implements' if is_class else 'prerequisite'))
    parent = el.get('parent')
    if parent is not None and '.' not in parent:
        parent = 'Foo.' + parent
    return ('{| oc_local := %s; oc_is_class := %s; oc_parent := %s; oc_gtype := %s; oc_get_type := %s; oc_symbol_prefix := %s; '
            'oc_type_struct := %s; oc_abstract := %s; oc_final := %s; oc_ifaces := %s; oc_props := %s; oc_sigs := %s; oc_vfuncs := %s |}'
            % (cstr(el.get('name')), cbool(is_class), copt(parent, cstr), cstr(el.get(S.GLIB + 'type-name')), cstr(el.get(S.GLIB + 'get-type')),
               copt(el.get(S.CNS + 'symbol-prefix'), cstr), copt(el.get(S.GLIB + 'type-struct'), cstr), cbool(b(el.get('abstract'))),
               cbool(b(el.get('final'))),
               clist(['(RNamed %s)' % cstr(r.get('name') if '.' in r.get('name') else 'Foo.' + r.get('name')) for r in rel]),
               clist(props), clist(sigs), clist([cstr(v.get('name')) for v in el.findall(S.CORE + 'virtual-method')])))


def coq_world(i, world, obs_classes, obs_recs, obs_funcs):
    def dprop(p):
        return '{| dp_name := %s; dp_type := %s; dp_flags := %d; dp_default := %s |}' % (cstr(p['name']), cstr(p['type']), p['flags'],
                                                                                           copt(p['default'], cstr))

    def dsig(s):
        return ('{| ds_name := %s; ds_return := %s; ds_when := %s; ds_no_recurse := %s; ds_detailed := %s; ds_action := %s; ds_no_hooks := %s; '
                'ds_params := %s |}' % (cstr(s['name']), cstr(s['ret']), copt(s['when'], cstr), cbool(s['no_recurse']), cbool(s['detailed']),
                                        cbool(s['action']), cbool(s['no_hooks']), clist([cstr(t) for t in s['params']])))
    dump = []
    for d in world['dump']:
        if d['k'] == 'class':
            dump.append('(DClass %s %s %s %s %s %s %s %s)' % (cstr(d['name']), cstr(d['get_type']), clist([cstr(x) for x in d['parents']]),
                                                            cbool(d['abstract']), cbool(d['final']), clist([cstr(x) for x in d['ifaces'] if not x.startswith('FooPriv')]),
                                                            clist([dprop(p) for p in d['props']]), clist([dsig(s) for s in d['sigs']])))
        elif d['k'] == 'interface':
            dump.append('(DInterface %s %s %s %s %s)' % (cstr(d['name']), cstr(d['get_type']), clist([cstr(x) for x in d['prereqs'] if not x.startswith('FooPriv')]),
                                                       clist([dprop(p) for p in d['props']]), clist([dsig(s) for s in d['sigs']])))
        else:
            dump.append('(DBoxed %s %s)' % (cstr(d['name']), cstr(d['get_type'])))

    def first_gi(first):
        if first is None:
            return 'None'
        n = first.rstrip('*')
        if n.startswith('Foo'):
            return '(Some %s)' % cstr('Foo.' + n[3:])
        return '(Some %s)' % cstr(INCLUDES.get(n, n))
    recs = clist(['{| wr_name := %s; wr_cbs := %s |}' % (cstr(l), clist(['(%s, %s)' % (cstr(f), first_gi(fp)) for f, fp, _ in cbs]))
                  for l, cbs in world['recs']])
    return ('{| m_id := %d; m_includes := incl; m_recs := %s; m_dump := %s; m_funcs := %s; m_obs_classes := %s; m_obs_recs := %s; '
            'm_obs_funcs := %s |}' % (i, recs, clist(dump), clist([cstr(f) for f in world['funcs']]), clist(obs_classes), clist(obs_recs),
                                      clist([cstr(f) for f in obs_funcs])))


def error_world(rng):
    """enumerations and flags of the dump, registered or not, and error-quark functions: (name, symbol prefix, registered, quark domain)"""
    cands = [('WebError', 'web_error'), ('Codec2Error', 'codec_2_error'), ('PlainError', 'plain_error'), ('IOErrorEnum', 'io_error'),
             ('X11Error', 'x11_error'), ('Mode', 'mode')]
    out = []
    for name, prefix in rng.sample(cands, rng.randint(1, 5)):
        default = (name, prefix) in (('WebError', 'web_error'), ('PlainError', 'plain_error'), ('Mode', 'mode'))
        registered = rng.random() < 0.6 or not default        # a symbol prefix that is not the default spelling is known from get_type only
        domain = None if rng.random() < 0.25 else 'foo-%s-%s' % (prefix.replace('_', '-'), rng.choice(['quark', 'domain']))
        flags = rng.random() < 0.2
        out.append(dict(name=name, prefix=prefix, registered=registered, domain=None if flags else domain, flags=flags))
    if rng.random() < 0.4:
        out.append(dict(orphan=True, prefix=rng.choice(['orphan', 'web', 'error']), domain='foo-orphan'))     # a quark function without enumeration
    return out


def run_error_world(ck, S, ET, ew, qitems):
    syms, dump = [], ['<?xml version="1.0"?><dump>']
    line = 10
    orphans = [e for e in ew if e.get('orphan')]
    ew = [e for e in ew if not e.get('orphan')]
    for o in orphans:
        syms.append(S.func('foo_%s_quark' % o['prefix'], S.td('GQuark'), [], line=5))
        dump.append('<error-quark function="foo_%s_quark" domain="%s"/>' % (o['prefix'], o['domain']))
    for e in ew:
        cname = 'Foo' + e['name']
        up = 'FOO_' + e['prefix'].upper()
        members = [('%s_%s' % (up, m), 1 << i if e['flags'] else i, False) for i, m in enumerate(['ALPHA', 'BETA', 'GAMMA'])]
        syms.append(S.enum_typedef(cname, members, bitfield=e['flags'], line=line))
        if e['registered']:
            syms.append(S.func('foo_%s_get_type' % e['prefix'], S.td('GType'), [], line=line + 5))
            dump.append('<%s name="%s" get-type="foo_%s_get_type">%s</%s>' % (
                'flags' if e['flags'] else 'enum', cname, e['prefix'],
                ''.join('<member name="%s" nick="%s" value="%d"/>' % (m, m.split('_')[-1].lower(), v) for m, v, _ in members),
                'flags' if e['flags'] else 'enum'))
        if e['domain']:
            syms.append(S.func('foo_%s_quark' % e['prefix'], S.td('GQuark'), [], line=line + 6))
            dump.append('<error-quark function="foo_%s_quark" domain="%s"/>' % (e['prefix'], e['domain']))
        line += 10
    dump.append('</dump>')
    case = dict(enumerations=ew)
    try:
        r = S.run(syms, includes=['GLib', 'GObject'], dump=ET.ElementTree(ET.fromstring(''.join(dump))), warnings=True)
    except (Exception, SystemExit) as ex:      # noqa
        ck.failing_input('the scanner fails while merging enumerations and error quarks: %r' % (ex,), case)
        return
    ns = S.gir_ns(r.root)
    ck.count_case(case, nontrivial=len(ew) > 1, kind='error-world:%d' % len(ew))
    top_funcs = [f.get(S.CNS + 'identifier') for f in ns.findall(S.CORE + 'function') if f.get('moved-to') is None]
    # the same world for Model.C12Q: enumerations in the order of the GIR, quark functions in the order of their symbols
    obs = []
    for e in ew:
        el = next((x for x in ns if x.tag in (S.CORE + 'enumeration', S.CORE + 'bitfield') and x.get(S.CNS + 'type') == 'Foo' + e['name']), None)
        obs.append(None if el is None else el.get(S.GLIB + 'error-domain'))
    enums_only = [e for e in ew if not e['flags']]
    qitems.append('(%d, %s, %s, %s, %d%%nat)' % (
        len(qitems),
        clist(['{| qe_name := %s; qe_prefix := %s; qe_domain := None |}' % (cstr(e['name']), copt(e['prefix'] if e['registered'] else None, cstr))
               for e in enums_only]),
        clist(['{| q_short := %s; q_domain := %s |}' % (cstr(o['prefix']), cstr(o['domain'])) for o in orphans]
              + ['{| q_short := %s; q_domain := %s |}' % (cstr(e['prefix']), cstr(e['domain'])) for e in ew if e['domain']]),
        clist([copt(o_, cstr) for e, o_ in zip(ew, obs) if not e['flags']]),
        r.log.count("Couldn't find corresponding enumeration")))
    for e in ew:
        el = next((x for x in ns if x.tag in (S.CORE + 'enumeration', S.CORE + 'bitfield') and x.get(S.CNS + 'type') == 'Foo' + e['name']), None)
        if el is None:
            ck.failing_input('an enumeration is missing from the GIR', dict(case, enumeration=e['name']))
            continue
        if e['domain'] and el.get(S.GLIB + 'error-domain') != e['domain']:
            ck.failing_input('an error-quark function does not give its error domain to the matching enumeration', dict(case, enumeration=e['name']),
                             detail=el.attrib)
        if not e['domain'] and el.get(S.GLIB + 'error-domain') is not None:
            ck.failing_input('an enumeration without error-quark function has an error domain', dict(case, enumeration=e['name']), detail=el.attrib)
        if e['registered']:
            if el.get(S.GLIB + 'type-name') != 'Foo' + e['name'] or el.get(S.GLIB + 'get-type') != 'foo_%s_get_type' % e['prefix']:
                ck.failing_input('a registered enumeration does not carry its type name and get-type function', dict(case, enumeration=e['name']),
                                 detail=el.attrib)
            if 'foo_%s_get_type' % e['prefix'] in top_funcs:
                ck.failing_input('a get-type function stays in the function list', dict(case, enumeration=e['name']))
            if (el.tag == S.CORE + 'bitfield') != e['flags']:
                ck.failing_input('a flags type of the dump is not a bitfield (or an enum type is)', dict(case, enumeration=e['name']))


def fundamental_clauses(ck, S, ET, rng, n):
    """instantiatable fundamental types of the runtime dump (GParamSpec, GstMiniObject, RegressTestFundamentalObject): a class marked
    glib:fundamental, paired with its <Name>Class structure both ways, whose function-pointer members are its virtual methods; a
    fundamental type deriving from another one has it as parent"""
    for i in range(n):
        names = ['FooFund', 'FooSubFund'][:rng.randint(1, 2)]
        dump = ['<?xml version="1.0"?><dump>']
        syms = []
        line = 10
        want = {}
        for k, nm in enumerate(names):
            gt = 'foo_%s_get_type' % ('fund' if k == 0 else 'sub_fund')
            abstract = rng.random() < 0.4
            dump.append('<fundamental name="%s" get-type="%s" instantiatable="1"%s%s/>' % (
                nm, gt, ' abstract="1"' if abstract else '', ' parents="FooFund"' if k == 1 else ''))
            syms.append(S.func(gt, S.td('GType'), [], line=line))
            syms.append(S.FS(S.CSYMBOL_TYPE_TYPEDEF, nm, base_type=S.FT(S.CTYPE_STRUCT, '_' + nm), line=line + 1))
            syms.append(S.FS(S.CSYMBOL_TYPE_STRUCT, '_' + nm, base_type=S.FT(S.CTYPE_STRUCT, '_' + nm, child_list=[
                S.FS(S.CSYMBOL_TYPE_MEMBER, 'refcount', base_type=S.td('gint'), line=line + 2)]), line=line + 2))
            has_class = rng.random() < 0.85
            vfs = []
            if has_class:
                kids = [S.FS(S.CSYMBOL_TYPE_MEMBER, 'parent_class', base_type=S.td('GTypeClass'), line=line + 4)]
                for j in range(rng.randint(0, 3)):
                    vn = rng.choice(['finalize', 'copy', 'describe', 'poke']) + str(j)
                    vfs.append(vn)
                    kids.append(S.FS(S.CSYMBOL_TYPE_MEMBER, vn, base_type=S.ptr(S.FT(S.CTYPE_FUNCTION, base_type=S.VOID, child_list=[
                        S.param('self_', S.ptr(S.td(nm))), S.param('x', S.td('gint'))])), line=line + 5 + j))
                syms.append(S.FS(S.CSYMBOL_TYPE_TYPEDEF, nm + 'Class', base_type=S.FT(S.CTYPE_STRUCT, '_' + nm + 'Class'), line=line + 3))
                syms.append(S.FS(S.CSYMBOL_TYPE_STRUCT, '_' + nm + 'Class', base_type=S.FT(S.CTYPE_STRUCT, '_' + nm + 'Class', child_list=kids), line=line + 4))
            want[nm[3:]] = dict(abstract=abstract, type_struct=(nm[3:] + 'Class') if has_class else None, vfuncs=sorted(vfs),
                               parent='Fund' if k == 1 else None)
            line += 20
        dump.append('</dump>')
        rng.shuffle(syms)
        case = dict(dump=''.join(dump), class_structures={k_: v_['type_struct'] for k_, v_ in want.items()})
        try:
            r = S.run(syms, includes=['GLib', 'GObject'], dump=ET.ElementTree(ET.fromstring(''.join(dump))), warnings=False)
        except (Exception, SystemExit) as e:      # noqa
            ck.failing_input('the scanner fails on fundamental types: %r' % (e,), case)
            continue
        ns = S.gir_ns(r.root)
        ck.count_case(dict(fundamentals=sorted(want)), kind='fundamental')
        for local, w in want.items():
            el = next((x for x in ns.findall(S.CORE + 'class') if x.get('name') == local), None)
            if el is None:
                ck.failing_input('a fundamental type of the runtime dump is not described as a class', dict(case, type='Foo' + local))
                continue
            got = dict(abstract=el.get('abstract') == '1', type_struct=el.get(S.GLIB + 'type-struct'),
                       vfuncs=sorted(v.get('name') for v in el.findall(S.CORE + 'virtual-method')), parent=el.get('parent'))
            if el.get(S.GLIB + 'fundamental') != '1' or got != w:
                ck.failing_input('a fundamental type is not described with its class structure, virtual methods, parent and flags',
                                 dict(case, type='Foo' + local), detail=dict(expected=dict(w, fundamental='1'), got=dict(got, fundamental=el.get(S.GLIB + 'fundamental'))))
            if w['type_struct']:
                rec = next((x for x in ns.findall(S.CORE + 'record') if x.get('name') == w['type_struct']), None)
                if rec is None or rec.get(S.GLIB + 'is-gtype-struct-for') != local:
                    ck.failing_input('the class structure of a fundamental type does not point back at it', dict(case, type='Foo' + local),
                                     detail=None if rec is None else rec.attrib)


def container_clauses(ck, S, ET, rng, n):
    """container GTypes (GPtrArray, GHashTable, GArray, GByteArray) reported for several signals and properties of a class; one
    signal or property is annotated with (element-type ...): everything the dump reports about the OTHER signals and properties must
    come out exactly as in the same world without that annotation (the reported types are per use, an annotation belongs to one use)"""
    for i in range(n):
        cont = rng.choice(['GPtrArray', 'GHashTable', 'GArray', 'GPtrArray'])
        ann = '(element-type utf8 gint)' if cont == 'GHashTable' else '(element-type utf8)'
        nsig = rng.randint(2, 3)
        sig_names = ['alpha', 'beta', 'gamma'][:nsig]
        others = ['gint', 'GObject', 'gchararray', 'GHashTable', 'GPtrArray']
        sigs = {sn: [cont] + rng.sample(others, rng.randint(0, 2)) for sn in sig_names}
        for sn in sig_names:
            rng.shuffle(sigs[sn])
            if cont not in sigs[sn]:
                sigs[sn][0] = cont
        props = {'items': cont, 'more': rng.choice([cont, 'gint'])}
        sig_ret = {sn: rng.choice(['void', cont, 'gboolean']) for sn in sig_names}
        body = []
        for pn, pt in props.items():
            body.append('<property name="%s" type="%s" flags="3"/>' % (pn, pt))
        for sn in sig_names:
            body.append('<signal name="%s" return="%s">%s</signal>' % (sn, sig_ret[sn], ''.join('<param type="%s"/>' % t for t in sigs[sn])))
        dump = ('<?xml version="1.0"?><dump><class name="FooObj" get-type="foo_obj_get_type" parents="GObject">%s</class></dump>' % ''.join(body))
        syms = [S.func('foo_obj_get_type', S.td('GType'), [], line=5),
                S.FS(S.CSYMBOL_TYPE_TYPEDEF, 'FooObj', base_type=S.FT(S.CTYPE_STRUCT, '_FooObj'), line=10),
                S.FS(S.CSYMBOL_TYPE_STRUCT, '_FooObj', base_type=S.FT(S.CTYPE_STRUCT, '_FooObj', child_list=[
                    S.FS(S.CSYMBOL_TYPE_MEMBER, 'parent', base_type=S.td('GObject'), line=11)]), line=11)]
        target = rng.choice(sig_names)       # (element-type) on a property block is not applied to the dump's type
        if target == 'items':
            block = '/**\n * FooObj:items: %s\n *\n * The items.\n */' % ann
        else:
            k = sigs[target].index(cont)
            # the block names the emitting instance first and then every parameter the dump lists
            plines = ''.join(' * @arg%d: %sthe values\n' % (j, (ann + ': ') if j == k else '') for j in range(len(sigs[target])))
            block = '/**\n * FooObj::%s:\n * @object: the emitter\n%s *\n * Emitted.\n */' % (target, plines)
        case = dict(dump=dump, block=block)
        outs = []
        try:
            for comments in ([], [(block, '/src/foo.c', 40)]):
                r = S.run(list(syms), comments=comments, includes=['GLib', 'GObject'], dump=ET.ElementTree(ET.fromstring(dump)), warnings=False)
                cls = next(x for x in S.gir_ns(r.root).findall(S.CORE + 'class') if x.get('name') == 'Obj')
                desc = {}
                for pel in cls.findall(S.CORE + 'property'):
                    desc['property ' + pel.get('name')] = ET.tostring(pel).decode()
                for sel in cls.findall(S.GLIB + 'signal'):
                    desc['signal ' + sel.get('name')] = ET.tostring(sel).decode()
                outs.append(desc)
        except (Exception, SystemExit) as e:      # noqa
            ck.failing_input('the scanner fails on container types of the runtime dump: %r' % (e,), case)
            continue
        ck.count_case(dict(container=cont, annotated=target, signals=sigs, properties=props), kind='container-frame')
        plain, annotated = outs
        me = ('property ' if target == 'items' else 'signal ') + target
        if (annotated.get(me) or '').count('name="utf8"') <= (plain.get(me) or '').count('name="utf8"'):
            ck.tie_broken('harness', 'the (element-type) annotation of the container scenario changes nothing: the scenario tests nothing', case)
        for key in plain:
            if key != me and plain[key] != annotated.get(key):
                ck.failing_input('an (element-type) annotation on one use of a container type of the runtime dump changes what is '
                                 'reported for another signal or property', dict(case, annotated=me, changed=key),
                                 detail=dict(without_annotation=plain[key], with_annotation=annotated.get(key)))
                break


def main(tier, seed):
    ck = Check('C12', tier, seed)
    ck.assumptions += ['the runtime dump is given as XML (the introspection binary cannot be built and run here); girepository/gdump.c is '
                       'not exercised', 'declarations are SourceSymbol trees (stub lexer)',
                       'GType names of the dump carry the namespace identifier prefix; implemented interfaces and prerequisites that no dump entry registers (FooPriv*) are given to the scanner but not to the model, whose domain is the known ones: they must be left out and the known ones kept',
                       'enumerations, flags and error quarks of the dump are judged by direct clauses in worlds of their own (not in the Coq model); '
                       'pointer and fundamental types of the dump are not generated']
    ck.prove(['gen_c02.py'], models=['Model/C12Spec.vo', 'Model/C12Q.vo'])
    import scanner as S
    import xml.etree.ElementTree as ET
    rng = random.Random(seed)
    n = 60 if tier == 'quick' else 900
    fundamental_clauses(ck, S, ET, rng, 12 if tier == 'quick' else 150)
    container_clauses(ck, S, ET, random.Random(seed + 77), 10 if tier == 'quick' else 120)
    qitems = []
    for i in range(n // 2):
        run_error_world(ck, S, ET, error_world(rng), qitems)
    if ck.models_ok and qitems:
        text = '\n'.join(['From Coq Require Import List NArith Bool.', 'From GIV.Lib Require Import Regex Str.',
                          'From GIV.Model Require Import C02 C04 C12Q.', 'Import ListNotations.', 'Local Open Scope N_scope.',
                          'Definition ostr_eqb (a b : option str) := match a, b with Some x, Some y => str_eqb x y | None, None => true | _, _ => false end.',
                          'Fixpoint all2 {A} (f : A -> A -> bool) (a b : list A) := match a, b with [] , [] => true | x :: s, y :: t => f x y && all2 f s t | _, _ => false end.',
                          'Definition cases : list (N * list qenum * list quark * list (option str) * nat) := [%s].' % ';\n'.join(qitems),
                          "Definition bad := Eval vm_compute in map (fun c => fst (fst (fst (fst c)))) (filter (fun c => let '(_, es, qs, o, w) := c in",
                          '  let r := pair_all es qs in negb (all2 ostr_eqb (map qe_domain (fst r)) o && Nat.eqb (List.length (snd r)) w)) cases).',
                          'Print bad.'])
        rc, out = coq_eval('C12Q_cases', text)
        if rc != 0:
            ck.tie_broken('correspondence', 'error-quark case file does not evaluate:\n' + out[-2000:])
        else:
            bad = parse_nlist(parse_defs(out)['bad'])
            if bad:
                ck.tie_broken('correspondence', 'error domains differ from Model.C12Q.pair_all on %d worlds' % len(bad), dict(case=qitems[bad[0]][:1500]))
    items = []
    worlds = []
    for i in range(n):
        w = gen_world(rng)
        try:
            r = S.run(symbols(w, S), includes=['GLib', 'GObject', 'Gio'], dump=ET.ElementTree(ET.fromstring(dump_xml(w))), warnings=False)
        except (Exception, SystemExit) as e:      # noqa
            ck.failing_input('the scanner fails while merging a runtime dump: %r' % (e,), dict(world=w))
            continue
        ns = S.gir_ns(r.root)
        by_gtype = {el.get(S.GLIB + 'type-name'): el for el in ns if el.tag in (S.CORE + 'class', S.CORE + 'interface')}
        oc = []
        missing = False
        for d in w['dump']:
            if d['k'] == 'boxed':
                continue
            el = by_gtype.get(d['name'])
            if el is None:
                ck.failing_input('a type reported by the runtime dump is missing from the GIR', dict(world=w, type=d['name']))
                missing = True
                break
            oc.append(obs_class(el, S))
            # crisp clauses judged directly
            for p, pel in zip(sorted(d['props'], key=lambda p: p['name']), el.findall(S.CORE + 'property')):
                want = (bool(p['flags'] & 1), bool(p['flags'] & 2), bool(p['flags'] & 4), bool(p['flags'] & 8))
                got = (pel.get('readable') != '0', pel.get('writable') == '1', pel.get('construct') == '1', pel.get('construct-only') == '1')
                if pel.get('name') == p['name'] and want != got:
                    ck.failing_input('property flags differ from the reported flag bits', dict(world=w, type=d['name'], property=p),
                                     detail=dict(expected=want, got=got))
            ownnames = set(x['name'] for x in w['dump'])
            for p, pel in zip(sorted(d['props'], key=lambda p: p['name']), el.findall(S.CORE + 'property')):
                t = pel.find(S.CORE + 'type')
                if pel.get('name') == p['name'] and p['type'] in ownnames and (t is None or t.get('name') != p['type'][3:]):
                    ck.failing_input('the type of a property is not the reported type', dict(world=w, type=d['name'], property=p),
                                     detail=None if t is None else t.attrib)
            for sg in d['sigs']:
                sel = next((x for x in el.findall(S.GLIB + 'signal') if x.get('name') == sg['name']), None)
                if sel is None:
                    continue
                ps = sel.find(S.CORE + 'parameters')
                pts = [q.find(S.CORE + 'type') for q in (ps.findall(S.CORE + 'parameter') if ps is not None else [])]
                for want_t, t in zip(sg['params'], pts):
                    if want_t in ownnames and (t is None or t.get('name') != want_t[3:]):
                        ck.failing_input('the type of a signal parameter is not the reported type', dict(world=w, type=d['name'], signal=sg),
                                         detail=None if t is None else t.attrib)
            recmap = dict((l, cbs) for l, cbs in w['recs'])
            local = d['name'][3:]
            sname = (local + 'Class') if d['k'] == 'class' else next((local + sfx for sfx in ('Iface', 'Interface') if local + sfx in recmap), None)
            want_vf = sorted(f for f, first, _ in recmap.get(sname, []) if first is not None and first.rstrip('*') == d['name']) if sname in recmap else []
            got_vf = [v.get('name') for v in el.findall(S.CORE + 'virtual-method')]
            if got_vf != want_vf:
                ck.failing_input('virtual methods are not exactly the function-pointer members whose first parameter is the instance',
                                 dict(world=w, type=d['name']), detail=dict(expected=want_vf, got=got_vf))
            # exactly the interfaces / prerequisites reported, as far as they are known types
            known_names = set(INCLUDES) | set(x['name'] for x in w['dump'])
            reported = d['ifaces'] if d['k'] == 'class' else d['prereqs']
            want_rel = sorted(INCLUDES.get(x, x[3:] if x.startswith('Foo') else x) for x in reported if x in known_names)
            got_rel = sorted(r.get('name') for r in el.findall(S.CORE + ('implements' if d['k'] == 'class' else 'prerequisite')))
            if got_rel != want_rel:
                ck.failing_input('the %s of a type are not exactly the known ones the runtime dump reports'
                                 % ('interfaces' if d['k'] == 'class' else 'prerequisites'), dict(world=w, type=d['name'], reported=reported),
                                 detail=dict(expected=want_rel, got=got_rel))
            if d['k'] == 'class':
                known = set(INCLUDES) | set(x['name'] for x in w['dump'])
                nearest = next((p for p in d['parents'] if p in known), None)
                want = None if nearest is None else INCLUDES.get(nearest, nearest[3:] if nearest.startswith('Foo') else nearest)
                if el.get('parent') != want:
                    ck.failing_input('the parent is not the nearest known ancestor', dict(world=w, type=d['name'], parents=d['parents']),
                                     detail=dict(expected=want, got=el.get('parent')))
        if missing:
            continue
        recels = {el.get('name'): el for el in ns.findall(S.CORE + 'record')}
        orecs = []
        for local, _ in w['recs']:
            el = recels.get(local)
            if el is None:
                # replaced by the class / interface of the same name
                orecs.append('{| or_name := %s; or_gtype := None; or_get_type := None; or_symbol_prefix := None; or_struct_for := None |}' % cstr(local))
                continue
            orecs.append('{| or_name := %s; or_gtype := %s; or_get_type := %s; or_symbol_prefix := %s; or_struct_for := %s |}'
                         % (cstr(local), copt(el.get(S.GLIB + 'type-name'), cstr), copt(el.get(S.GLIB + 'get-type'), cstr),
                            copt(el.get(S.CNS + 'symbol-prefix'), cstr), copt(el.get(S.GLIB + 'is-gtype-struct-for'), cstr)))
        funcs = [el.get(S.CNS + 'identifier') for el in ns.iter() if el.tag in (S.CORE + 'function', S.CORE + 'method', S.CORE + 'constructor')]
        for d in w['dump']:
            if d['get_type'] in funcs:
                ck.failing_input('a get-type function stays in the function list', dict(world=w, function=d['get_type']))
        ck.count_case(dict(dump=[(d['k'], d['name']) for d in w['dump']], recs=[r[0] for r in w['recs']]),
                      nontrivial=len(w['dump']) > 1, kind='types:%d' % len(w['dump']))
        items.append(coq_world(len(worlds), w, oc, orecs, sorted(funcs)))
        worlds.append(w)
    if ck.models_ok and items:
        incl = clist(['(%s, %s)' % (cstr(k), cstr(v)) for k, v in INCLUDES.items()])
        bad = []
        per = 60
        for s0 in range(0, len(items), per):
            text = '\n'.join(['From Coq Require Import List NArith Bool.', 'From GIV.Lib Require Import Regex Str.',
                              'From GIV.Model Require Import C02 C12 C12Spec.', 'Import ListNotations.', 'Local Open Scope N_scope.',
                              'Definition incl : known := %s.' % incl,
                              'Definition cases : list mcase := [%s].' % ';\n'.join(items[s0:s0 + per]),
                              'Definition bad := Eval vm_compute in map (fun c => m_id c :: m_diff c) (filter m_bad cases).', 'Print bad.'])
            rc, out = coq_eval('C12_cases_%d' % (s0 // per), text)
            if rc != 0:
                ck.tie_broken('correspondence', 'case file does not evaluate:\n' + out[-2000:])
                break
            for m in re.finditer(r'\[([\d; ]+)\]', parse_defs(out)['bad']):
                bad.append([int(x) for x in m.group(1).replace(' ', '').split(';') if x])
        ck.extra['traces_validated_against_impl'] = len(items)
        if bad:
            w = worlds[bad[0][0]]
            if os.environ.get('VERIF_DEBUG'):
                sys.stderr.write('bad: %s\n%s\n' % (bad[:10], items[bad[0][0]][:6000]))
            ck.tie_broken('correspondence', 'the merged GIR differs from Model.C12 on %d worlds (parts %s of the first: 1 classes/interfaces, '
                          '2 structures, 3 functions)' % (len(bad), bad[0][1:]), dict(world=w, dump=dump_xml(w)))
    return ck.finish(rule='worlds of 1-3 classes (instance and class structures with callback members whose first parameter is the '
                          'instance, another type, a scalar or missing), 0-2 interfaces (Iface/Interface structure or none), 0-2 boxed '
                          'types, parent chains with hidden intermediate types, properties over all 256 flag bytes and 19+ type names, '
                          'signals with every run phase/flag combination and 0-12 parameters; the dump XML goes through GDumpParser, '
                          'MainTransformer, IntrospectablePass and GIRWriter with stub includes')


if __name__ == '__main__':
    sys.exit(main(os.environ.get('VERIF_TIER', 'quick'), int(os.environ.get('VERIF_SEED', '1'))))
