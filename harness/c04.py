"""C04 — each public C symbol is described once, under the right name and owner."""
import os
import random
import re
import sys

from common import Check, coq_eval, parse_defs, parse_nlist, cstr, clist, cbool, copt

# (local name, kind, registered?, parents (local names, nearest first))
TYPE_POOL = [('TextBuffer', 'TClass', True, []), ('Text', 'TClass', True, []), ('Sub', 'TClass', True, ['TextBuffer']),
             ('SubSub', 'TClass', True, ['Sub', 'TextBuffer']), ('Rec', 'TRecord', False, []), ('GIOThing', 'TRecord', False, []),
             ('Box', 'TBoxedRecord', True, []), ('BoxLike', 'TRecord', False, []), ('Iface0', 'TInterface', True, []),
             ('Kind', 'TEnum', False, []), ('X2Y', 'TRecord', False, []), ('TextBufferIter', 'TRecord', False, []),
             # registered types whose get-type function has "_get_" or "_type" more than once (foo_http_get_request_get_type)
             ('HttpGetRequest', 'TClass', True, []), ('MimeType', 'TBoxedRecord', True, [])]
SUFFIXES = ['new', 'new_with_x', 'newv', 'get_x', 'do', 'x_new_y', 'renew', 'new_', 'a', 'get_type_name', 'news', 's_register', 'iter_next']


def uscore(name):
    import re as _re
    a = _re.sub(r'([^A-Z])([A-Z])', r'\1_\2', name)
    a = _re.sub(r'([A-Z][A-Z])([A-Z][0-9a-z])', r'\1_\2', a)
    return a.lower()


def gen_world(rng):
    types = [t for t in TYPE_POOL if rng.random() < 0.7]
    names = set(t[0] for t in types)
    # parents must exist
    types = [(n, k, r, [p for p in ps if p in names]) for n, k, r, ps in types]
    prefixes = {n: uscore(n) for n, k, r, ps in types}
    funcs = []
    seen = set()

    def add(sub, first, nparams, ret):
        if sub in seen or not sub:
            return
        seen.add(sub)
        funcs.append(dict(sub=sub, first=first, nparams=nparams, ret=ret))
    tn = [t[0] for t in types]
    for _ in range(rng.randint(6, 16)):
        t = rng.choice(tn) if tn else None
        if tn and rng.random() < 0.85:
            t = rng.choice(tn)
            p = prefixes[t]
            sub = rng.choice([p + '_' + rng.choice(SUFFIXES), p + rng.choice(['s_register', 'x', '']), rng.choice(SUFFIXES)])
        else:
            sub = rng.choice(['plain_fn', 'other_thing_new', 'text', 'new', 'box'])
        r = rng.random()
        first = None
        if tn and r < 0.55:
            first = (rng.choice(tn) if rng.random() < 0.4 else (t if tn else None), rng.choice([1, 1, 1, 2, 0]))
        elif r < 0.7:
            first = ('gint', 0)
        nparams = 0 if first is None else rng.randint(1, 3)
        rr = rng.random()
        ret = None
        if tn and rr < 0.5:
            ret = rng.choice(tn) if rng.random() < 0.5 else t
        add(sub, first, nparams, ret)
    # a constructor-like function of one class that returns another class which is neither it nor one of its ancestors
    # (a sibling, a descendant), and one that returns an ancestor
    classes = [(n, ps) for n, k, r, ps in types if k == 'TClass']
    if len(classes) >= 2 and rng.random() < 0.7:
        (a, aps) = rng.choice(classes)
        others = [n for n, ps in classes if n != a and n not in aps]
        if others:
            add(prefixes[a] + '_new_caption', None, 0, rng.choice(others))
        if aps:
            add(prefixes[a] + '_new_from_parent', None, 0, rng.choice(aps))
    # functions annotated (method) whose names do not carry the prefix of their first parameter's type
    for j in range(rng.choice([0, 0, 1, 2])):
        cands = [n for n, k, r, ps in types if k in ('TClass', 'TRecord', 'TBoxedRecord', 'TInterface')]
        if cands:
            sub = rng.choice(['frobnicate', 'poke_it', 'x_do']) + str(j)
            if sub not in seen:
                seen.add(sub)
                funcs.append(dict(sub=sub, first=(rng.choice(cands), 1), nparams=rng.randint(1, 2), ret=None, ann_method=True))
    # functions of this namespace whose names also carry the (longer) symbol prefix of the included namespace FooExt
    for sub in rng.sample(['ext_thing', 'ext_get_from_window', 'extra'], rng.randint(0, 2)):
        add(sub, None, 0, None)
    # functions whose first parameter is a type of an included namespace and whose name carries that type's prefix
    for sub, ft in (('object_describe', 'GObject'), ('cancellable_poke', 'GCancellable'), ('initially_unowned_sink', 'GInitiallyUnowned')):
        if rng.random() < 0.5:
            add(sub, ('!' + ft, 1), rng.randint(1, 2), None)
    # the namespace has a second identifier/symbol prefix
    for sub in rng.sample(['shutdown', 'rec_touch', 'text_new', 'minor', 'gadget_spin'], rng.randint(1, 3)):
        if sub not in seen:
            seen.add(sub)
            funcs.append(dict(sub=sub, first=None, nparams=0, ret=None, prefix='bar'))
    # the second symbol prefix is the default spelling of the identifier prefix Bar ("bar") or an explicit one that differs ("br")
    barp = rng.choice(['bar', 'bar', 'br'])
    for f in funcs:
        if f.get('prefix') == 'bar':
            f['prefix'] = barp
    if rng.random() < 0.5:
        # annotated (method), but the first parameter is a type of an included namespace: it stays a function of this one
        funcs.append(dict(sub='attach_object', first=('!GObject', 1), nparams=2, ret=None, ann_method=True, foreign_method=True))
    if rng.random() < 0.5:
        # annotated (constructor), named after none of the namespace's types, returning a class of an included namespace
        # (GObject *foo_create_default_object (void)): it stays a function of this namespace
        funcs.append(dict(sub=rng.choice(['create_default_object', 'make_object', 'object_factory']), first=None, nparams=0,
                          ret='!GObject', foreign_constructor=True))
    for sub in rng.sample(['http_init', 'http_set_proxy', 'mime_guess', 'http_get'], rng.randint(0, 2)):
        add(sub, None, 0, None)
    consts = [('FOO_MAJOR', 'MAJOR'), ('%s_MINOR' % barp.upper(), 'MINOR'), ('FOO_EXT_SCALE', 'EXT_SCALE'),
              # mixed case after the capitalised prefix (GDK_KEY_Escape, GDK_KEY_a, G_GINT64_FORMAT-like PRI names)
              ('FOO_KEY_Escape', 'KEY_Escape'), ('FOO_KEY_a', 'KEY_a'), ('FOO_PRIkeyval', 'PRIkeyval')]
    return dict(types=types, funcs=funcs, constants=consts, barp=barp, not_described=['BAR_LEGACY'] if barp == 'br' else ['BR_LEGACY'],
                bar_types=[('BarGadget', 'Gadget')], tag_first=[n for n, k, r, ps in types if k != 'TEnum' and rng.random() < 0.4],
                tag_only=rng.random() < 0.6)


def build(world, S):
    import xml.etree.ElementTree as ET
    syms = []
    dump = ['<?xml version="1.0"?><dump>']
    line = 10
    for n, k, reg, parents in world['types']:
        cname = 'Foo' + n
        if k == 'TEnum':
            syms.append(S.enum_typedef(cname, [('FOO_%s_A' % n.upper(), 0, False), ('FOO_%s_B' % n.upper(), 1, False)], line=line))
        else:
            pair = [S.FS(S.CSYMBOL_TYPE_TYPEDEF, cname, base_type=S.FT(S.CTYPE_STRUCT, '_' + cname), line=line),
                    S.FS(S.CSYMBOL_TYPE_STRUCT, '_' + cname, base_type=S.FT(S.CTYPE_STRUCT, '_' + cname, child_list=[
                        S.FS(S.CSYMBOL_TYPE_MEMBER, 'x', base_type=S.td('gint'), line=line + 1)]), line=line + 1)]
            # "struct _FooX {...}; typedef struct _FooX FooX;" or the typedef first
            syms += pair[::-1] if n in world.get('tag_first', []) else pair
        if reg:
            gt = 'foo_%s_get_type' % uscore(n)
            syms.append(S.func(gt, S.td('GType'), [], line=line + 2))
            if k == 'TClass':
                dump.append('<class name="%s" get-type="%s" parents="%s"/>' % (cname, gt, ','.join(['Foo' + p for p in parents] + ['GObject'])))
            elif k == 'TInterface':
                dump.append('<interface name="%s" get-type="%s"/>' % (cname, gt))
            else:
                dump.append('<boxed name="%s" get-type="%s"/>' % (cname, gt))
        line += 10
    dump.append('</dump>')
    if world.get('tag_only'):
        # structures and unions declared by tag only; the first one's tag belongs to no namespace and cannot be stripped
        for kind, tag in ((S.CTYPE_STRUCT, 'foo_io_vec'), (S.CTYPE_STRUCT, 'FooPoint'), (S.CTYPE_UNION, 'FooValue')):
            syms.append(S.FS(S.CSYMBOL_TYPE_STRUCT if kind == S.CTYPE_STRUCT else S.CSYMBOL_TYPE_UNION, tag,
                             base_type=S.FT(kind, tag, child_list=[S.FS(S.CSYMBOL_TYPE_MEMBER, 'x', base_type=S.td('gint'), line=line + 1)]), line=line))
            line += 3
    for cn in world.get('not_described', []):
        syms.append(S.const(cn, base=S.td('gint'), line=line, const_int=4))
        line += 1
    for cn, _ in world.get('constants', []):
        syms.append(S.const(cn, base=S.td('gint'), line=line, const_int=3))
        line += 1
    for cname, _ in world.get('bar_types', []):
        syms.append(S.FS(S.CSYMBOL_TYPE_TYPEDEF, cname, base_type=S.FT(S.CTYPE_STRUCT, '_' + cname), line=line))
        syms.append(S.FS(S.CSYMBOL_TYPE_STRUCT, '_' + cname, base_type=S.FT(S.CTYPE_STRUCT, '_' + cname, child_list=[
            S.FS(S.CSYMBOL_TYPE_MEMBER, 'x', base_type=S.td('gint'), line=line + 1)]), line=line + 1))
        line += 5
    for f in world['funcs']:
        ps = []
        if f['first'] is not None:
            tname, depth = f['first']
            t = S.td(tname if tname == 'gint' else tname[1:] if tname.startswith('!') else 'Foo' + tname)
            for _ in range(depth):
                t = S.ptr(t)
            ps.append(S.param('self_', t))
            ps += [S.param('p%d' % i, S.td('gint')) for i in range(f['nparams'] - 1)]
        ret = S.td('gint') if f['ret'] is None else S.ptr(S.td(f['ret'][1:] if f['ret'].startswith('!') else 'Foo' + f['ret']))
        syms.append(S.func(f.get('prefix', 'foo') + '_' + f['sub'], ret, ps, line=line))
        line += 1
    # symbols that must be left out
    syms.append(S.func('_foo_hidden_fn', S.td('gint'), [], line=line + 1))
    syms.append(S.func('g_foreign_fn', S.td('gint'), [], line=line + 2))
    syms.append(S.func('baz_unrelated', S.td('gint'), [], line=line + 3))
    world['comments'] = [('/**\n * %s: (method)\n * @self_: the object\n *\n * An annotated method.\n */' % sym_of(f), '/src/foo.c', 5000 + 10 * i)
                         for i, f in enumerate(world['funcs']) if f.get('ann_method')]
    world['comments'] += [('/**\n * %s: (constructor)\n *\n * Returns: (transfer full): an object of the included namespace\n */' % sym_of(f),
                           '/src/foo.c', 9000 + 10 * i) for i, f in enumerate(world['funcs']) if f.get('foreign_constructor')]
    return syms, ET.ElementTree(ET.fromstring(''.join(dump)))


def sym_of(f):
    return f.get('prefix', 'foo') + '_' + f['sub']


def coq_world(i, world, obs, intro):
    tys = clist(['{| t_name := %s; t_kind := %s; t_prefix := %s; t_parents := %s |}'
                 % (cstr(n), k, copt(uscore(n) if reg else None, cstr), clist([cstr(p) for p in ps])) for n, k, reg, ps in world['types']]
                + ['{| t_name := %s; t_kind := TRecord; t_prefix := None; t_parents := [] |}' % cstr(l) for _, l in world.get('bar_types', [])])
    fcs = []
    for f in world['funcs']:
        first = 'None'
        if f['first'] is not None and f['first'][0] != 'gint' and not f['first'][0].startswith('!'):
            first = '(Some (%s, %d%%nat))' % (cstr(f['first'][0]), f['first'][1])
        fcs.append('{| f4_func := {| fn_symbol := %s; fn_sub := %s; fn_first := %s; fn_nparams := %d%%nat; fn_ret := %s; '
                   'fn_ann_method := %s; fn_ann_constructor := false |}; f4_intro := %s; f4_obs := %s |}'
                   % (cstr(sym_of(f)), cstr(f['sub']), first, f['nparams'], copt(None if (f['ret'] or '').startswith('!') else f['ret'], cstr), cbool(bool(f.get('ann_method'))),
                      cbool(intro.get(sym_of(f), True)),
                      clist(['(%s, %s, %s, %s)' % (cstr(a), cstr(b), cstr(c), copt(d, cstr)) for a, b, c, d in obs.get(sym_of(f), [])])))
    return '{| w4_id := %d; w4_types := %s; w4_funcs := %s |}' % (i, tys, clist(fcs))


def main(tier, seed):
    ck = Check('C04', tier, seed)
    ck.assumptions += ['declarations are SourceSymbol trees (stub lexer); registered types come with a runtime dump given as XML',
                       'one namespace with identifier prefixes Foo, Bar and symbol prefixes foo, bar; an included namespace FooExt whose symbol '
                       'prefix foo_ext extends foo; (method) annotations on functions that do not carry their type\'s prefix; struct tag before '
                       'or after its typedef; (constructor) annotations, out-direction first parameters, unions, aliases and callbacks are not '
                       'generated here',
                       'every generated function has simple types, so that none is dropped as a non-introspectable compatibility copy']
    ck.prove([], models=['Model/C04Spec.vo'])
    import scanner as S
    rng = random.Random(seed)
    n = 60 if tier == 'quick' else 900
    items, worlds = [], []
    for i in range(n):
        w = gen_world(rng)
        syms, dump = build(w, S)
        try:
            r = S.run(syms, comments=w.get('comments', ()), includes=['GLib', 'GObject', 'Gio', 'FooExt'], dump=dump, warnings=False,
                      identifier_prefixes=['Foo', 'Bar'], symbol_prefixes=['foo', w.get('barp', 'bar')])
        except (Exception, SystemExit) as e:      # noqa
            ck.failing_input('the scanner fails on a generated namespace: %r' % (e,), dict(world=w))
            continue
        ns = S.gir_ns(r.root)
        obs = {}
        intro = {}
        idcount = {}
        for el in ns.iter():
            cid = el.get(S.CNS + 'identifier')
            if cid is None or el.tag == S.CORE + 'member':
                continue
            idcount.setdefault(cid, []).append(el)
        parent_of = {ch: p for p in ns.iter() for ch in p}
        for cid, els in idcount.items():
            for el in els:
                p = parent_of.get(el)
                cont = '' if p is ns else (p.get('name') or '')
                obs.setdefault(cid, []).append((cont, el.tag.replace(S.CORE, ''), el.get('name'), el.get('moved-to')))
                if el.get('introspectable') == '0':
                    intro[cid] = False
        # ---- clauses judged directly
        case = dict(types=w['types'], functions=w['funcs'])
        prefixes_of = {t_[0]: uscore(t_[0]) for t_ in w['types']}
        kinds_of = {t_[0]: t_[1] for t_ in w['types']}
        for cid in ('_foo_hidden_fn', 'g_foreign_fn', 'baz_unrelated'):
            if cid in obs:
                ck.failing_input('a symbol that starts with an underscore or belongs to another namespace is described', dict(case, symbol=cid))
        for f in w['funcs']:
            cid = sym_of(f)
            occ = obs.get(cid, [])
            if f['sub'].endswith(('_get_type', '_get_gtype')) and f['nparams'] == 0:
                continue
            if not occ:
                ck.failing_input('a public function of the namespace is missing from the GIR', dict(case, symbol=cid))
            if f.get('foreign_method'):
                if sorted(occ) != [('', 'function', f['sub'], None)]:
                    ck.failing_input('a function annotated (method) whose first parameter belongs to an included namespace is not described '
                                     'exactly once, as a function of this namespace', dict(case, symbol=cid), detail=occ)
                continue
            if f.get('foreign_constructor'):
                if sorted(occ) != [('', 'function', f['sub'], None)]:
                    ck.failing_input('a function annotated (constructor) that returns a type of an included namespace and carries the prefix of '
                                     'none of this namespace\'s types is not described exactly once, as a function of this namespace',
                                     dict(case, symbol=cid, declaration='/** %s: (constructor) */ GObject *%s (void);' % (cid, cid)), detail=occ)
                continue
            if f.get('ann_method') and sorted(occ) != [(f['first'][0], 'method', f['sub'], None)]:
                ck.failing_input('a function annotated (method) is not described exactly once, as a method of its first parameter\'s type under '
                                 'its own name', dict(case, symbol=cid), detail=occ)
            if f['first'] is not None and f['first'][1] == 1 and not f.get('ann_method') and f['first'][0] in prefixes_of \
                    and f['sub'].startswith(prefixes_of[f['first'][0]] + '_') and len(f['sub']) > len(prefixes_of[f['first'][0]]) + 1 \
                    and kinds_of[f['first'][0]] != 'TEnum' and f.get('prefix', 'foo') == 'foo':
                # foo_<type>_<rest> (FooType *self, ...): a method <rest> of that type
                want_m = (f['first'][0], 'method', f['sub'][len(prefixes_of[f['first'][0]]) + 1:], None)
                if want_m not in occ:
                    ck.failing_input('a function that carries the symbol prefix of its first parameter\'s type is not described as that '
                                     'type\'s method under the rest of its name', dict(case, symbol=cid), detail=dict(expected=want_m, got=occ))
            real = [o for o in occ if o[3] is None]
            if len(real) > 1 or len(occ) > 2:
                ck.failing_input('a C identifier is described more than once (beyond one moved-to copy)', dict(case, symbol=cid), detail=occ)
            for cont, tag, name, moved in occ:
                if tag == 'method':
                    if f['first'] is None or f['first'][0] != cont or f['first'][1] > 1 or cont not in [t_[0] for t_ in w['types']]:
                        ck.failing_input('a function is a method of a type that is not its first parameter (by value or single pointer)',
                                         dict(case, symbol=cid), detail=occ)
                if tag == 'constructor':
                    anc = [cont] + next((ps for n_, k_, r_, ps in w['types'] if n_ == cont), [])
                    if f['ret'] is None or f['ret'] not in anc:
                        ck.failing_input('a function is a constructor of a type it does not return (nor an ancestor of it)',
                                         dict(case, symbol=cid), detail=occ)
        if w.get('tag_only'):
            for tag, local, kind in (('FooPoint', 'Point', 'record'), ('FooValue', 'Value', 'union')):
                els = [el for el in ns if el.get(S.CNS + 'type') == tag]
                if len(els) != 1 or els[0].get('name') != local or els[0].tag != S.CORE + kind:
                    ck.failing_input('a structure or union declared by its tag only is not described exactly once under its stripped name',
                                     dict(case, tag=tag, before_it='struct foo_io_vec { gint x; };'), detail=[e.attrib for e in els])
        for cn in w.get('not_described', []):
            if [el for el in ns.findall(S.CORE + 'constant') if el.get(S.CNS + 'type') == cn]:
                ck.failing_input('a constant that carries none of the namespace\'s symbol prefixes is described', dict(case, constant=cn,
                                 symbol_prefixes=['foo', w.get('barp')]))
        # constants and types under either prefix of the namespace are described once, by their stripped name
        for cn, local in w.get('constants', []):
            els = [el for el in ns.findall(S.CORE + 'constant') if el.get(S.CNS + 'type') == cn]
            if len(els) != 1 or els[0].get('name') != local:
                ck.failing_input('a public constant is not described exactly once under its stripped name', dict(case, constant=cn),
                                 detail=[e.attrib for e in els])
        for cname, local in w.get('bar_types', []) + [('Foo' + t_[0], t_[0]) for t_ in w['types']]:
            els = [el for el in ns if el.get(S.CNS + 'type') == cname or el.get(S.GLIB + 'type-name') == cname]
            if len(els) != 1 or els[0].get('name') != local:
                ck.failing_input('a public type is not described exactly once under its stripped name', dict(case, type=cname),
                                 detail=[e.attrib for e in els])
        ck.count_case(dict(types=[t[0] for t in w['types']], functions=[f['sub'] for f in w['funcs']]), nontrivial=len(w['funcs']) > 3,
                      kind='types:%d' % min(len(w['types']), 8))
        items.append(coq_world(len(worlds), w, obs, intro))
        worlds.append((w, obs))
    if ck.models_ok and items:
        bad = []
        per = 60
        for s0 in range(0, len(items), per):
            text = '\n'.join(['From Coq Require Import List NArith Bool.', 'From GIV.Lib Require Import Regex Str.',
                              'From GIV.Model Require Import C02 C04 C04Spec.', 'Import ListNotations.', 'Local Open Scope N_scope.',
                              'Definition cases : list wcase4 := [%s].' % ';\n'.join(items[s0:s0 + per]),
                              'Definition bad := Eval vm_compute in map (fun c => w4_id c :: w4_diff c) (filter w4_bad cases).', 'Print bad.'])
            rc, out = coq_eval('C04_cases_%d' % (s0 // per), text)
            if rc != 0:
                ck.tie_broken('correspondence', 'case file does not evaluate:\n' + out[-2000:])
                break
            for m in re.finditer(r'\[([\d; ]+)\]', parse_defs(out)['bad']):
                bad.append([int(x) for x in m.group(1).replace(' ', '').split(';') if x])
        ck.extra['traces_validated_against_impl'] = sum(len(w['funcs']) for w, _ in worlds)
        if bad:
            w, obs = worlds[bad[0][0]]
            fs = [w['funcs'][j] for j in bad[0][1:]]
            obs = {k_: v_ for k_, v_ in obs.items()}
            if os.environ.get('VERIF_DEBUG'):
                for b in bad[:12]:
                    ww, oo = worlds[b[0]]
                    for j in b[1:]:
                        sys.stderr.write('--- types=%s\n    func=%s\n    obs=%s\n' % ([(t[0], t[1], t[2]) for t in ww['types']], ww['funcs'][j],
                                                                                     oo.get(sym_of(ww['funcs'][j]))))
            ck.tie_broken('correspondence', 'placement of functions differs from Model.C04 on %d worlds' % len(bad),
                          dict(types=w['types'], functions=fs, observed={sym_of(f): obs.get(sym_of(f)) for f in fs}))
    return ck.finish(rule='namespaces over a pool of 12 types (classes with ancestors, registered and plain structures, an interface, an '
                          'enumeration; names that are prefixes of each other and CamelCase runs) and 6-16 functions whose symbols combine '
                          'type prefixes with constructor-like, method-like and unrelated suffixes, whose first parameter is the prefix type, '
                          'another type, a double pointer, a scalar or missing, and whose return value is the prefix type, an ancestor, '
                          'another type or a scalar; plus an underscore symbol and two foreign symbols')


if __name__ == '__main__':
    sys.exit(main(os.environ.get('VERIF_TIER', 'quick'), int(os.environ.get('VERIF_SEED', '1'))))
