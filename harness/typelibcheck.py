"""Shared by C06 and C09: decode typelib bytes with the Coq decoder (Model/C06.v, vm_compute)
and compare, inside Coq, with the lines the repository API printed for the same file."""
import os
import re
import subprocess
from concurrent.futures import ThreadPoolExecutor

from common import COQ, run


def cs(s):
    return '[' + ';'.join(str(b) for b in s.encode('utf-8', 'surrogatepass')) + ']'


TEMPLATE = '''From Coq Require Import List NArith Bool.
From GIV.Model Require Import C06.
Import ListNotations. Local Open Scope N_scope.
Definition bytes : list N := [%s].
Definition want : list str := [%s].
Fixpoint leq (a b : str) : bool := match a, b with [], [] => true | x :: a', y :: b' => (x =? y) && leq a' b' | _, _ => false end.
Fixpoint firstdiff (i : N) (a b : list str) : option (N * str) :=
  match a, b with [], [] => None | x :: a', y :: b' => if leq x y then firstdiff (i+1) a' b' else Some (i, x)
  | x :: _, [] => Some (i, x) | [], _ => Some (i, []) end.
Definition d := Eval vm_compute in firstdiff 0 (decode bytes) want.
Print d.
Definition ok := Eval vm_compute in structure_ok bytes.
Print ok.
'''


def one(job):
    name, data, api_lines = job
    d = os.path.join(COQ, 'Cases')
    os.makedirs(d, exist_ok=True)
    open(os.path.join(d, name + '.v'), 'w').write(TEMPLATE % (';'.join(str(b) for b in data), ';\n'.join(cs(l) for l in api_lines)))
    rc, out = run(['coqc', '-Q', '.', 'GIV', '-w', '-all', 'Cases/%s.v' % name], cwd=COQ, timeout=900)
    if rc != 0:
        return dict(error=out[-1500:])
    m = re.search(r'd = (.*?)\n\s+: option', out, re.S)
    ok = re.search(r'ok = (\w+)', out)
    res = dict(structure_ok=(ok.group(1) == 'true') if ok else None, diff=None)
    if m and 'Some' in m.group(1):
        nums = re.findall(r'\d+', m.group(1))
        idx = int(nums[0])
        res['diff'] = dict(line=idx, decoded=bytes(int(x) for x in nums[1:]).decode('utf-8', 'replace'),
                           api=api_lines[idx] if idx < len(api_lines) else None)
    return res


def decode_and_compare(jobs, workers=8):
    """jobs: list of (case name, typelib bytes, api dump lines without DEP lines)"""
    with ThreadPoolExecutor(max_workers=workers) as ex:
        return list(ex.map(one, jobs))
