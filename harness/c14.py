"""C14 — every typelib entry can be found by name, GType name and error domain."""
import os
import random
import shutil
import subprocess
import sys
import tempfile

from common import (Check, coq_eval, parse_defs, parse_nlist, cstr, clist, cbool, copt, c_build, c_driver, CBUILD,
                    ROOT, run)

HEAD = ('<?xml version="1.0"?>\n<repository version="1.2" xmlns="http://www.gtk.org/introspection/core/1.0" '
        'xmlns:c="http://www.gtk.org/introspection/c/1.0" xmlns:glib="http://www.gtk.org/introspection/glib/1.0">\n'
        '<include name="D" version="1.0"/>\n'
        '<namespace name="T" version="1.0" shared-library="" c:identifier-prefixes="T,Tx" c:symbol-prefixes="t">\n')


def gen_names(rng, n):
    names = set()
    stems = ['a', 'ab', 'abc', 'Window', 'window', 'get_value', 'x' * 40, 'Z', 'item', 'Item', 'n']
    while len(names) < n:
        r = rng.random()
        if r < 0.3:
            s = rng.choice(stems) + str(rng.randrange(n * 3 + 10))
        elif r < 0.5:
            s = rng.choice(stems) + '_' + rng.choice(stems) + str(rng.randrange(100))
        elif r < 0.6:
            s = 'k' + ''.join(rng.choice('ab') for _ in range(rng.randint(1, 16)))       # near collisions
        else:
            s = ''.join(rng.choice('abcdefghijklmnopqrstuvwxyzABCDEFGHIJKLMNOPQRSTUVWXYZ_0123456789')
                        for _ in range(rng.randint(1, 12)))
        if s[0].isdigit():
            s = 'n' + s
        names.add(s)
    names = sorted(names)
    rng.shuffle(names)
    return names


def make_gir(rng, names):
    """entries: (name, gtype_name or None, error_domain or None); returns xml and the entry list"""
    out = [HEAD]
    entries = []
    for i, nm in enumerate(names):
        r = rng.random()
        if r < 0.25:
            g = ('T' if rng.random() < 0.7 else 'Other') + nm[:1].upper() + nm[1:] if rng.random() < 0.9 else None
            if g and len(g) < 3:
                g = None       # GLib refuses type names shorter than three characters
            if g:
                # every kind of registered type: structures, unions, classes (abstract, final, deprecated ones too), interfaces,
                # registered enumerations and flags, boxed types
                reg = 'glib:type-name="%s" glib:get-type="t_get_type_%d"' % (g, i)
                kind = rng.choice(['record', 'record', 'union', 'class', 'class', 'class', 'interface', 'enumeration', 'bitfield', 'boxed'])
                if kind in ('record', 'union', 'interface'):
                    out.append('<%s name="%s" c:type="T%s" %s/>' % (kind, nm, nm, reg))
                elif kind == 'class':
                    flags = rng.choice(['', ' abstract="1"', ' abstract="1"', ' final="1"', ' deprecated="1"', ' abstract="1" deprecated="1"'])
                    out.append('<class name="%s" c:type="T%s" %s glib:fundamental="1"%s/>' % (nm, nm, reg, flags))
                elif kind in ('enumeration', 'bitfield'):
                    out.append('<%s name="%s" c:type="T%s" %s><member name="a" value="1" c:identifier="T_R%d"/></%s>' % (kind, nm, nm, reg, i, kind))
                else:
                    out.append('<glib:boxed glib:name="%s" c:symbol-prefix="b%d" %s/>' % (nm, i, reg))
            else:
                out.append('<record name="%s" c:type="T%s"/>' % (nm, nm))
            entries.append((nm, g, None))
        elif r < 0.4:
            d = 'dom-%s-quark' % nm.lower() if rng.random() < 0.8 else None
            dom = ' glib:error-domain="%s"' % d if d else ''
            out.append('<enumeration name="%s" c:type="T%s"%s><member name="a" value="0" c:identifier="T_A%d"/></enumeration>'
                       % (nm, nm, dom, i))
            entries.append((nm, None, d))
        elif r < 0.7:
            out.append('<constant name="%s" value="1" c:type="T_%s"><type name="gint" c:type="gint"/></constant>' % (nm, nm))
            entries.append((nm, None, None))
        else:
            out.append('<function name="%s" c:identifier="t_%s"><return-value transfer-ownership="none">'
                       '<type name="none" c:type="void"/></return-value></function>' % (nm, nm))
            entries.append((nm, None, None))
    # cross-references: parameters whose types live in the included namespace D give non-local directory
    # entries; their names must never be found as entries of this namespace
    xrefs = [x for x in XREFS if x not in set(names)][:rng.randint(0, len(XREFS))]
    # every cross-reference adds one local entry (the function using it) and one non-local entry, and the directory holds at most
    # 65535 entries in all (Header.n_entries is 16 bits wide): the largest name sets leave no room for cross-references
    xrefs = xrefs[:max(0, (65535 - len(names)) // 2)]
    for j, x in enumerate(xrefs):
        out.append('<function name="xr_fn_%d" c:identifier="t_xr_fn_%d"><return-value transfer-ownership="none">'
                   '<type name="none" c:type="void"/></return-value><parameters><parameter name="p" transfer-ownership="none">'
                   '<type name="D.%s" c:type="D%s*"/></parameter></parameters></function>' % (j, j, x, x))
        entries.append(('xr_fn_%d' % j, None, None))
    out.append('</namespace></repository>\n')
    return '\n'.join(out), entries, xrefs


XREFS = ['Object', 'Error', 'InitiallyUnowned', 'Zz9', 'a', 'Window']
DEP_GIR = ('<?xml version="1.0"?>\n<repository version="1.2" xmlns="http://www.gtk.org/introspection/core/1.0" '
           'xmlns:c="http://www.gtk.org/introspection/c/1.0" xmlns:glib="http://www.gtk.org/introspection/glib/1.0">\n'
           '<namespace name="D" version="1.0" shared-library="" c:identifier-prefixes="D" c:symbol-prefixes="d">\n'
           + ''.join('<record name="%s" c:type="D%s"/>\n' % (x, x) for x in XREFS) + '</namespace></repository>\n')


def gen_probes(rng, entries, n_abs, xrefs=()):
    names = [e[0] for e in entries]
    nameset = set(names)
    probes = [('N', n) for n in names] + [('L', n) for n in names[:40]]
    probes += [('N', x) for x in xrefs if x not in nameset] + [('L', x) for x in xrefs if x not in nameset]
    gts = [e[1] for e in entries if e[1]]
    doms = [e[2] for e in entries if e[2]]
    probes += [('G', g) for g in gts] + [('T', g) for g in gts[:50]] + [('E', d) for d in doms]
    for _ in range(n_abs):
        base = rng.choice(names)
        cand = rng.choice([base + 'x', base[:-1], base.upper(), base + '0', 'zz' + base, base[1:], '', 'nope%d' % rng.randrange(10 ** 6)])
        if cand and cand not in nameset and '\n' not in cand:
            probes.append(('N', cand))
    for _ in range(min(n_abs, 40)):
        probes.append(('G', 'TAbsent%d' % rng.randrange(10 ** 6)))
        probes.append(('E', 'absent-%d-quark' % rng.randrange(10 ** 6)))
    return probes


def run_find(exe, typelib, probes, noindex, tmp, lazy=False):
    pf = os.path.join(tmp, 'probes.txt')
    open(pf, 'w').write(''.join('%s %s\n' % p for p in probes))
    mode = ('lazy' if lazy else '') + ('noindex' if noindex else '')
    args = [exe, typelib, pf] + ([mode] if mode else [])
    p = subprocess.run(args, capture_output=True, text=True, timeout=600)
    err = None
    if p.returncode != 0:
        err = 'find_driver rc=%d %s %s' % (p.returncode, p.stdout[-300:], p.stderr[-300:])
    dirnames, res = [], []
    for l in p.stdout.splitlines():
        if l.startswith('D '):
            dirnames.append(l.split(' ', 2)[2])
        else:
            res.append(None if l[2:] == '-' else l[2:])
    return dirnames, res, err


def main(tier, seed):
    ck = Check('C14', tier, seed)
    ck.assumptions += ['CMPH/BDZ yields a minimal perfect hash for the key set: NOT proved; it is the hypothesis of '
                       'C14_complete and is checked on every generated key set (injective, below n)',
                       'strcmp/strlen/bsearch per ISO C', 'directory entries of other namespaces (non-local) not modelled']
    ck.prove(['gen_c14.py'], models=['Model/C14Spec.vo', 'Model/C14RSpec.vo'])
    ok, out = c_build()
    exe_h = exe_f = None
    if ok:
        exe_h, out = c_driver('hash_driver', os.path.join(ROOT, 'cshim', 'hash_driver.c'), exclude=('gthash',))
        if exe_h:
            exe_f, out = c_driver('find_driver', os.path.join(ROOT, 'cshim', 'find_driver.c'))
    if not (exe_h and exe_f):
        ck.tie_broken('build', 'C build failed:\n' + out[-2000:])
        return ck.finish()
    rng = random.Random(seed)
    sizes = [1, 2, 3, 5, 17, 100, 255, 256, 257, 1000] if tier == 'quick' else \
        [1, 2, 3, 4, 5, 8, 17, 64, 100, 255, 256, 257, 1000, 4097, 10000, 20000]
    big = [33000] if tier == 'quick' else [30000, 40000, 65535]
    tcases, sizecases, hcases = [], [], []
    tmp = tempfile.mkdtemp(prefix='giv14')
    try:
        # ---- gthash level: hypothesis check + size arithmetic
        for n in sizes + ([5000] if tier == 'quick' else [30000, 65535]):
            names = gen_names(rng, n)
            kf, pf = os.path.join(tmp, 'keys.txt'), os.path.join(tmp, 'pr.txt')
            open(kf, 'w').write(''.join(k + '\n' for k in names))
            probes = [rng.choice(names) + rng.choice(['x', '_', '0']) for _ in range(min(n * 2, 2000))]
            probes = [p for p in probes if p not in set(names)]
            open(pf, 'w').write(''.join(p + '\n' for p in probes))
            p = subprocess.run([exe_h, kf, pf], capture_output=True, text=True, timeout=600)
            lines = p.stdout.splitlines()
            if p.returncode == 0 and lines and lines[0] == 'UNBUILDABLE':
                ck.notes.append('CMPH could not build a hash for %d keys (the compiler then writes no index section)' % n)
                continue
            if p.returncode != 0 or not lines or not lines[0].startswith('SIZE'):
                ck.tie_broken('correspondence', 'hash_driver failed on %d keys: %s %s' % (n, p.stdout[-200:], p.stderr[-300:]))
                continue
            f = lines[0].split()
            sizecases.append((int(f[1]), int(f[2]), int(f[3]), int(f[4])))
            raw, idx = [], []
            for l in lines[1:]:
                g = l.split()
                if g[0] == 'K':
                    raw.append(int(g[2]))
                    idx.append(int(g[3]))
            ck.count_case(dict(keys=n, sample=names[:3]), kind='keyset:%d' % n)
            if sorted(raw) != list(range(n)):
                ck.notes.append('CMPH hash not minimal-perfect on a key set of %d' % n)
                ck.tie_broken('oracle', 'perfect-hash hypothesis fails on a key set of %d names' % n, dict(keys=names[:50]))
            if idx != list(range(n)):
                bad = [i for i, v in enumerate(idx) if v != i][:3]
                ck.failing_input('a present name is not found through the directory index', dict(keys=names, missing=[names[i] for i in bad]))
        # ---- repository level
        for n in sizes + big:
            names = gen_names(rng, n)
            xml, entries, xrefs = make_gir(rng, names)
            names = [e[0] for e in entries]
            open(os.path.join(tmp, 'D-1.0.gir'), 'w').write(DEP_GIR)
            if not os.path.exists(os.path.join(tmp, 'D-1.0.typelib')):
                rc, out = run([os.path.join(CBUILD, 'g-ir-compiler'), os.path.join(tmp, 'D-1.0.gir'), '-o', os.path.join(tmp, 'D-1.0.typelib')])
                if rc != 0:
                    ck.tie_broken('harness', 'cannot compile the dependency namespace: ' + out[-500:])
            gir = os.path.join(tmp, 'T-1.0.gir')
            tl = os.path.join(tmp, 'T-1.0.typelib')
            open(gir, 'w').write(xml)
            rc, out = run([os.path.join(CBUILD, 'g-ir-compiler'), '--includedir', tmp, gir, '-o', tl], timeout=900)
            if rc != 0:
                ck.failing_input('g-ir-compiler cannot build the directory index for a namespace of %d entries' % n,
                                 dict(n_entries=n), detail=out[-600:], fid='C14-F7' if n >= 30000 else None)
                continue
            probes = gen_probes(rng, entries, min(n, 300) + 20, xrefs)
            d1, r1, e1 = run_find(exe_f, tl, probes, False, tmp)
            d2, r2, e2 = run_find(exe_f, tl, probes, True, tmp)
            # the same probes with a history: asked (and missed) before the typelib is loaded, lazily, and asked again
            d3, r3, e3 = run_find(exe_f, tl, probes, n % 2 == 1, tmp, lazy=True)
            if e3:
                ck.tie_broken('correspondence', 'find_driver (lazy load after misses) failed: %s' % e3)
            if e1 or e2:
                # the lookups answered before the driver died are still judged below; the probe it died on is the input
                for path, rr, ee in (('index', r1, e1), ('linear', r2, e2)):
                    if ee and d1 and len(rr) < len(probes):
                        ck.failing_input('the repository aborts on a lookup (%s path): %s' % (path, ee[-200:]),
                                         dict(n_entries=n, probe=list(probes[len(rr)]), names=names if n <= 300 else names[:20], xrefs=xrefs))
                    elif ee:
                        ck.tie_broken('correspondence', 'find_driver failed: %s' % ee)
                if not d1:
                    continue
            by_name = {e[0]: e for e in entries}
            dirs = [by_name[x] for x in d1]
            nameset = set(by_name)
            gmap = {}
            for e in dirs:
                if e[1] and e[1] not in gmap:
                    gmap[e[1]] = e[0]
            dmap = {}
            for e in dirs:
                if e[2] and e[2] not in dmap:
                    dmap[e[2]] = e[0]
            # the property, judged directly on the answers
            r3x = r3 if (not e3 and len(r3) == len(probes)) else r1
            for (k, a), x, y, z in zip(probes, r1, r2, r3x):
                want = a if (k in 'NL' and a in nameset) else gmap.get(a) if k in 'GT' else dmap.get(a) if k == 'E' else None
                for path, got in (('index', x), ('linear', y), ('asked before a lazy load and again after it', z)):
                    if got != want:
                        ck.failing_input('lookup by %s returned %r, expected %r (%s path)' % (k, got, want, path),
                                         dict(n_entries=n, probe=[k, a], names=names if n <= 300 else names[:20]))
                        break
            ck.count_case(dict(entries=n, probes=len(probes), sample=d1[:3]), kind='typelib:%d' % n)
            if n <= 1000:
                tcases.append((dirs, probes, r1, r2))
                if not e3 and len(r3) == len(probes):
                    hcases.append((dirs, [a for (k, a) in probes if k == 'G'], [z for (k, a), z in zip(probes, r3) if k == 'G']))
    finally:
        shutil.rmtree(tmp, ignore_errors=True)

    if ck.models_ok:
        items = []
        for i, (dirs, probes, r1, r2) in enumerate(tcases):
            ds = clist(['mk %s %s %s' % (cstr(e[0]), copt(e[1], cstr), copt(e[2], cstr)) for e in dirs])
            ps = []
            for (k, a), x, y in zip(probes, r1, r2):
                kind = {'N': 0, 'L': 0, 'G': 1, 'T': 1, 'E': 2}[k]
                ps.append('{| p_kind := %d; p_arg := %s; p_obs_index := %s; p_obs_linear := %s |}'
                          % (kind, cstr(a), copt(x, cstr), copt(y, cstr)))
            items.append('{| t_id := %d; t_dirs := %s; t_probes := %s |}' % (i, ds, clist(ps)))
        sz = ['((%d)%%Z, (%d)%%Z, (%d)%%Z, (%d)%%Z)' % c for c in sizecases]
        bad = []
        for s in range(len(items)):
            text = '\n'.join([
                'From Coq Require Import List NArith ZArith Bool.',
                'From GIV.Lib Require Import Regex Str.', 'From GIV.Model Require Import C14 C14Spec.',
                'Import ListNotations.', 'Local Open Scope N_scope.',
                'Definition cases : list tcase := [%s].' % items[s],
                'Definition sizes : list (Z * Z * Z * Z) := [%s].' % (';'.join(sz) if s == 0 else ''),
                'Definition bad := Eval vm_compute in map t_id (filter t_bad cases).', 'Print bad.',
                'Definition sbad := Eval vm_compute in map (fun c => Z.to_N (fst (fst (fst c)))) (filter size_bad sizes).',
                'Print sbad.'])
            rc, out = coq_eval('C14_cases_%d' % s, text)
            if rc != 0:
                ck.tie_broken('correspondence', 'case file does not evaluate:\n' + out[-2000:])
                break
            d = parse_defs(out)
            bad += parse_nlist(d['bad'])
            sb = parse_nlist(d['sbad'])
            if sb:
                ck.tie_broken('correspondence', 'gthash.c size arithmetic differs from the model for n in %r' % sb)
        ck.extra['traces_validated_against_impl'] = sum(len(t[1]) for t in tcases)
        # histories: every GType probe asked of the empty repository, the typelib registered lazily, the probes asked again --
        # against Model.C14R.rrun (the repository with its two memo tables)
        hitems = []
        for i, (dirs, gs, obs) in enumerate(hcases):
            ds = clist(['mk %s %s %s' % (cstr(e[0]), copt(e[1], cstr), copt(e[2], cstr)) for e in dirs])
            hitems.append('{| h_id := %d; h_dirs := %s; h_gtypes := %s; h_obs := %s |}'
                          % (i, ds, clist([cstr(g) for g in gs]), clist([copt(o, cstr) for o in obs])))
        hbad = []
        for s in range(len(hitems)):
            text = '\n'.join([
                'From Coq Require Import List NArith ZArith Bool.',
                'From GIV.Lib Require Import Regex Str.', 'From GIV.Model Require Import C14 C14Spec C14R C14RSpec.',
                'Import ListNotations.', 'Local Open Scope N_scope.',
                'Definition cases : list hcase := [%s].' % hitems[s],
                'Definition hbad := Eval vm_compute in map h_id (filter h_bad cases).', 'Print hbad.'])
            rc, out = coq_eval('C14_hist_%d' % s, text)
            if rc != 0:
                ck.tie_broken('correspondence', 'history case file does not evaluate:\n' + out[-2000:])
                break
            hbad += parse_nlist(parse_defs(out)['hbad'])
        ck.extra['histories_validated_against_impl'] = len(hcases)
        if hbad:
            dirs, gs, obs = hcases[hbad[0]]
            ck.tie_broken('correspondence', 'find-by-gtype after a lazy registration differs from Model.C14R on %d typelibs' % len(hbad),
                          dict(entries=[e[0] for e in dirs][:30], gtypes=gs[:10], observed=obs[:10]))
        if bad:
            dirs, probes, r1, r2 = tcases[bad[0]]
            ck.tie_broken('correspondence', 'lookups differ from Model.C14 on %d typelibs' % len(bad),
                          dict(entries=[e[0] for e in dirs][:30]))
    return ck.finish(rule='key sets of 1..65535 distinct names (random identifiers, shared stems with numeric suffixes, '
                          'binary near-collisions, 40-character names) through the gthash.c builder/packer/search '
                          '(hypothesis check: hash injective and below n; size arithmetic) and, compiled into a '
                          'namespace of records (with GType names), error enumerations, constants and functions by '
                          'the real g-ir-compiler, through g_irepository_find_by_name/_by_gtype/_by_error_domain for '
                          'every entry and for absent probes, with the directory index and with its section id '
                          'patched away (linear path)')


if __name__ == '__main__':
    sys.exit(main(os.environ.get('VERIF_TIER', 'quick'), int(os.environ.get('VERIF_SEED', '1'))))
