"""C08 — record and union layout stored in typelibs equals the platform C ABI."""
import os
import random
import shutil
import subprocess
import sys
import tempfile

from common import (Check, coq_eval, parse_defs, parse_nlist, cstr, clist, cbool, copt, c_build, c_driver, CBUILD,
                    ROOT, run)

BASIC = {  # GIR name -> (canonical tag name for the model, C spelling)
    'gint8': ('gint8', 'signed char'), 'guint8': ('guint8', 'unsigned char'), 'gint16': ('gint16', 'short'),
    'guint16': ('guint16', 'unsigned short'), 'gint32': ('gint32', 'int'), 'guint32': ('guint32', 'unsigned int'),
    'gint64': ('gint64', 'long'), 'guint64': ('guint64', 'unsigned long'), 'gfloat': ('gfloat', 'float'),
    'gdouble': ('gdouble', 'double'), 'gboolean': ('gboolean', 'int'), 'gunichar': ('gunichar', 'unsigned int'),
    'GType': ('GType', 'unsigned long'),
    # integer aliases of girparser.c (resolved by sizeof on this platform, LP64)
    'gchar': ('gint8', 'char'), 'guchar': ('guint8', 'unsigned char'), 'gshort': ('gint16', 'short'),
    'gushort': ('guint16', 'unsigned short'), 'gint': ('gint32', 'int'), 'guint': ('guint32', 'unsigned int'),
    'glong': ('gint64', 'long'), 'gulong': ('guint64', 'unsigned long'), 'gsize': ('guint64', 'unsigned long'),
    'gssize': ('gint64', 'long'), 'gintptr': ('gint64', 'long'), 'guintptr': ('guint64', 'unsigned long'),
}
ENUM_VALUE_SETS = [[0, 1, 2], [1], [127], [128], [255], [256], [32767], [32768], [65535], [65536], [2147483647],
                   [2147483648], [4294967295], [-1], [-1, 127], [-128], [-129], [-32768], [-32769], [-2147483648],
                   [-1, 2147483648], [-1, 3000000000], [4294967296], [-2147483649], [1 << 40], [-(1 << 40), 5],
                   [0], [-1, 2147483647], [(1 << 63) - 1], [-(1 << 63)]]
TAGW = {'gint8': 1, 'guint8': 1, 'gint16': 2, 'guint16': 2, 'gint32': 4, 'guint32': 4, 'gint64': 8, 'guint64': 8}


# an included namespace B whose record Mid embeds its record Inner by value under the unqualified name; the generated
# namespace T has a record Inner of its own (two doubles), which must not be taken for B's
B_GIR = ('<?xml version="1.0"?>\n<repository version="1.2" xmlns="http://www.gtk.org/introspection/core/1.0" '
         'xmlns:c="http://www.gtk.org/introspection/c/1.0" xmlns:glib="http://www.gtk.org/introspection/glib/1.0">\n'
         '<namespace name="B" version="1.0" shared-library="" c:identifier-prefixes="B" c:symbol-prefixes="b">\n'
         '<record name="Inner" c:type="BInner"><field name="a" writable="1"><type name="gint8" c:type="gint8"/></field></record>\n'
         '<record name="Mid" c:type="BMid"><field name="tag" writable="1"><type name="gint8" c:type="gint8"/></field>'
         '<field name="in" writable="1"><type name="Inner" c:type="BInner"/></field></record>\n'
         '<record name="Wide" c:type="BWide"><field name="w" writable="1"><type name="gdouble" c:type="gdouble"/></field>'
         '<field name="z" writable="1"><type name="gint8" c:type="gint8"/></field></record>\n'
         '<record name="Handle" c:type="BHandle" disguised="1" pointer="1"/>\n'
         '</namespace>\n</repository>\n')
B_C = ('typedef struct { signed char a; } BInner; typedef struct { signed char tag; BInner in; } BMid; '
       'typedef struct { double w; signed char z; } BWide; typedef struct _BH *BHandle;')
B_COQ = {'Inner': '(TStruct [MField (basic %s%%N)])' % cstr('gint8'),
         'Mid': '(TStruct [MField (basic %s%%N); MField (TStruct [MField (basic %s%%N)])])' % (cstr('gint8'), cstr('gint8')),
         'Wide': '(TStruct [MField (basic %s%%N); MField (basic %s%%N)])' % (cstr('gdouble'), cstr('gint8'))}


class Gen(object):
    def __init__(self, rng, allow_unknown=False):
        self.rng = rng
        self.allow_unknown = allow_unknown
        self.enums = []      # list of value lists
        self.decls = []      # ('struct'|'union', [field types])

    def gen_type(self, depth, allow_unknown=True):
        r = self.rng.random()
        if not allow_unknown and 0.88 <= r < 0.93:
            r = 0.1     # no callbacks as array elements
        if r < 0.45:
            return ('basic', self.rng.choice(sorted(BASIC)))
        if r < 0.55:
            return ('ptr', self.rng.choice(['gpointer', 'utf8', 'structptr']))
        if r < 0.58 and self.rng.random() < 0.5:
            return ('foreign', self.rng.choice(['Mid', 'Inner', 'Wide', 'Mid']))
        if r < 0.60:
            # a record that is a typedef to a pointer: marked disguised="1" (the older spelling) or pointer="1"; of this namespace
            # or of the included one (Gdk.Atom used from Gtk)
            if self.rng.random() < 0.3:
                return ('fhandle',)
            return ('handle', self.rng.choice(['HandleD', 'HandleP', 'HandleDP']))
        if r < 0.615:
            # a gpointer member retyped with (type ...): the GIR names a structure, an enumeration or a basic type, the c:type stays
            # gpointer / gconstpointer
            return ('retyped', self.rng.choice(['T.Inner', 'B.Wide', 'B.Inner', 'gint8', 'gdouble'] + (['T.E0'] if self.enums else [])),
                    self.rng.choice(['gpointer', 'gconstpointer']))
        if r < 0.63 and self.enums:
            return ('enum', self.rng.randrange(len(self.enums)))
        if r < 0.75:
            n = self.rng.choice([0, 1, 2, 3, 5, 7, 16, 100, 70000 if self.rng.random() < 0.2 else 4])
            # 70000-element arrays (offsets beyond 16 bits) mostly have scalar elements; nested ones reach sizes of 2**31
            # bytes and more, where giroffsets.c (gint arithmetic) and the model (unbounded Z) part: known finding C08-K1
            if n >= 1000 and self.rng.random() < 0.9:
                return ('array', n, ('basic', self.rng.choice(['gint16', 'gint8', 'gdouble'])))
            return ('array', n, self.gen_type(depth, False) if depth > 0 else ('basic', 'gint16'))
        if r < 0.88 and self.decls and depth > 0:
            i = self.rng.randrange(len(self.decls))
            return (self.decls[i][0], i)
        if r < 0.93 and allow_unknown:      # not as an array element
            return ('callback',)
        if allow_unknown and self.allow_unknown and r < 0.97:
            return self.rng.choice([('void',), ('varray', ('basic', 'gint32'))])
        return ('basic', 'gint32')

    def batch(self, n_enums, n_decls):
        for _ in range(n_enums):
            vs = list(self.rng.choice(ENUM_VALUE_SETS))
            if self.rng.random() < 0.3:
                vs = sorted(set(vs + [self.rng.randint(-300, 70000)]))
            self.enums.append(vs)
        for _ in range(n_decls):
            kind = 'union' if self.rng.random() < 0.25 else 'struct'
            nf = self.rng.choice([0, 1, 2, 3, 3, 4, 5, 8, 12])
            fields = [self.gen_type(3) for _ in range(nf)]
            if kind == 'union':   # a callback field in a union aborts g-ir-compiler (finding F14, judged under C15)
                fields = [f if f[0] != 'callback' else ('ptr', 'gpointer') for f in fields]
            self.decls.append((kind, fields))

    # -- unknown-ness, GIR, C, Coq renderings
    def known(self, t):
        k = t[0]
        if k in ('void', 'varray'):
            return False
        if k == 'array':
            return self.known(t[2])
        if k in ('struct', 'union'):
            return all(self.known(f) for f in self.decls[t[1]][1])
        if k == 'nonintro':
            return self.known(t[1])
        return True

    def has_nonintro(self, t):
        k = t[0]
        if k == 'nonintro':
            return True
        if k == 'array':
            return self.has_nonintro(t[2])
        if k in ('struct', 'union'):
            return any(self.has_nonintro(f) for f in self.decls[t[1]][1])
        return False

    def gir_type(self, t):
        k = t[0]
        if k == 'basic':
            return '<type name="%s" c:type="%s"/>' % (t[1], t[1])
        if k == 'ptr':
            if t[1] == 'gpointer':
                return '<type name="gpointer" c:type="gpointer"/>'
            if t[1] == 'utf8':
                return '<type name="utf8" c:type="gchar*"/>'
            return '<type name="T.Opaque" c:type="TOpaque*"/>'
        if k == 'enum':
            return '<type name="T.E%d" c:type="TE%d"/>' % (t[1], t[1])
        if k == 'array':
            return '<array fixed-size="%d">%s</array>' % (t[1], self.gir_type(t[2]))
        if k == 'varray':
            return '<array zero-terminated="1">%s</array>' % self.gir_type(t[1])
        if k in ('struct', 'union'):
            return '<type name="T.D%d" c:type="TD%d"/>' % (t[1], t[1])
        if k == 'foreign':
            return '<type name="B.%s" c:type="B%s"/>' % (t[1], t[1])
        if k == 'handle':
            return '<type name="T.%s" c:type="T%s"/>' % (t[1], t[1])
        if k == 'fhandle':
            return '<type name="B.Handle" c:type="BHandle"/>'
        if k == 'retyped':
            return '<type name="%s" c:type="%s"/>' % (t[1], t[2])
        if k == 'nonintro':
            return self.gir_type(t[1])
        if k == 'void':
            return '<type name="none" c:type="void"/>'
        raise ValueError(t)

    def gir(self):
        out = ['<?xml version="1.0"?>', '<repository version="1.2" xmlns="http://www.gtk.org/introspection/core/1.0" '
               'xmlns:c="http://www.gtk.org/introspection/c/1.0" xmlns:glib="http://www.gtk.org/introspection/glib/1.0">',
               '<include name="B" version="1.0"/>',
               '<namespace name="T" version="1.0" shared-library="" c:identifier-prefixes="T" c:symbol-prefixes="t">',
               '<record name="Opaque" c:type="TOpaque"/>',
               '<record name="HandleD" c:type="THandleD" disguised="1"/>', '<record name="HandleP" c:type="THandleP" pointer="1"/>',
               '<record name="HandleDP" c:type="THandleDP" disguised="1" pointer="1"/>',
               '<record name="Inner" c:type="TInner"><field name="x" writable="1"><type name="gdouble" c:type="gdouble"/></field>'
               '<field name="y" writable="1"><type name="gdouble" c:type="gdouble"/></field></record>']
        for i, vs in enumerate(self.enums):
            out.append('<enumeration name="E%d" c:type="TE%d">' % (i, i))
            for j, v in enumerate(vs):
                out.append('<member name="m%d" value="%d" c:identifier="T_E%d_M%d"/>' % (j, v, i, j))
            out.append('</enumeration>')
        for i, (kind, fields) in enumerate(self.decls):
            tag = 'record' if kind == 'struct' else 'union'
            out.append('<%s name="D%d" c:type="TD%d">' % (tag, i, i))
            for j, f in enumerate(fields):
                if f[0] == 'callback':
                    out.append('<field name="f%d"><callback name="f%d"><return-value transfer-ownership="none">'
                               '<type name="none" c:type="void"/></return-value></callback></field>' % (j, j))
                elif f[0] == 'nonintro':
                    out.append('<field name="f%d" introspectable="0" writable="1">%s</field>' % (j, self.gir_type(f)))
                else:
                    out.append('<field name="f%d" writable="1">%s</field>' % (j, self.gir_type(f)))
            out.append('</%s>' % tag)
        out += ['</namespace>', '</repository>']
        return '\n'.join(out)

    def c_decl(self, t, name):
        k = t[0]
        if k == 'basic':
            return '%s %s' % (BASIC[t[1]][1], name)
        if k == 'ptr':
            return 'void *%s' % name
        if k == 'enum':
            return 'TE%d %s' % (t[1], name)
        if k == 'array':
            return self.c_decl(t[2], '%s[%d]' % (name, t[1]))
        if k in ('struct', 'union'):
            return 'TD%d %s' % (t[1], name)
        if k == 'foreign':
            return 'B%s %s' % (t[1], name)
        if k == 'handle':
            return 'T%s %s' % (t[1], name)
        if k == 'fhandle':
            return 'BHandle %s' % name
        if k == 'retyped':
            return '%svoid *%s' % ('const ' if t[2] == 'gconstpointer' else '', name)
        if k == 'nonintro':
            return self.c_decl(t[1], name)
        if k == 'callback':
            return 'void (*%s) (void)' % name
        raise ValueError(t)

    def c_program(self):
        out = ['#include <stdio.h>', '#include <stddef.h>', B_C,
               'typedef struct _THD *THandleD; typedef struct _THP *THandleP; typedef struct _THDP *THandleDP;']
        for i, vs in enumerate(self.enums):
            out.append('typedef enum { %s } TE%d;' % (', '.join('T_E%d_M%d = %s' % (i, j, clit(v)) for j, v in enumerate(vs)), i))
        for i, (kind, fields) in enumerate(self.decls):
            if not self.known(('struct', i)):
                out.append('typedef struct { char unknown_%d; } TD%d;' % (i, i))
                continue
            out.append('typedef %s { %s } TD%d;' % (kind, ' '.join(self.c_decl(f, 'f%d' % j) + ';' for j, f in enumerate(fields)), i))
        out.append('int main (void) {')
        for i in range(len(self.enums)):
            out.append(' printf ("E %d %%d\\n", (int) sizeof (TE%d));' % (i, i))
        for i, (kind, fields) in enumerate(self.decls):
            if not self.known(('struct', i)):
                continue
            args = ''.join(', (long) offsetof (TD%d, f%d)' % (i, j) for j in range(len(fields)))
            out.append(' printf ("D %d %%ld %%ld%s\\n", (long) sizeof (TD%d), (long) _Alignof (TD%d)%s);'
                       % (i, ' %ld' * len(fields), i, i, args))
        out.append(' return 0; }')
        return '\n'.join(out)

    def coq_type(self, t):
        k = t[0]
        if k == 'basic':
            return '(basic %s%%N)' % cstr(BASIC[t[1]][0])
        if k in ('ptr', 'callback', 'handle', 'fhandle', 'retyped', 'nonintro'):
            # (a member marked introspectable="0" is given the type gpointer by the GIR reader, whatever it is: known finding C08-K2)
            return 'pointer'
        if k == 'enum':
            return '(TEnum %s)' % clist(['(%d)' % v for v in self.enums[t[1]]])
        if k == 'array':
            return '(TArray (Some %d) %s)' % (t[1], self.coq_type(t[2]))
        if k == 'varray':
            return '(TArray None %s)' % self.coq_type(t[1])
        if k == 'void':
            return 'TUnknown'
        if k == 'foreign':
            return B_COQ[t[1]]
        if k in ('struct', 'union'):
            return '(%s %s)' % ('TStruct' if k == 'struct' else 'TUnion', self.coq_members(self.decls[t[1]][1]))
        raise ValueError(t)

    def coq_members(self, fields):
        return clist(['MField %s' % self.coq_type(f) for f in fields])


def clit(v):
    if v == -(1 << 63):
        return '(-9223372036854775807L - 1)'
    return '%dL' % v if abs(v) > 2147483647 else '%d' % v


def run_batch(g, exe_dump, tmp):
    """returns (impl: {'D': {i: (offs,size,align)}, 'E': {i: width}}, gcc: same) or raises"""
    gir = os.path.join(tmp, 'T-1.0.gir')
    open(gir, 'w').write(g.gir())
    open(os.path.join(tmp, 'B-1.0.gir'), 'w').write(B_GIR)
    rc, out = run([os.path.join(CBUILD, 'g-ir-compiler'), os.path.join(tmp, 'B-1.0.gir'), '-o', os.path.join(tmp, 'B-1.0.typelib')], timeout=120)
    if rc != 0:
        return None, 'g-ir-compiler failed on the included namespace (rc=%d): %s' % (rc, out[-1500:])
    rc, out = run([os.path.join(CBUILD, 'g-ir-compiler'), '--includedir', tmp, gir, '-o', os.path.join(tmp, 'T-1.0.typelib')], timeout=120)
    if rc != 0:
        return None, 'g-ir-compiler failed (rc=%d): %s' % (rc, out[-1500:])
    rc, out2 = run([exe_dump, tmp, 'T'], timeout=60)
    if rc != 0:
        return None, 'layout_dump failed: ' + out2[-500:]
    impl = {'D': {}, 'E': {}}
    for line in out2.splitlines():
        f = line.split()
        if f[0] in 'SU' and f[1].startswith('D'):
            impl['D'][int(f[1][1:])] = ([int(x) for x in f[5:]], int(f[2]), int(f[3]))
        elif f[0] == 'E':
            impl['E'][int(f[1][1:])] = TAGW.get(f[2], -1)
    csrc = os.path.join(tmp, 'abi.c')
    open(csrc, 'w').write(g.c_program())
    rc, out3 = run(['gcc', '-w', '-O0', '-o', os.path.join(tmp, 'abi'), csrc], timeout=120)
    if rc != 0:
        return None, 'gcc failed on the generated declarations: ' + out3[-800:]
    rc, out4 = run([os.path.join(tmp, 'abi')], timeout=30)
    gcc = {'D': {}, 'E': {}}
    for line in out4.splitlines():
        f = line.split()
        if f[0] == 'D':
            gcc['D'][int(f[1])] = ([int(x) for x in f[4:]], int(f[2]), int(f[3]))
        else:
            gcc['E'][int(f[1])] = int(f[2])
    return (impl, gcc), out


def main(tier, seed):
    ck = Check('C08', tier, seed)
    ck.assumptions += ['this platform (x86-64 LP64, gcc) is the C ABI the property refers to; gcc on the same '
                       'declarations is the oracle for the implementation',
                       'declarations are acyclic; bit-fields and packed/aligned attributes are outside GIR',
                       'libffi type sizes as reported by a probe linked against the current sources',
                       'the model computes in unbounded Z, giroffsets.c in gint: declarations of 2**31 bytes and more are judged '
                       'directly against gcc and not compared with the model (known finding C08-K1)']
    ck.prove(['gen_c08.py'], models=['Model/C08Spec.vo'])
    ok, out = c_build()
    if not ok:
        ck.tie_broken('build', 'C build of /repo failed:\n' + out[-2000:])
        return ck.finish()
    exe, out = c_driver('layout_dump', os.path.join(ROOT, 'cshim', 'layout_dump.c'))
    if not exe:
        ck.tie_broken('build', 'layout_dump driver does not build:\n' + out[-2000:])
        return ck.finish()
    rng = random.Random(seed)
    nb = 6 if tier == 'quick' else 120
    lcases, ecases = [], []
    for b in range(nb):
        g = Gen(rng)
        g.batch(12, 45)
        if b == 0:
            # fixed declarations are appended (earlier ones may already be referred to by their index and kind)
            g.enums.append([-1, 3000000000])
            g.decls.append(('struct', [('basic', 'gint8'), ('enum', len(g.enums) - 1), ('basic', 'gint8')]))
            g.decls.append(('struct', [('basic', 'gint8'), ('array', 70000, ('basic', 'gint8')), ('basic', 'gint32')]))
            g.decls.append(('struct', [('array', 70000, ('array', 70000, ('basic', 'gint16'))), ('ptr', 'utf8')]))     # 9.8 GB
            # members marked introspectable="0" (the scanner marks a long double, an unknown or a hidden type so)
            g.decls.append(('struct', [('basic', 'gint32'), ('nonintro', ('basic', 'gint32')), ('basic', 'gint32')]))
            g.decls.append(('struct', [('basic', 'gint8'), ('nonintro', ('foreign', 'Wide')), ('basic', 'gint8')]))
            g.decls.append(('struct', [('nonintro', ('ptr', 'gpointer')), ('basic', 'gint8')]))          # pointer-sized anyway
            g.decls.append(('struct', [('basic', 'gint8'), ('fhandle',), ('retyped', 'T.Inner', 'gpointer'), ('retyped', 'B.Wide', 'gconstpointer'),
                                       ('retyped', 'gint8', 'gpointer'), ('basic', 'gint8')]))
            g.decls.append(('union', [('fhandle',), ('basic', 'gint16')]))
        tmp = tempfile.mkdtemp(prefix='giv08')
        try:
            res, msg = run_batch(g, exe, tmp)
        finally:
            shutil.rmtree(tmp, ignore_errors=True)
        if res is None:
            if msg.startswith('g-ir-compiler failed') and all(g.known((kd, i)) for i, (kd, _) in enumerate(g.decls)):
                ck.failing_input('g-ir-compiler rejects declarations whose members all have known sizes', dict(gir=g.gir()), detail=msg[-600:])
            else:
                ck.tie_broken('correspondence', 'batch could not be run: ' + msg, dict(gir=g.gir()[:3000]))
            continue
        impl, gcc = res
        for i, (kind, fields) in enumerate(g.decls):
            if i not in impl['D']:
                ck.tie_broken('correspondence', 'declaration D%d missing from typelib' % i)
                continue
            lcases.append(dict(kind=kind, fields=fields, coq=g.coq_members(fields), impl=impl['D'][i], nonintro=g.has_nonintro((kind, i)),
                               gcc=gcc['D'].get(i), cdecl=g.c_decl((kind, i), 'x') and
                               ('%s { %s }' % (kind, ' '.join(g.c_decl(f, 'f%d' % j) + ';' for j, f in enumerate(fields)
                                                             if g.known(f))))))
        for i, vs in enumerate(g.enums):
            ecases.append(dict(values=vs, impl=impl['E'].get(i, -1), gcc=gcc['E'].get(i, -1)))
    # members of unknown size: g-ir-compiler turns the "has void type" warning into a fatal error,
    # so such a declaration either aborts the compilation or must be recorded as unknown
    n_unknown = 0
    for u in range(4 if tier == 'quick' else 40):
        g = Gen(rng, allow_unknown=True)
        g.batch(2, 3)
        g.decls.append(('struct', [('basic', 'gint8'), ('void',), ('basic', 'gint32')]))
        tmp = tempfile.mkdtemp(prefix='giv08')
        try:
            res, msg = run_batch(g, exe, tmp)
        finally:
            shutil.rmtree(tmp, ignore_errors=True)
        n_unknown += 1
        if res is None:
            if 'has void type' not in msg and 'is not a pointer' not in msg:
                ck.tie_broken('correspondence', 'unknown-size batch failed unexpectedly: ' + msg)
            continue
        impl, gcc = res
        for i, (kind, fields) in enumerate(g.decls):
            if i in impl['D']:
                lcases.append(dict(kind=kind, fields=fields, coq=g.coq_members(fields), impl=impl['D'][i],
                                   gcc=gcc['D'].get(i)))
    ck.extra['unknown_size_batches'] = n_unknown
    # sizes of 2**31 bytes and more are judged here and kept away from the model (which computes in unbounded Z)
    small = []
    for c in lcases:
        if c['gcc'] and c['gcc'][1] >= 2 ** 31:
            ck.count_case(dict(kind=c['kind'], fields=c['fields'], impl=c['impl'], gcc=c['gcc']), kind='%s:huge' % c['kind'])
            if c['impl'][1] != 4294967295 and (c['impl'][1] != c['gcc'][1] or c['impl'][2] != c['gcc'][2]):
                ck.failing_input('the stored size of a structure of 2**31 bytes or more is neither the C compiler\'s nor "unknown"',
                                 dict(kind=c['kind'], fields=c['fields']), detail=dict(stored=c['impl'], gcc=c['gcc']),
                                 fid='C08-K1-size-beyond-31-bits')
        else:
            small.append(c)
    lcases = small
    for c in lcases:
        ck.count_case(dict(kind=c['kind'], fields=c['fields'], impl=c['impl'], gcc=c['gcc']),
                      nontrivial=len(c['fields']) >= 2, kind='%s:%s' % (c['kind'], 'known' if c['gcc'] else 'unknown'))
    for c in ecases:
        ck.count_case(dict(enum=c['values'], impl=c['impl'], gcc=c['gcc']), kind='enum:width%d' % c['gcc'])
    if ck.models_ok and lcases:
        def zl(l):
            return clist(['(%d)' % x for x in l])

        def obs(o):
            return '(%s, %d, %d)' % (zl(o[0]), o[1], o[2])
        per = 300
        l_tie, l_spec, e_tie, e_spec = [], [], [], []
        nsh = max((len(lcases) + per - 1) // per, 1)
        for s in range(nsh):
            li = ['{| lc_id := %d; lc_union := %s; lc_members := %s; lc_impl := %s; lc_gcc := %s |}'
                  % (i, cbool(c['kind'] == 'union'), c['coq'], obs(c['impl']), copt(c['gcc'], obs))
                  for i, c in list(enumerate(lcases))[s * per:(s + 1) * per]]
            ei = ['(%d%%N, %s, %d, %d)' % (i, zl(c['values']), c['impl'], c['gcc'])
                  for i, c in list(enumerate(ecases))[s * per:(s + 1) * per]]
            text = '\n'.join([
                'From Coq Require Import List ZArith NArith Bool.',
                'From GIV.Model Require Import C08 C08Spec.', 'Import ListNotations.', 'Local Open Scope Z_scope.',
                'Definition lcases : list lcase := [%s].' % ';\n'.join(li).replace('lc_id := ', 'lc_id := (').replace('; lc_union', ')%N; lc_union'),
                'Definition ecases : list (N * list Z * Z * Z) := [%s].' % ';\n'.join(ei),
                'Definition l_tie := Eval vm_compute in map lc_id (filter lc_tie_bad lcases).', 'Print l_tie.',
                'Definition l_spec := Eval vm_compute in map lc_id (filter lc_spec_bad lcases).', 'Print l_spec.',
                'Definition e_tie := Eval vm_compute in map (fun c => fst (fst (fst c))) (filter en_tie_bad ecases).',
                'Print e_tie.',
                'Definition e_spec := Eval vm_compute in map (fun c => fst (fst (fst c))) (filter en_spec_bad ecases).',
                'Print e_spec.'])
            rc, out = coq_eval('C08_cases_%d' % s, text)
            if rc != 0:
                ck.tie_broken('correspondence', 'case file does not evaluate:\n' + out[-2000:])
                break
            d = parse_defs(out)
            l_tie += parse_nlist(d['l_tie'])
            l_spec += parse_nlist(d['l_spec'])
            e_tie += parse_nlist(d['e_tie'])
            e_spec += parse_nlist(d['e_spec'])
        ck.extra['traces_validated_against_impl'] = len(lcases) + len(ecases)
        for i in e_spec:
            c = ecases[i]
            ck.failing_input('enumeration storage width differs from the C compiler\'s', dict(values=c['values']),
                             detail=dict(stored_width=c['impl'], gcc_sizeof=c['gcc']))
        for i in l_spec:
            c = lcases[i]
            ck.failing_input('stored layout differs from the C compiler\'s (or unknown size not recorded as unknown)',
                             dict(kind=c['kind'], fields=c['fields']), detail=dict(stored=c['impl'], gcc=c['gcc']),
                             fid='C08-K2-non-introspectable-member-laid-out-as-pointer' if c.get('nonintro') else None)
        if l_tie:
            c = lcases[l_tie[0]]
            ck.tie_broken('correspondence', 'giroffsets.c disagrees with Model.C08 on %d declarations' % len(l_tie),
                          dict(kind=c['kind'], fields=c['fields'], stored=c['impl'], gcc=c['gcc']))
        if e_tie:
            c = ecases[e_tie[0]]
            ck.tie_broken('correspondence', 'compute_enum_storage_type disagrees with Model.C08.enum_storage on %d '
                          'enumerations' % len(e_tie), c)
    return ck.finish(rule='seeded generator of acyclic declarations: records/unions of 0-12 fields over 25 basic '
                          'spellings, pointers, callbacks, enumerations of 30 boundary value sets, fixed arrays '
                          '(incl. 0 and 70000 elements), nested records/unions by value (depth<=3), void and unsized '
                          'arrays as unknown-size members; each compiled by the real g-ir-compiler, read back '
                          'through the repository API, and compiled by gcc; non-trivial = at least 2 fields')


if __name__ == '__main__':
    sys.exit(main(os.environ.get('VERIF_TIER', 'quick'), int(os.environ.get('VERIF_SEED', '1'))))
