"""C03 — identifier-level annotations and tags land on the right GIR element."""
import os
import random
import re
import sys
import zlib

from common import Check, coq_eval, parse_defs, parse_nlist, cstr, clist, cbool, copt

TEXTS = ['Use foo_other() instead.', 'it is <b>old</b> & "odd"', 'short', 'Two words', 'x']
VERS = ['1.0', '2.4', '0.99.1', '3']
STAB = ['Stable', 'Unstable', 'Private']


def gen_block(rng, anns_pool=()):
    """identifier-level content of one comment block"""
    b = dict(desc=rng.choice([None, 'Describes it.', 'A longer description\nover two lines.']), since=None, deprecated=None, stability=None,
             attrs=[], skip=rng.random() < 0.12, anns=[])
    if rng.random() < 0.5:
        b['since'] = (rng.choice(VERS), rng.choice([None, None, 'since text']))
    if rng.random() < 0.4:
        b['deprecated'] = (rng.choice(VERS + [None]), rng.choice(TEXTS + [None]))
        if b['deprecated'] == (None, None):
            b['deprecated'] = ('1.2', None)
    if rng.random() < 0.3:
        b['stability'] = (rng.choice(STAB), rng.choice([None, None, 'stability text']))
    if rng.random() < 0.3:
        b['attrs'] = [('org.k%d' % i, rng.choice(['v', 'some.value', '1', 'https://example.org/ref?id=7', 'a==b'])) for i in range(rng.randint(1, 2))]
    for name, values in anns_pool:
        if rng.random() < 0.45:
            b['anns'].append((name, [rng.choice(values)]))
    return b


def render_block(key, b, params=(), value_tag=None):
    anns = []
    if b['skip']:
        anns.append('(skip)')
    if b['attrs']:
        anns.append('(attributes %s)' % ' '.join('%s=%s' % kv for kv in b['attrs']))
    for name, opts in b['anns']:
        anns.append('(%s %s)' % (name, ' '.join(opts)) if opts else '(%s)' % name)
    # annotation names are not case sensitive: "(Skip) (Rename-To x)" is what some libraries write
    spelling = zlib.crc32(key.encode()) % 6
    if spelling in (1, 4) and anns:
        def respell(a):
            m = re.match(r'^\(([a-z-]+)(.*)$', a, re.S)
            return a if not m else '(' + (m.group(1).title() if spelling == 1 else m.group(1).upper()) + m.group(2)
        anns = [respell(a) for a in anns]
    lines = ['/**', ' * %s:%s' % (key, (' ' + ' '.join(anns)) if anns else '')]
    for p in params:
        lines.append(' * @%s: a parameter' % p)
    if b['desc']:
        lines.append(' *')
        for l in b['desc'].split('\n'):
            lines.append(' * ' + l)
    tags = []
    if b['since']:
        tags.append(' * Since: %s%s' % (b['since'][0], (': ' + b['since'][1]) if b['since'][1] else ''))
    if b['deprecated']:
        v, d = b['deprecated']
        tags.append(' * Deprecated: %s%s' % (v if v else '', (': ' + d) if d and v else (' ' + d if d else '')))
    if b['stability']:
        tags.append(' * Stability: %s%s' % (b['stability'][0], (': ' + b['stability'][1]) if b['stability'][1] else ''))
    if tags:
        lines.append(' *')
        lines += tags
    lines.append(' */')
    return '\n'.join(lines)


def coq_tag(t):
    return 'None' if t is None else '(Some {| tg_value := %s; tg_desc := %s |})' % (copt(t[0], cstr), copt(t[1], cstr))


def coq_block(b):
    return ('{| b_desc := %s; b_since := %s; b_deprecated := %s; b_stability := %s; b_attrs := %s; b_skip := %s; b_anns := %s |}'
            % (copt(b['desc'], cstr), coq_tag(b['since']), coq_tag(b['deprecated']), coq_tag(b['stability']),
               clist(['(%s, %s)' % (cstr(k), cstr(v)) for k, v in b['attrs']]), cbool(b['skip']),
               clist(['(%s, %s)' % (cstr(n), clist([cstr(o) for o in opts])) for n, opts in b['anns']])))


EXTRA_ATTRS = {'SFunction': ['glib:set-property', 'glib:get-property', 'glib:finish-func', 'glib:sync-func', 'glib:async-func'],
               'SClass': ['glib:ref-func', 'glib:unref-func', 'glib:set-value-func', 'glib:get-value-func'],
               'SRecord': ['copy-function', 'free-function'], 'SProperty': ['setter', 'getter', 'default-value'],
               'SSignal': ['emitter'], 'SConstant': ['value'], 'SOther': []}


def obs_meta(el, S, sub, skip_value=False):
    def text(tag):
        ch = el.find(S.CORE + tag)
        return None if ch is None else ch.text
    extra = [(a, el.get(a.replace('glib:', S.GLIB) if a.startswith('glib:') else a)) for a in EXTRA_ATTRS[sub]]
    extra = [(a, v) for a, v in extra if v is not None and not (skip_value and a == 'value')]
    return ('{| m_doc := %s; m_version := %s; m_version_doc := %s; m_deprecated := %s; m_deprecated_doc := %s; m_stability := %s; '
            'm_stability_doc := %s; m_skip := %s; m_attrs := %s; m_extra := %s |}'
            % (copt(text('doc'), cstr), copt(el.get('version'), cstr), copt(text('doc-version'), cstr), copt(el.get('deprecated-version'), cstr),
               copt(text('doc-deprecated'), cstr), copt(el.get('stability'), cstr), copt(text('doc-stability'), cstr),
               cbool(el.get('introspectable') == '0'),
               clist(['(%s, %s)' % (cstr(a.get('name')), cstr(a.get('value'))) for a in el.findall(S.CORE + 'attribute')]),
               clist(['(%s, %s)' % (cstr(a), cstr(v)) for a, v in extra])))


FN_ANNS = [('finish-func', ['foo_fn_finish', 'other_finish']), ('sync-func', ['foo_fn_sync']), ('async-func', ['foo_fn_async']),
           ('set-property', ['alpha']), ('get-property', ['alpha', 'beta'])]


def gen_world(rng):
    import scanner as S
    syms, blocks, elems = [], [], []       # elems: (kind, sub, owner, name, finder)
    nfn = rng.randint(3, 7)
    fnames = ['fn_%s' % c for c in rng.sample(list('abcdefghij'), nfn)]
    for i, n in enumerate(fnames):
        syms.append(S.func('foo_' + n, S.td('gint'), [S.param('x', S.td('gint'))], line=10 + i))
        if rng.random() < 0.75:
            b = gen_block(rng, FN_ANNS)
            blocks.append(('foo_' + n, b, render_block('foo_' + n, b, ['x'])))
        elems.append(('EFunction', 'SFunction', '', 'foo_' + n, ('function', n)))
    # rename-to requests, in the order of the functions (the walk order of the namespace)
    renames = []
    for n in fnames:
        if rng.random() < 0.45:
            tgt = rng.choice([m for m in fnames if m != n] + ['missing'])
            renames.append((n, 'foo_' + tgt))
    for n, tgt in renames:
        existing = [b for b in blocks if b[0] == 'foo_' + n]
        if existing:
            b = existing[0][1]
        else:
            b = dict(desc=None, since=None, deprecated=None, stability=None, attrs=[], skip=False, anns=[])
            blocks.append(('foo_' + n, b, None))
        b['anns'] = [a for a in b['anns']] + [('rename-to', [tgt])]
    # a second group: functions that become methods of FooRec0 (their GIR names change when they are paired, after which
    # rename-to is applied); requests stay inside the group
    mnames = ['m_%s' % c for c in rng.sample(list('pqrstu'), rng.randint(2, 4))]
    for i, n in enumerate(mnames):
        syms.append(S.func('foo_rec0_' + n, S.td('gint'), [S.param('self', S.ptr(S.td('FooRec0'))), S.param('x', S.td('gint'))], line=50 + i))
    mrenames = []
    for n in mnames:
        if rng.random() < 0.5:
            mrenames.append((n, 'foo_rec0_' + rng.choice([m for m in mnames if m != n])))
    for n, tgt in mrenames:
        b = dict(desc=None, since=None, deprecated=None, stability=None, attrs=[], skip=False, anns=[('rename-to', [tgt])])
        blocks.append(('foo_rec0_' + n, b, None))
    blocks = [(k, b, render_block(k, b, ['self', 'x'] if k.startswith('foo_rec0_') else ['x'] if k.startswith('foo_fn') else []))
              for k, b, _ in blocks]
    # records with fields
    for i in range(rng.randint(1, 3)):
        name = 'FooRec%d' % i
        syms.append(S.FS(S.CSYMBOL_TYPE_TYPEDEF, name, base_type=S.FT(S.CTYPE_STRUCT, '_' + name), line=100 + i))
        fields = ['fa', 'fb'][:rng.randint(1, 2)]
        syms.append(S.FS(S.CSYMBOL_TYPE_STRUCT, '_' + name, base_type=S.FT(S.CTYPE_STRUCT, '_' + name, child_list=[
            S.FS(S.CSYMBOL_TYPE_MEMBER, f, base_type=S.td('gint'), line=101 + i) for f in fields]), line=101 + i))
        if rng.random() < 0.7:
            b = gen_block(rng, [('copy-func', ['foo_rec_copy']), ('free-func', ['foo_rec_free'])])
            blocks.append((name, b, render_block(name, b)))
        elems.append(('EType', 'SRecord', '', name, ('record', name[3:])))
        for f in fields:
            if rng.random() < 0.4:
                b = gen_block(rng)
                b['skip'] = False
                blocks.append(('%s.%s' % (name, f), b, render_block('%s.%s' % (name, f), b)))
            elems.append(('EField', 'SOther', name, f, ('field', name[3:], f)))
    # enumeration and constants
    syms.append(S.enum_typedef('FooKind', [('FOO_KIND_A', 0, False), ('FOO_KIND_B', 1, False)], line=200))
    if rng.random() < 0.7:
        b = gen_block(rng)
        blocks.append(('FooKind', b, render_block('FooKind', b)))
    elems.append(('EType', 'SOther', '', 'FooKind', ('enumeration', 'Kind')))
    # enumeration members: documented by a block of their own (FOO_TONE_X:), by an @FOO_TONE_X entry of the enumeration's block,
    # by both (the member's own block decides) or not at all
    members = ['FOO_TONE_LOW', 'FOO_TONE_MID', 'FOO_TONE_HIGH']
    syms.append(S.enum_typedef('FooTone', [(m, i, False) for i, m in enumerate(members)], line=230))
    mdocs = {}
    listed = [m for m in members if rng.random() < 0.5]
    tb = gen_block(rng)
    tb['skip'] = False
    blocks.append(('FooTone', tb, render_block('FooTone', tb, listed)))
    for m in members:
        own = None
        if rng.random() < 0.5:
            own = gen_block(rng)
            own['skip'] = own['skip'] and rng.random() < 0.5
            blocks.append((m, own, render_block(m, own)))
        mdocs[m] = dict(own=own, listed=m in listed)
    for i in range(rng.randint(1, 3)):
        cn = 'FOO_CONST%d' % i
        syms.append(S.const(cn, base=S.td('gint'), line=210 + i, const_int=7 + i))
        if rng.random() < 0.7:
            b = gen_block(rng, [('value', ['42', '-1', '0x10'])])
            blocks.append((cn, b, render_block(cn, b)))
        elems.append(('EConstant', 'SConstant', '', cn, ('constant', 'CONST%d' % i)))
    # a class with properties, signals, a class structure with one virtual method and its invoker
    syms += [S.FS(S.CSYMBOL_TYPE_TYPEDEF, 'FooObj', base_type=S.FT(S.CTYPE_STRUCT, '_FooObj'), line=300),
             S.FS(S.CSYMBOL_TYPE_STRUCT, '_FooObj', base_type=S.FT(S.CTYPE_STRUCT, '_FooObj', child_list=[
                 S.FS(S.CSYMBOL_TYPE_MEMBER, 'parent', base_type=S.td('GObject'), line=301)]), line=301),
             S.func('foo_obj_get_type', S.td('GType'), [], line=310)]
    props = rng.sample(['alpha', 'beta', 'gamma-ray'], rng.randint(1, 3))
    sigs = rng.sample(['changed', 'went-away'], rng.randint(0, 2))
    dump = ('<?xml version="1.0"?><dump><class name="FooObj" get-type="foo_obj_get_type" parents="GObject">'
            + ''.join('<property name="%s" type="gint" flags="3"/>' % p for p in props)
            + ''.join('<signal name="%s" return="void">%s</signal>' % (sg, '<param type="gint"/>' if sg == 'changed' else '') for sg in sigs)
            + '</class></dump>')
    # the emitters the signal blocks name: methods with the parameters of the signal behind the instance
    syms += [S.func('foo_obj_emit_it', S.VOID, [S.param('self', S.ptr(S.td('FooObj'))), S.param('x', S.td('gint'))], line=340),
             S.func('foo_obj_emit_gone', S.VOID, [S.param('self', S.ptr(S.td('FooObj')))], line=341)]
    if rng.random() < 0.7:
        b = gen_block(rng, [('ref-func', ['foo_obj_ref']), ('unref-func', ['foo_obj_unref']), ('set-value-func', ['foo_value_set_obj']),
                            ('get-value-func', ['foo_value_get_obj'])])
        blocks.append(('FooObj', b, render_block('FooObj', b)))
    elems.append(('EType', 'SClass', '', 'FooObj', ('class', 'Obj')))
    for p in props:
        if rng.random() < 0.7:
            b = gen_block(rng, [('setter', ['set_it']), ('getter', ['get_it']), ('default-value', ['5', 'NULL'])])
            b['skip'] = b['skip'] and rng.random() < 0.5
            blocks.append(('FooObj:%s' % p, b, render_block('FooObj:%s' % p, b)))
        elems.append(('EProperty', 'SProperty', 'FooObj', p, ('property', 'Obj', p)))
    for sg in sigs:
        if rng.random() < 0.7:
            b = gen_block(rng, [('emitter', ['emit_it' if sg == 'changed' else 'emit_gone'])])
            blocks.append(('FooObj::%s' % sg, b, render_block('FooObj::%s' % sg, b)))
        elems.append(('ESignal', 'SSignal', 'FooObj', sg, ('signal', 'Obj', sg)))
    # the class structure: three virtual methods; their invoker methods are found by name (same) or named by (virtual SLOT)
    # (do_it -> it_slot); a virtual method without a block of its own inherits from its invoker's block
    def member_cb(name, params, line):
        return S.FS(S.CSYMBOL_TYPE_MEMBER, name, base_type=S.ptr(S.FT(S.CTYPE_FUNCTION, base_type=S.td('gint'), child_list=params)), line=line)
    selfp = lambda: S.param('self', S.ptr(S.td('FooObj')))
    syms += [S.FS(S.CSYMBOL_TYPE_TYPEDEF, 'FooObjClass', base_type=S.FT(S.CTYPE_STRUCT, '_FooObjClass'), line=320),
             S.FS(S.CSYMBOL_TYPE_STRUCT, '_FooObjClass', base_type=S.FT(S.CTYPE_STRUCT, '_FooObjClass', child_list=[
                 S.FS(S.CSYMBOL_TYPE_MEMBER, 'parent_class', base_type=S.td('GObjectClass'), line=321),
                 member_cb('same', [selfp(), S.param('x', S.td('gint'))], 322), member_cb('it_slot', [selfp(), S.param('x', S.td('gint'))], 323),
                 member_cb('lonely', [selfp()], 324),
                 S.FS(S.CSYMBOL_TYPE_MEMBER, 'poke', base_type=S.td('FooPokeFunc'), line=325)]), line=321),
             S.cbtypedef('FooPokeFunc', S.td('gint'), [selfp(), S.param('x', S.td('gint'))], line=315),
             S.func('foo_obj_prod', S.td('gint'), [selfp(), S.param('x', S.td('gint'))], line=333),
             S.func('foo_obj_same', S.td('gint'), [selfp(), S.param('x', S.td('gint'))], line=330),
             S.func('foo_obj_do_it', S.td('gint'), [selfp(), S.param('x', S.td('gint'))], line=331)]
    if rng.random() < 0.6:
        # another class of the namespace whose class structure has slots of the same names, there invoked by methods of the same
        # name: what FooObj's virtual methods carry must not depend on it
        otherp = lambda: S.param('self', S.ptr(S.td('FooOther')))
        syms += [S.FS(S.CSYMBOL_TYPE_TYPEDEF, 'FooOther', base_type=S.FT(S.CTYPE_STRUCT, '_FooOther'), line=400),
                 S.FS(S.CSYMBOL_TYPE_STRUCT, '_FooOther', base_type=S.FT(S.CTYPE_STRUCT, '_FooOther', child_list=[
                     S.FS(S.CSYMBOL_TYPE_MEMBER, 'parent', base_type=S.td('GObject'), line=401)]), line=401),
                 S.func('foo_other_get_type', S.td('GType'), [], line=410),
                 S.FS(S.CSYMBOL_TYPE_TYPEDEF, 'FooOtherClass', base_type=S.FT(S.CTYPE_STRUCT, '_FooOtherClass'), line=420),
                 S.FS(S.CSYMBOL_TYPE_STRUCT, '_FooOtherClass', base_type=S.FT(S.CTYPE_STRUCT, '_FooOtherClass', child_list=[
                     S.FS(S.CSYMBOL_TYPE_MEMBER, 'parent_class', base_type=S.td('GObjectClass'), line=421),
                     member_cb('it_slot', [otherp(), S.param('x', S.td('gint'))], 422),
                     member_cb('poke', [otherp(), S.param('x', S.td('gint'))], 423),
                     member_cb('lonely', [otherp()], 424)]), line=421),
                 S.func('foo_other_it_slot', S.td('gint'), [otherp(), S.param('x', S.td('gint'))], line=430),
                 S.func('foo_other_poke', S.td('gint'), [otherp(), S.param('x', S.td('gint'))], line=431),
                 S.func('foo_other_lonely', S.td('gint'), [otherp()], line=432)]
        dump = dump.replace('</dump>', '<class name="FooOther" get-type="foo_other_get_type" parents="GObject"></class></dump>')
    vf = {}
    for slot, method, via in (('same', 'foo_obj_same', None), ('it_slot', 'foo_obj_do_it', 'it_slot'), ('lonely', None, None),
                              ('poke', 'foo_obj_prod', 'poke')):      # the slot "poke" is declared through a callback typedef
        own = inv = None
        r = rng.random()
        vf_anns = [('finish-func', ['load_done']), ('sync-func', ['load_now']), ('async-func', ['load_later'])]
        if r < 0.3:
            own = gen_block(rng)
            own['skip'] = False
            if rng.random() < 0.5:
                own['anns'] = [rng.choice(vf_anns)]
            blocks.append(('FooObjClass::%s' % slot, own, render_block('FooObjClass::%s' % slot, own, ['self'] + (['x'] if slot != 'lonely' else []))))
        if method and (via or rng.random() < 0.8):
            inv = gen_block(rng)
            inv['skip'] = False
            inv['anns'] = [rng.choice(vf_anns)] if rng.random() < 0.4 else []
            if via:
                inv['anns'] = [('virtual', [via])] + inv['anns']
            blocks.append((method, inv, render_block(method, inv, ['self', 'x'])))
        vf[slot] = dict(own=own, invoker_block=inv, method=method)
    if rng.random() < 0.4:
        # (virtual SLOT) on a function of the class that is not a method: it cannot be the invoker, and its block is not the
        # virtual method's
        syms.append(S.func('foo_obj_util', S.td('gint'), [S.param('x', S.td('gint'))], line=332))
        ub = gen_block(rng)
        ub['skip'] = False
        ub['anns'] = [('virtual', ['lonely'])] + ([('method', [])] if rng.random() < 0.5 else [])     # also with a misplaced (method)
        blocks.append(('foo_obj_util', ub, render_block('foo_obj_util', ub, ['x'])))
    return dict(syms=syms, blocks=blocks, elems=elems, dump=dump, fnames=fnames, renames=renames, mnames=mnames, mrenames=mrenames, vfuncs=vf,
                members=mdocs)


def tag_clauses(ck, S, el, b, case):
    """the texts of Since/Deprecated/Stability, the description and the free-form attributes of block b on element el"""
    def text(tag):
        ch = el.find(S.CORE + tag)
        return None if ch is None else ch.text
    if b['deprecated'] and b['deprecated'][1] and text('doc-deprecated') != b['deprecated'][1]:
        ck.failing_input('the text of Deprecated: is not the deprecation text of the documented element', case,
                         detail=dict(expected=b['deprecated'][1], doc_deprecated=text('doc-deprecated')))
    if b['deprecated'] and b['deprecated'][0] and el.get('deprecated-version') != b['deprecated'][0]:
        ck.failing_input('the version of Deprecated: is not the deprecated-version of the documented element', case, detail=el.attrib)
    if b['since'] and b['since'][1] and text('doc-version') != b['since'][1]:
        ck.failing_input('the text of Since: is not kept with the documented element', case,
                         detail=dict(expected=b['since'][1], doc_version=text('doc-version')))
    if b['stability'] and el.get('stability') != b['stability'][0]:
        ck.failing_input('Stability: does not become the stability of the documented element', case, detail=el.attrib)
    if b['stability'] and b['stability'][1] and text('doc-stability') != b['stability'][1]:
        ck.failing_input('the text of Stability: is not kept with the documented element', case,
                         detail=dict(expected=b['stability'][1], doc_stability=text('doc-stability')))
    if b['desc'] and text('doc') != b['desc']:
        ck.failing_input('the description is not the documentation of the documented element', case,
                         detail=dict(expected=b['desc'], doc=text('doc')))
    got = [(a.get('name'), a.get('value')) for a in el.findall(S.CORE + 'attribute')]
    for kv in b['attrs']:
        if kv not in got:
            ck.failing_input('a free-form attribute of the block is not an attribute element of the documented element', case,
                             detail=dict(expected=kv, attributes=got))


def find_el(ns, S, finder):
    kind = finder[0]
    if kind in ('function', 'record', 'enumeration', 'constant', 'class'):
        for el in ns.findall(S.CORE + kind):
            if el.get('name') == finder[1]:
                return el
        return None
    owner = None
    for tag in ('record', 'class'):
        for el in ns.findall(S.CORE + tag):
            if el.get('name') == finder[1]:
                owner = el
    if owner is None:
        return None
    tag = {'field': S.CORE + 'field', 'property': S.CORE + 'property', 'signal': S.GLIB + 'signal'}[kind]
    for el in owner.findall(tag):
        if el.get('name') == finder[2]:
            return el
    return None


def role_clauses(ck, S, ET, rng, n):
    """(constructor) and (method) select the role where the signature permits it: a function returning the type, annotated
    (constructor), is a constructor even when its first parameter has the constructed type (foo_thing_new_from_thing (FooThing *other));
    without the annotation such a function is a method; (method) makes a function whose name does not carry the prefix a method"""
    for i in range(n):
        boxed = rng.random() < 0.4       # a class, or a registered (boxed) structure
        syms = [S.FS(S.CSYMBOL_TYPE_TYPEDEF, 'FooThing', base_type=S.FT(S.CTYPE_STRUCT, '_FooThing'), line=5),
                S.FS(S.CSYMBOL_TYPE_STRUCT, '_FooThing', base_type=S.FT(S.CTYPE_STRUCT, '_FooThing', child_list=[
                    S.FS(S.CSYMBOL_TYPE_MEMBER, 'x', base_type=S.td('gint'), line=6) if boxed else
                    S.FS(S.CSYMBOL_TYPE_MEMBER, 'parent', base_type=S.td('GObject'), line=6)]), line=6),
                S.func('foo_thing_get_type', S.td('GType'), [], line=7)]
        dump = ET.ElementTree(ET.fromstring('<?xml version="1.0"?><dump>%s</dump>' % (
            '<boxed name="FooThing" get-type="foo_thing_get_type"/>' if boxed else
            '<class name="FooThing" get-type="foo_thing_get_type" parents="GObject"/>')))
        comments, want = [], {}
        line = 10
        for j, nm in enumerate(rng.sample(['new_from_thing', 'duplicate', 'derive', 'copy', 'merge', 'scaled'], rng.randint(2, 5))):
            extra = [S.param('scale', S.td('gint'))] if rng.random() < 0.5 else []
            first = rng.choice(['same', 'same', 'none', 'int'])
            ps = ([S.param('other', S.ptr(S.td('FooThing')))] if first == 'same' else [S.param('n', S.td('gint'))] if first == 'int' else []) + extra
            sym = 'foo_thing_' + nm
            syms.append(S.func(sym, S.ptr(S.td('FooThing')), ps, line=line))
            ann = rng.choice(['constructor', 'constructor', None, 'method' if first == 'same' else None])
            if ann:
                comments.append(('/**\n * %s: (%s)\n%s *\n * Returns: (transfer full): a thing\n */'
                                 % (sym, ann, ''.join(' * @%s: a value\n' % p_.ident for p_ in ps)), '/src/foo.c', 1000 + 20 * j))
            if ann == 'constructor' or (ann is None and first != 'same' and nm.startswith('new_')):
                want[sym] = ('constructor', nm, [p_.ident for p_ in ps], ann)
            elif first == 'same':
                want[sym] = ('method', nm, [p_.ident for p_ in ps][1:], ann)
            line += 1
        try:
            r = S.run(syms, comments=comments, includes=['GLib', 'GObject'], dump=dump, warnings=False)
        except (Exception, SystemExit) as e:      # noqa
            ck.failing_input('the scanner fails on annotated constructors: %r' % (e,), dict(comments=[c_[0] for c_ in comments]))
            continue
        ns = S.gir_ns(r.root)
        rec = next((x for x in ns if x.get('name') == 'Thing'), None)
        ck.count_case(dict(functions=sorted(want)), kind='roles')
        for sym, (role, nm, pnames, ann) in want.items():
            got = [(el.tag.replace(S.CORE, ''), el.get('name'),
                    [q.get('name') for q in (el.find(S.CORE + 'parameters').findall(S.CORE + 'parameter') if el.find(S.CORE + 'parameters') is not None else [])])
                   for el in ns.iter() if el.get(S.CNS + 'identifier') == sym]
            if ann == 'method':
                # the role is what the annotation selects; the name of an annotated method is left as the namespace prefix leaves it
                got = [(g_[0], nm if g_[1] in (nm, 'thing_' + nm) else g_[1], g_[2]) for g_ in got]
            if got != [(role, nm, pnames)] or rec is None:
                ck.failing_input('a function %s is not described as the %s of its type' % ('annotated (%s)' % ann if ann else 'without role annotation', role),
                                 dict(function=sym, annotation=ann, returns='FooThing*', type='boxed structure' if boxed else 'class', parameters_after_the_instance=pnames),
                                 detail=dict(expected=[role, nm, pnames], got=got))


def main(tier, seed):
    ck = Check('C03', tier, seed)
    ck.assumptions += ['declarations are SourceSymbol trees (stub lexer); the runtime dump is given as XML',
                       'comment blocks carry distinct identifiers; tag values and descriptions are single-line',
                       'annotations naming other functions (finish-func, setter, emitter, ...) are compared as the attribute value written, '
                       'whether or not the target exists', 'virtual-function blocks and (method)/(constructor) role selection are not generated']
    ck.prove([], models=['Model/C03Spec.vo'])
    import scanner as S
    import xml.etree.ElementTree as ET
    rng = random.Random(seed)
    n = 40 if tier == 'quick' else 600
    items, worlds, vitems = [], [], []
    role_clauses(ck, S, ET, rng, 12 if tier == 'quick' else 150)
    for i in range(n):
        w = gen_world(rng)
        comments = []
        line = 1000
        order = list(w['blocks'])
        rng.shuffle(order)
        for key, b, text in order:
            comments.append((text, '/src/foo.c', line))
            line += text.count('\n') + 3
        try:
            r = S.run(w['syms'], comments=comments, includes=['GLib', 'GObject', 'Gio'], dump=ET.ElementTree(ET.fromstring(w['dump'])), warnings=False)
        except (Exception, SystemExit) as e:      # noqa
            ck.failing_input('the scanner fails on documented declarations: %r' % (e,), dict(blocks=[t for _, _, t in w['blocks']]))
            continue
        ns = S.gir_ns(r.root)
        ecases = []
        blockmap = dict((k, b) for k, b, _ in w['blocks'])
        for kind, sub, owner, name, finder in w['elems']:
            el = find_el(ns, S, finder)
            if el is None:
                b = blockmap.get(name if not owner else None)
                ck.failing_input('a documented element is missing from the GIR', dict(element=[kind, owner, name], blocks=[t for _, _, t in w['blocks']]))
                continue
            ecases.append('{| e_kind := %s; e_sub := %s; e_owner := %s; e_name := %s; e_obs := %s |}'
                          % (kind, sub, cstr(owner), cstr(name), obs_meta(el, S, sub, skip_value=(sub == 'SConstant' and not any(
                              a[0] == 'value' for a in (blockmap.get(name) or dict(anns=[]))['anns'])))))
            # crisp clauses
            key = name if not owner else owner + {'EProperty': ':', 'ESignal': '::', 'EField': '.'}[kind] + name
            b = blockmap.get(key)
            case = dict(element=[kind, owner, name], block=None if b is None else render_block(key, b), all_blocks=[t for _, _, t in w['blocks']])
            if b is None:
                if any(el.get(a) for a in ('version', 'deprecated', 'stability')) or el.findall(S.CORE + 'attribute'):
                    ck.failing_input('an element without a comment block of its own carries version/deprecation/stability/attributes', case)
            else:
                if b['since'] and el.get('version') != b['since'][0]:
                    ck.failing_input('Since: does not become the version of the documented element', case, detail=el.attrib)
                if b['deprecated'] and el.get('deprecated') != '1':
                    ck.failing_input('Deprecated: does not mark the documented element deprecated', case, detail=el.attrib)
                if b['skip'] and el.get('introspectable') != '0':
                    ck.failing_input('(skip) does not make the documented element non-introspectable', case, detail=el.attrib)
                tag_clauses(ck, S, el, b, case)
                if sub == 'SConstant':
                    v = dict(b['anns']).get('value')
                    if v and el.get('value') != v[0]:
                        ck.failing_input('(value) does not override the constant', case, detail=el.attrib)
        # enumeration members
        tone = next((x for x in ns.findall(S.CORE + 'enumeration') if x.get(S.CNS + 'type') == 'FooTone'), None)
        for m, info in w['members'].items():
            mel = None if tone is None else next((x for x in tone.findall(S.CORE + 'member') if x.get(S.CNS + 'identifier') == m), None)
            case = dict(member=m, own_block=None if info['own'] is None else render_block(m, info['own']), listed_in_enumeration_block=info['listed'])
            if mel is None:
                ck.failing_input('an enumeration member is missing from the GIR', case)
            elif info['own'] is not None:
                tag_clauses(ck, S, mel, info['own'], case)
                if info['own']['skip'] and mel.get('introspectable') != '0':
                    ck.failing_input('(skip) in the block of an enumeration member does not make it non-introspectable', case, detail=mel.attrib)
            elif any(mel.get(a) for a in ('version', 'deprecated', 'stability')) or mel.findall(S.CORE + 'attribute'):
                ck.failing_input('an enumeration member without a block of its own carries version/deprecation/stability/attributes', case,
                                 detail=mel.attrib)
        # target annotations of functions: each appears as the corresponding attribute
        for key, b, _ in w['blocks']:
            if not key.startswith('foo_fn_'):
                continue
            fel = find_el(ns, S, ('function', key[4:]))
            if fel is None:
                continue
            for an, opts in b['anns']:
                if an in ('finish-func', 'sync-func', 'async-func', 'set-property', 'get-property') and fel.get(S.GLIB + an) != opts[0]:
                    ck.failing_input('the (%s) annotation of a function does not appear as glib:%s naming the given target' % (an, an),
                                     dict(function=key, block=render_block(key, b, ['x'])), detail=fel.attrib)
        # virtual methods: own block, else the invoker's block; the invoker is named
        cls = find_el(ns, S, ('class', 'Obj'))
        vms = {v.get('name'): v for v in (cls.findall(S.CORE + 'virtual-method') if cls is not None else [])}
        for slot, info in w['vfuncs'].items():
            v = vms.get(slot)
            case = dict(virtual_method=slot, own_block=None if info['own'] is None else render_block('FooObjClass::' + slot, info['own']),
                        invoker=info['method'], invoker_block=None if info['invoker_block'] is None else render_block(info['method'], info['invoker_block']))
            if v is None:
                ck.failing_input('a function-pointer member of the class structure taking the object did not become a virtual method', case)
                continue
            if info['method'] and v.get('invoker') != info['method'][len('foo_obj_'):]:
                ck.failing_input('a virtual method does not name its invoker', case, detail=v.attrib)
            src_block = info['own'] if info['own'] is not None else info['invoker_block']
            if src_block is not None and not (info['own'] is not None and info['invoker_block'] is not None):
                for an, opts in src_block['anns']:
                    if an in ('finish-func', 'sync-func', 'async-func') and v.get(S.GLIB + an) != opts[0]:
                        ck.failing_input('(%s %s) written for a virtual method (in its own block, or inherited from its invoker) is not its glib:%s'
                                         % (an, opts[0], an), case, detail=v.attrib)
            if info['own'] is not None and info['invoker_block'] is None:
                tag_clauses(ck, S, v, info['own'], case)
            elif info['own'] is None and info['invoker_block'] is not None:
                tag_clauses(ck, S, v, info['invoker_block'], dict(case, rule='a virtual method without a block of its own inherits from its invoker'))
            elif info['own'] is None and info['invoker_block'] is None:
                if any(v.get(a) for a in ('version', 'deprecated', 'stability')) or v.findall(S.CORE + 'attribute'):
                    ck.failing_input('a virtual method without any block carries version/deprecation/stability/attributes', case, detail=v.attrib)
        # the same virtual methods for Model.C03.vfunc_meta (not when both an own block and an invoker block exist: the
        # implementation merges the two, which the property does not speak about)
        for slot, info in w['vfuncs'].items():
            v = vms.get(slot)
            if v is None or (info['own'] is not None and info['invoker_block'] is not None):
                continue
            vitems.append('(%d, %s, %s, %s, %s)' % (len(vitems), clist(['(%s, %s)' % (cstr(k), coq_block(b)) for k, b, _ in w['blocks']]),
                                                  cstr(slot), copt(info['method'] if v.get('invoker') else None, cstr), obs_meta(v, S, 'SFunction')))
        fns = clist(['{| f_name := %s; f_symbol := %s; f_shadows := None; f_shadowed_by := None |}' % (cstr(f), cstr('foo_' + f)) for f in w['fnames']]
                    + ['{| f_name := %s; f_symbol := %s; f_shadows := None; f_shadowed_by := None |}' % (cstr(f), cstr('foo_rec0_' + f)) for f in w['mnames']])
        shown = []
        pairs = {}
        rec0 = find_el(ns, S, ('record', 'Rec0'))
        methods = {m.get('name'): m for m in (rec0.findall(S.CORE + 'method') if rec0 is not None else [])}
        for f in w['fnames'] + w['mnames']:
            el = find_el(ns, S, ('function', f)) if f in w['fnames'] else methods.get(f)
            if el is None and f in w['mnames']:
                ck.failing_input('a function taking the structure as first parameter did not become its method', dict(function='foo_rec0_' + f))
            if el is not None:
                shown.append('(%s, (%s, %s))' % (cstr(f), copt(el.get('shadows'), cstr), copt(el.get('shadowed-by'), cstr)))
                pairs[f] = (el.get('shadows'), el.get('shadowed-by'))
        # rename-to gives mutually consistent pairs
        for f, (sh, sb) in pairs.items():
            case = dict(functions=w['fnames'], rename_to=w['renames'], methods_of_rec0=w['mnames'], method_rename_to=w['mrenames'])
            if sh is not None and pairs.get(sh, (None, None))[1] != f:
                ck.failing_input('%s shadows %s but %s is not shadowed-by %s' % (f, sh, sh, f), case, detail=pairs, fid='C03-rename-pair')
            if sb is not None and pairs.get(sb, (None, None))[0] != f:
                ck.failing_input('%s is shadowed-by %s but %s does not shadow %s' % (f, sb, sb, f), case, detail=pairs, fid='C03-rename-pair')
        ck.count_case(dict(blocks=len(w['blocks']), elements=len(w['elems']), renames=w['renames']), nontrivial=len(w['blocks']) > 2,
                      kind='renames:%d' % len(w['renames']))
        items.append('{| w_id := %d; w_blocks := %s; w_elems := %s; w_fns := %s; w_renames := %s; w_obs_shown := %s |}'
                     % (len(worlds), clist(['(%s, %s)' % (cstr(k), coq_block(b)) for k, b, _ in w['blocks']]), clist(ecases), fns,
                        clist(['(%s, %s)' % (cstr(a), cstr(t)) for a, t in w['renames'] + w['mrenames']]), clist(shown)))
        worlds.append(w)
    if ck.models_ok and vitems:
        text = '\n'.join(['From Coq Require Import List NArith Bool.', 'From GIV.Lib Require Import Regex Str.',
                          'From GIV.Model Require Import C02 C03 C03Spec.', 'Import ListNotations.', 'Local Open Scope N_scope.',
                          'Definition vcases : list (N * list (str * block) * str * option str * meta) := [%s].' % ';\n'.join(vitems),
                          "Definition vbad := Eval vm_compute in map (fun c => fst (fst (fst (fst c)))) (filter (fun c => let '(_, bl, v, inv, o) := c in",
                          '  negb (meta_eqb (vfunc_meta bl %s v inv) o)) vcases).' % cstr('FooObjClass'), 'Print vbad.'])
        rc, out = coq_eval('C03_vcases', text)
        if rc != 0:
            ck.tie_broken('correspondence', 'virtual-method case file does not evaluate:\n' + out[-2000:])
        else:
            vb = parse_nlist(parse_defs(out)['vbad'])
            if vb:
                ck.tie_broken('correspondence', 'identifier-level data of virtual methods differs from Model.C03.vfunc_meta on %d virtual methods'
                              % len(vb), dict(case=vitems[vb[0]][:2500]))
    if ck.models_ok and items:
        bad = []
        per = 40
        for s0 in range(0, len(items), per):
            text = '\n'.join(['From Coq Require Import List NArith Bool.', 'From GIV.Lib Require Import Regex Str.',
                              'From GIV.Model Require Import C02 C03 C03Spec.', 'Import ListNotations.', 'Local Open Scope N_scope.',
                              'Definition cases : list wcase := [%s].' % ';\n'.join(items[s0:s0 + per]),
                              'Definition bad := Eval vm_compute in map (fun c => w_id c :: w_diff true c) (filter (w_bad true) cases).', 'Print bad.'])
            rc, out = coq_eval('C03_cases_%d' % (s0 // per), text)
            if rc != 0:
                ck.tie_broken('correspondence', 'case file does not evaluate:\n' + out[-2000:])
                break
            for m in re.finditer(r'\[([\d; ]+)\]', parse_defs(out)['bad']):
                bad.append([int(x) for x in m.group(1).replace(' ', '').split(';') if x])
        ck.extra['traces_validated_against_impl'] = len(items)
        if bad:
            w = worlds[bad[0][0]]
            which = [w['elems'][j][:4] if j != 999 else 'rename-to pairs' for j in bad[0][1:]]
            ck.tie_broken('correspondence', 'identifier-level data in the GIR differs from Model.C03 on %d worlds (first: %s)' % (len(bad), which),
                          dict(blocks=[t for _, _, t in w['blocks']], renames=w['renames'], differing=which))
    return ck.finish(rule='worlds of 3-7 functions, 1-3 records with fields, an enumeration, 1-3 constants and a class with properties and '
                          'signals; 75% of the elements have a comment block with description, Since/Deprecated/Stability (value and/or text), '
                          'attributes, (skip) and the kind-specific annotations (finish/sync/async-func, set/get-property, copy/free-func, '
                          'ref/unref/set-value/get-value-func, setter/getter/default-value, emitter, value); 45% of the functions carry '
                          '(rename-to) naming another function or a missing one; blocks are supplied in shuffled order')


if __name__ == '__main__':
    sys.exit(main(os.environ.get('VERIF_TIER', 'quick'), int(os.environ.get('VERIF_SEED', '1'))))
