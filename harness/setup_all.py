"""setup_cmd: run every translator, then a full .vo build of the development."""
import os, sys, glob
import common

def main():
    ts = sorted(os.path.basename(p) for p in glob.glob(os.path.join(common.ROOT, 'translate', 'gen_*.py')))
    ok, log = common.regen(ts)
    print(log[-3000:])
    if not ok:
        print('setup: a translator failed'); return 1
    ok, out = common.coq_make([], timeout=3000)
    print(out[-3000:])
    if not ok:
        print('setup: coq build failed'); return 1
    sh = os.path.join(common.ROOT, 'cshim', 'build.sh')
    if os.path.exists(sh):
        rc, out = common.run(['bash', sh], timeout=1200)
        print(out[-2000:])
        if rc != 0:
            print('setup: C build failed'); return 1
    return 0

if __name__ == '__main__':
    sys.exit(main())
