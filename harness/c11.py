"""C11 — comment parsing never aborts, and its diagnostics point at the source."""
import io
import os
import random
import re
import sys

from common import Check, coq_eval, parse_defs, parse_nlist, cstr, clist, cbool, copt, REPO
import c10

DEFECTS = [
    ('unbalanced', lambda rng: '(transfer full'), ('empty-parens', lambda rng: '()'),
    ('double-open', lambda rng: '((skip))'), ('unknown-annotation', lambda rng: '(frobnicate)'), ('bad-option-count', lambda rng: '(transfer)'),
    ('bad-option', lambda rng: '(transfer everything)'), ('list-got-pairs', lambda rng: '(scope a=b)'), ('duplicate', lambda rng: '(skip) (skip)'),
    ('nested', lambda rng: '(type (utf8)'), ('stray-close', lambda rng: '(skip) )'),
]
DIAG = re.compile(r'^(?P<file>[^:\n]+):(?P<line>\d+)(?::(?P<col>\d+))?: (?P<kind>Warning|Error|Fatal): (?P<text>.*)$')


def parse_log(log):
    """diagnostics of a message log: dict(file, line, text, quoted, caret)"""
    out = []
    lines = log.split('\n')
    i = 0
    while i < len(lines):
        m = DIAG.match(lines[i])
        if not m:
            i += 1
            continue
        d = dict(file=m.group('file'), line=int(m.group('line')), kind=m.group('kind'), text=m.group('text'), quoted=None, caret=None)
        # a quoted source line and a caret line may follow
        if i + 2 < len(lines) and re.match(r'^ *\^$', lines[i + 2]) and not DIAG.match(lines[i + 1]):
            d['quoted'] = lines[i + 1]
            d['caret'] = len(lines[i + 2]) - 1
            i += 3
        else:
            i += 1
        out.append(d)
    return out


def fresh_logger(message, enabled=True):
    out = io.StringIO()
    message.MessageLogger._instance = None
    logger = message.MessageLogger.get(namespace=None, output=out)
    logger.enable_warnings(enabled)
    return logger, out


def mutate(rng, text):
    """damage a well-formed comment block"""
    r = rng.random()
    chars = list(text)
    if r < 0.25 and chars:
        for _ in range(rng.randint(1, 4)):
            chars.insert(rng.randrange(len(chars) + 1), rng.choice('()(): @*\n\t\\/"<>=\x00é '))
    elif r < 0.45 and chars:
        for _ in range(rng.randint(1, 6)):
            if chars:
                del chars[rng.randrange(len(chars))]
    elif r < 0.6:
        ls = text.split('\n')
        rng.shuffle(ls)
        return '\n'.join(ls)
    elif r < 0.7:
        return text[:rng.randrange(len(text) + 1)]
    elif r < 0.8:
        return text.replace('\n', rng.choice(['\r\n', '\r', '\n\n', '\n *\n']))
    elif r < 0.9:
        return text + rng.choice(['', '\n', ' trailing code();', '*/', '/**'])
    else:
        return ''.join(rng.choice('/* ()@:\nab\t') for _ in range(rng.randint(0, 60)))
    return ''.join(chars)


def bare_annotation_clauses(ck, rng, parser, message):
    """every annotation name of the parser's vocabulary written without options, on the identifier line, a parameter and the
    return value: nothing raises, the block survives, and whatever is diagnosed names the line of the annotation"""
    import giscanner.annotationparser as ap
    names = sorted(set(v for k, v in vars(ap).items() if k.startswith('ANN_') and isinstance(v, str)))
    for nm in names:
        for where in ('identifier', 'parameter', 'returns'):
            lines = ['/**', ' * FooThing:%s' % (' (%s)' % nm if where == 'identifier' else ''),
                     ' * @p: %sa parameter' % ('(%s): ' % nm if where == 'parameter' else ''), ' *', ' * Description.', ' *',
                     ' * Returns: %sa value' % ('(%s): ' % nm if where == 'returns' else ''), ' */']
            text = '\n'.join(lines)
            target = {'identifier': 1, 'parameter': 2, 'returns': 6}[where]
            start = rng.choice([1, 40])
            logger, out = fresh_logger(message)
            ck.count_case(dict(annotation=nm, where=where), kind='bare:' + where)
            case = dict(text=text, first_line=start, annotation='(%s)' % nm, on=where)
            try:
                blk = parser.parse_comment_block(text, '/src/dir/foo.c', start)
            except BaseException as e:      # noqa
                ck.failing_input('parse_comment_block raises %s on an annotation written without options' % type(e).__name__, case, detail=repr(e))
                continue
            if blk is None or blk.name != 'FooThing' or 'p' not in blk.params:
                ck.failing_input('a block with an annotation written without options is lost', case)
                continue
            for d in parse_log(out.getvalue()):
                if d['line'] != start + target:
                    ck.failing_input('a diagnostic names line %d, the offending text stands on line %d' % (d['line'], start + target), case, detail=d)
                if d['quoted'] is not None and d['quoted'] != lines[target]:
                    ck.failing_input('the quoted line of a diagnostic is not the source line', case, detail=d)


def deprecated_tag_clauses(ck, rng, parser, message, n):
    """the deprecated tag-style annotations ("Transfer: full", "Attributes: (k v)") are still accepted with a deprecation warning;
    every diagnostic about them names the file and the line of the tag (quoting and caret are not judged for this form), and a
    malformed Attributes: tag is ignored as a whole"""
    for i in range(n):
        ident_anns = rng.choice(['', '', ' (skip)'])
        tag = rng.choice(['Transfer: bogus', 'Transfer: full extra', 'Attributes: (a b c) (d e)', 'Attributes: (d e) (a b c)', 'Attributes: (k v)',
                          'Transfer: none', 'Attributes: (a) (b c)', 'Scope: everywhere'])
        filler = [' * @p: a parameter', ' *', ' * A description.', ' *'][:rng.choice([0, 2, 4])]
        lines = ['/**', ' * foo_fn_%d:%s' % (i, ident_anns)] + filler + ([' *'] if not filler else []) + [' * ' + tag, ' */']
        text = '\n'.join(lines)
        start = rng.choice([1, 40, 7000])
        tag_line = start + len(lines) - 2
        logger, out = fresh_logger(message)
        case = dict(text=text, first_line=start, tag=tag)
        ck.count_case(dict(tag=tag, ident=ident_anns, filler=len(filler)), kind='deprecated-tag')
        try:
            blk = parser.parse_comment_block(text, '/src/dir/foo.c', start)
        except BaseException as e:      # noqa
            ck.failing_input('parse_comment_block raises %s on a deprecated tag-style annotation' % type(e).__name__, case, detail=repr(e))
            continue
        log = out.getvalue()
        diags = parse_log(log)
        first_lines = [l for l in log.split('\n') if re.search(r': (Warning|Error|Fatal): ', l)]
        if len(first_lines) != len(diags):
            ck.failing_input('a diagnostic about a deprecated tag-style annotation names neither file nor line', case,
                             detail=[l for l in first_lines if not DIAG.match(l)][:3])
        for d in diags:
            if d['line'] not in (tag_line, start + 1):
                ck.failing_input('a diagnostic about a deprecated tag-style annotation names line %d; the tag stands on line %d' % (d['line'], tag_line),
                                 case, detail=d)
        if 'malformed "Attributes:" tag will be ignored' in log and blk is not None and 'attributes' in blk.annotations:
            ck.failing_input('a malformed Attributes: tag is reported as ignored but partly applied', case,
                             detail=dict(annotations=c10.norm_anns(blk.annotations)))
        if logger.get_warning_count() != len(first_lines):
            ck.failing_input('the warning count differs from the number of diagnostics written', case,
                             detail=dict(written=len(first_lines), counted=logger.get_warning_count()))


def scanner_main_clauses(ck, rng, tier):
    """(3) warnings-as-errors through the real scanner_main: with --warn-error the run fails exactly when something was diagnosed,
    whatever the verbosity options; without it a diagnosed comment never fails the run.  Only the C lexer is replaced (a
    SourceScanner that hands out one comment block and one constant)."""
    import contextlib
    import shutil
    import tempfile
    import scanner  # noqa: installs the stub lexer module
    from common import ROOT
    from giscanner import message, scannermain
    from giscanner.sourcescanner import CSYMBOL_TYPE_CONST, SourceSymbol
    tmp = tempfile.mkdtemp(prefix='giv11m', dir=os.path.join(ROOT, 'build'))
    header = os.path.join(tmp, 'demo.h')
    open(header, 'w').write('\n')

    class Raw(object):
        type = CSYMBOL_TYPE_CONST
        ident = 'DEMO_ANSWER'
        base_type = None
        const_int = None
        const_double = None
        const_boolean = None
        const_string = 'forty-two'
        source_filename = header
        line = 7
        private = False

    def fake(comment):
        class Fake(object):
            def set_compiler(self, c): pass
            def set_cpp_options(self, *a, **k): pass
            def parse_files(self, f): pass
            def parse_macros(self, f): pass
            def get_errors(self): return []
            def get_symbols(self): return [SourceSymbol(None, Raw())]
            def get_comments(self): return [(comment, header, 1)]
        return Fake
    saved = getattr(scannermain, 'SourceScanner', None)
    comments = [('nothing to diagnose', '/**\n * DEMO_ANSWER:\n *\n * The answer.\n */'),
                ('an error-level diagnostic', '/**\n * DEMO_ANSWER: (skip\n *\n * The answer.\n */'),
                ('a warning-level diagnostic', '/**\n * DEMO_ANSWER: (frobnicate)\n *\n * The answer.\n */'),
                ('a warning-level diagnostic', '/**\n * DEMO_ANSWER:\n * @nope: no such parameter (in)\n *\n * The answer.\n *\n * Returns: (transfer everything): x\n */')]
    try:
        for what, comment in comments:
            for verbosity in ([], ['--warn-all'], ['--quiet'], ['--quiet', '--warn-all']):
                for warn_error in (True, False):
                    message.MessageLogger._instance = None
                    scannermain.SourceScanner = fake(comment)
                    args = ['g-ir-scanner', '--namespace=Demo', '--nsversion=1.0', '--header-only', '--output=' + os.path.join(tmp, 'Demo-1.0.gir')] \
                        + verbosity + (['--warn-error'] if warn_error else []) + [header]
                    buf = io.StringIO()
                    failed = False
                    crash = None
                    with contextlib.redirect_stdout(buf), contextlib.redirect_stderr(buf):
                        try:
                            failed = bool(scannermain.scanner_main(args))
                        except SystemExit as e:
                            failed = e.code not in (None, 0)
                        except Exception as e:      # noqa
                            crash = repr(e)
                    count = message.MessageLogger.get().get_warning_count()
                    case = dict(comment=comment, options=verbosity + (['--warn-error'] if warn_error else []))
                    ck.count_case(case, kind='scanner_main:%s' % what.split(' ')[1])
                    if crash:
                        ck.failing_input('scanner_main raises on a comment block', case, detail=crash)
                        continue
                    if what != 'nothing to diagnose' and count < 1:
                        ck.failing_input('a diagnostic is not counted (%s)' % what, case, detail=dict(counted=count, output=buf.getvalue()[-300:]))
                    if failed != (warn_error and count > 0):
                        ck.failing_input('warnings-as-errors does not fail the run exactly when something was diagnosed', case,
                                         detail=dict(counted=count, run_failed=failed, output=buf.getvalue()[-300:]))
    finally:
        if saved is not None:
            scannermain.SourceScanner = saved
        message.MessageLogger._instance = None
        shutil.rmtree(tmp, ignore_errors=True)


def main(tier, seed):
    ck = Check('C11', tier, seed)
    ck.assumptions += ['diagnostics are read from the text the MessageLogger writes; file names are compared by base name',
                       'line claims are made for blocks whose opening token stands alone on its line, caret claims for the current annotation '
                       'syntax (the hypotheses of the property)',
                       'the parser is exercised through parse_comment_blocks / parse_comment_block; the C lexer that extracts comments from '
                       'source files is not available here']
    ck.prove(['gen_c10.py', 'gen_unicode.py', 'gen_c10b.py', 'gen_c10v.py'],
             models=['Model/C10.vo', 'Model/C11.vo', 'Model/C10B.vo', 'Model/C10BEq.vo', 'Model/C10V.vo'])
    sys.path.insert(0, REPO)
    from giscanner import message
    from giscanner.annotationparser import GtkDocCommentBlockParser
    rng = random.Random(seed)
    parser = GtkDocCommentBlockParser()
    lay = dict(newline='\n', indent='', colon=True, wrap_anns=False)
    # ---- (1) nothing makes the parser raise or lose the other blocks
    n = 400 if tier == 'quick' else 6000
    for i in range(n):
        good1 = c10.make_block_text(rng, c10.gen_block(rng, 2 * i), lay)
        good2 = c10.make_block_text(rng, c10.gen_block(rng, 2 * i + 1), lay)
        bad = mutate(rng, c10.make_block_text(rng, c10.gen_block(rng, 900000 + i), lay))
        logger, out = fresh_logger(message)
        comments = [(good1, '/src/a.c', 10), (bad, '/src/b.c', 200), (good2, '/src/c.c', 3000)]
        ck.count_case(dict(damaged=bad[:200]), nontrivial=True, kind='damaged block between two good ones')
        try:
            blocks = parser.parse_comment_blocks(comments)
        except BaseException as e:      # noqa
            ck.failing_input('parse_comment_blocks raises %s' % type(e).__name__, dict(comments=[c[0] for c in comments]), detail=repr(e))
            continue
        names = [re.search(r'\* ([^\s:]+(?::[:\w-]+|\.[\w]+)?):', g).group(1) for g in (good1, good2)]
        for nm in names:
            if nm not in blocks:
                ck.failing_input('a well-formed block is lost because another comment is malformed', dict(comments=[c[0] for c in comments], lost=nm))
        if 'unrecoverable parse error' in out.getvalue():
            ck.failing_input('the parser hit an internal error (reported as "unrecoverable parse error")', dict(comment=bad), detail=out.getvalue()[-400:])
        # every diagnostic of the damaged block names its file and a line inside it
        for d in parse_log(out.getvalue()):
            base = os.path.basename(d['file'])
            if base == 'b.c':
                nlines = len(re.split(r'\r\n|\r|\n', bad))
                if not (200 <= d['line'] <= 200 + nlines):
                    ck.failing_input('a diagnostic names a line outside the comment it is about', dict(comment=bad), detail=d)
            elif base in ('a.c', 'c.c'):
                pass
            else:
                ck.failing_input('a diagnostic names a file that was not given', dict(comment=bad), detail=d)
    # ---- (2) one defect at a known place: the diagnostic names that line, quotes it, and the caret lies within it
    m = 300 if tier == 'quick' else 4000
    VALID_PARAM = [('transfer', 'list', ['full']), ('transfer', 'list', ['none']), ('nullable', 'list', []), ('out', 'list', []), ('inout', 'list', []),
                   ('skip', 'list', []), ('optional', 'list', []), ('element-type', 'list', ['utf8']), ('scope', 'list', ['call']), ('type', 'list', ['utf8']),
                   ('array', 'dict', [('fixed-size', '3')]), ('attributes', 'dict', [('org.k', 'v')])]
    VALID_IDENT = [('skip', 'list', []), ('rename-to', 'list', ['foo_bar']), ('method', 'list', []), ('constructor', 'list', [])]
    VALID_RET = [('transfer', 'list', ['full']), ('nullable', 'list', []), ('skip', 'list', []), ('element-type', 'list', ['gint'])]

    def pick(pool, k):
        out, names = [], set()
        for a in rng.sample(pool, min(k, len(pool))):
            if a[0] not in names:
                names.add(a[0])
                out.append(a)
        return out
    for i in range(m):
        b = c10.gen_block(rng, i)
        b['name'] = 'foo_fn_%d' % i
        # only valid annotations elsewhere, so that every diagnostic is about the injected defect
        b['anns'] = pick(VALID_IDENT, rng.choice([0, 0, 1]))
        for p_ in b['params']:
            p_['anns'] = pick(VALID_PARAM, rng.choice([0, 1, 2]))
        for t_ in b['tags']:
            if t_['name'] == 'Returns':
                t_['anns'] = pick(VALID_RET, rng.choice([0, 1]))
        if not b['params']:
            b['params'] = [dict(name='p0', anns=[], desc=['text'])]
        kind, mk = rng.choice(DEFECTS)
        text = c10.make_block_text(rng, b, lay)
        lines = text.split('\n')
        # the parameter lines start at index 2 (0: opening token, 1: identifier)
        k = rng.randrange(len(b['params']))
        target = [j for j, l in enumerate(lines) if l.startswith(' * @%s:' % b['params'][k]['name'])][0]
        defect = mk(rng)
        lines[target] = ' * @%s: %s: the broken one' % (b['params'][k]['name'], defect)
        # keep only the first line of that parameter: drop its continuation lines
        j = target + 1
        while j < len(lines) and lines[j].startswith(' *   '):
            del lines[j]
        variant = rng.random()
        expect_line = target
        first_line_anns = None
        if variant < 0.2:
            # the defect stands on a continuation line after a well-formed first line: nothing of that line may be applied
            lines[target] = ' * @%s: (nullable)' % b['params'][k]['name']
            lines.insert(target + 1, ' *   (skip) %s' % defect)
            expect_line = target + 1
            first_line_anns = ['nullable']
        elif variant < 0.28 and kind in ('unknown-annotation', 'bad-option-count', 'bad-option', 'list-got-pairs'):
            # the first line of the parameter is empty; its only annotations stand on the continuation line
            lines[target] = ' * @%s:' % b['params'][k]['name']
            lines.insert(target + 1, ' *   %s: the broken one' % defect)
            expect_line = target + 1
        elif variant < 0.35:
            # comment text in front of the end token and code behind it: diagnosed on the last line
            kind = 'end-token'
            lines[target] = ' * @%s: fine' % b['params'][k]['name']
            lines[-1] = rng.choice([' * trailing text */', ' */ int x;', ' * more */ call();'])
            expect_line = len(lines) - 1
        if first_line_anns is None and kind != 'end-token' and rng.random() < 0.2:
            # the offending line is written without the leading asterisk (GTK-Doc accepts that), after lines that have one;
            # the block itself may be indented
            pad = rng.choice(['', '     '])
            lines = [pad + l for l in lines]
            lines[expect_line] = rng.choice(['', ' ', '   ']) + lines[expect_line].lstrip()[1:].lstrip()
        text = '\n'.join(lines)
        target_line_text = lines[expect_line]
        start = rng.choice([1, 17, 4000])
        logger, out = fresh_logger(message)
        ck.count_case(dict(defect=kind, line=target), nontrivial=True, kind='defect:' + kind)
        try:
            blk = parser.parse_comment_block(text, '/src/dir/foo.c', start)
        except BaseException as e:      # noqa
            ck.failing_input('parse_comment_block raises %s on a malformed annotation' % type(e).__name__, dict(text=text), detail=repr(e))
            continue
        diags = parse_log(out.getvalue())
        target = expect_line
        case = dict(text=text, first_line=start, defect=kind, defect_on_line=start + target)
        if not diags:
            ck.failing_input('a malformed annotation is not diagnosed', case)
        for d in diags:
            if os.path.basename(d['file']) != 'foo.c':
                ck.failing_input('a diagnostic names another file', case, detail=d)
            if d['line'] != start + target:
                # validate() diagnostics carry the position of the part's first line (known finding C11-K1): only that exact shape is matched
                k1 = first_line_anns is not None and d['quoted'] is None and d['line'] == start + target - 1 \
                    and kind in ('unknown-annotation', 'bad-option-count', 'bad-option', 'list-got-pairs')
                ck.failing_input('a diagnostic names line %d, the offending text stands on line %d' % (d['line'], start + target), case, detail=d,
                                 fid='C11-K1-validate-names-first-line-of-part' if k1 else None)
            if d['quoted'] is not None:
                if d['quoted'] != target_line_text:
                    ck.failing_input('the quoted line of a diagnostic is not the source line', case, detail=d)
                elif not (0 <= d['caret'] <= len(d['quoted'])):
                    ck.failing_input('the caret of a diagnostic lies outside the quoted line', case, detail=d)
        # a malformed annotation is ignored rather than half-applied
        if blk is not None and first_line_anns is not None and kind in ('unbalanced', 'empty-parens', 'double-open', 'nested', 'stray-close'):
            p = blk.params.get(b['params'][k]['name'])
            if p is not None and list(p.annotations.keys()) != first_line_anns:
                ck.failing_input('a continuation line with malformed annotations is partly applied', case,
                                 detail=dict(annotations=c10.norm_anns(p.annotations), expected=first_line_anns))
        elif blk is not None and kind in ('unbalanced', 'unbalanced-close', 'empty-parens', 'double-open', 'nested', 'stray-close'):
            p = blk.params.get(b['params'][k]['name'])
            if p is not None and kind != 'unbalanced-close' and len(p.annotations) > 0:
                ck.failing_input('annotations with unbalanced or empty parentheses are partly applied', case,
                                 detail=dict(annotations=c10.norm_anns(p.annotations)))
        # counted whether or not displayed
        logger2, out2 = fresh_logger(message, enabled=False)
        try:
            parser.parse_comment_block(text, '/src/dir/foo.c', start)
        except BaseException as e:      # noqa
            ck.failing_input('parse_comment_block raises with warnings disabled', case, detail=repr(e))
            continue
        if logger2.get_warning_count() != logger.get_warning_count():
            ck.failing_input('the number of diagnostics counted depends on whether they are displayed', case,
                             detail=dict(displayed=logger.get_warning_count(), suppressed=logger2.get_warning_count()))
        if out2.getvalue():
            ck.failing_input('diagnostics are displayed although display is disabled', case, detail=out2.getvalue()[:300])
        if len(diags) != logger.get_warning_count():
            ck.failing_input('the warning count differs from the number of diagnostics written', case,
                             detail=dict(written=len(diags), counted=logger.get_warning_count()))
    # ---- (4) the whole parser against the block-level model (exceptions, blocks, every diagnostic with line, column and quoted
    # line, validate() included), on damaged blocks and on comments composed line by line; the crisp clauses are judged on
    # every one of them directly
    import c10b
    rec = c10b.Recorder()
    rng4 = random.Random(seed * 104729 + 11)
    items = []
    for i in range(150 if tier == 'quick' else 3000):
        t = mutate(rng4, c10.make_block_text(rng4, c10.gen_block(rng4, 500000 + i), lay))
        items.append((t, rng4.choice([1, 17, 4000]), 'model:damaged block'))
    for i in range(600 if tier == 'quick' else 12000):
        items.append((c10b.wild_block_text(rng4), rng4.choice([1, 17, 4000]), 'model:line soup'))
    # the shape of known finding C11-K2 (text in front of the end token) is always among them
    items.append(('/**\n * foo_fn:\n   * @p: (skip */', 10, 'model:text before the end token'))
    items.append(('/**\n * foo_fn:\n * @p: (skip) x */ code', 10, 'model:text before the end token'))
    c10b.correspondence(ck, 'C11B_cases', items, parser, rec)
    parser = GtkDocCommentBlockParser()
    deprecated_tag_clauses(ck, rng, parser, message, 40 if tier == 'quick' else 600)
    bare_annotation_clauses(ck, rng, parser, message)
    scanner_main_clauses(ck, rng, tier)
    return ck.finish(rule='(1) a damaged comment (character insertions/deletions incl. NUL, U+2028 and non-ASCII, shuffled lines, truncation, '
                          'other line endings, trailing code, soup) between two well-formed ones: no exception, both neighbours kept, every '
                          'diagnostic inside its comment; (2) a well-formed block with one of 10 annotation defects on a known parameter line, '
                          'at three different starting lines: every diagnostic names that file and line, quotes the line, keeps the caret '
                          'inside it, nothing is half-applied, and the count is the same with display on and off')


if __name__ == '__main__':
    sys.exit(main(os.environ.get('VERIF_TIER', 'quick'), int(os.environ.get('VERIF_SEED', '1'))))
