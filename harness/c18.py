"""C18 — the dependency-GIR cache never serves stale or torn data.

The real CacheStore / Transformer._parse_include of /repo run in threads (one per scanner
process) under a scheduler: every shared system call is a yield point, an event list
(Spawn / Step pid / Modify / Kill pid / Unlink / Garbage) is replayed on the implementation
and on the Coq model (Model/C18.v, evaluated by vm_compute), and the results are compared."""
import itertools
import os
import random
import shutil
import sys
import tempfile
import threading
import types

from common import Check, coq_eval, parse_defs, parse_nlist, clist, REPO

if REPO not in sys.path:
    sys.path.insert(0, REPO)
if 'giscanner._giscanner' not in sys.modules:
    _m = types.ModuleType('giscanner._giscanner')

    class _SourceScanner(object):
        pass
    _m.SourceScanner = _SourceScanner
    sys.modules['giscanner._giscanner'] = _m
os.environ.pop('GI_SCANNER_DISABLE_CACHE', None)

GIR = '''<?xml version="1.0"?>
<repository version="1.2" xmlns="http://www.gtk.org/introspection/core/1.0" xmlns:c="http://www.gtk.org/introspection/c/1.0" xmlns:glib="http://www.gtk.org/introspection/glib/1.0">
<namespace name="Dep" version="1.0" shared-library="" c:identifier-prefixes="Dep" c:symbol-prefixes="v%d">
</namespace></repository>
'''


class Killed(BaseException):
    pass


class Sched(object):
    """One baton: a thread runs only between grant() and its next yield point."""

    def __init__(self):
        self.cv = threading.Condition()
        self.turn = None          # pid allowed to run, or None (scheduler's turn)
        self.local = threading.local()
        self.killed = set()
        self.at_yield = {}        # pid -> name of the yield point it waits at
        self.finished = {}        # pid -> result or exception

    def yield_point(self, name):
        pid = getattr(self.local, 'pid', None)
        if pid is None:
            return
        pend = getattr(self.local, 'pending_virtual', 0)
        for _ in range(pend + 1):
            with self.cv:
                self.at_yield[pid] = name
                self.turn = None
                self.cv.notify_all()
                while self.turn != pid:
                    if pid in self.killed:
                        raise Killed()
                    self.cv.wait(timeout=0.05)
        self.local.pending_virtual = 0

    def run_thread(self, pid, fn):
        def body():
            self.local.pid = pid
            self.local.pending_virtual = 0
            self.local.in_store = False
            try:
                with self.cv:
                    while self.turn != pid:
                        if pid in self.killed:
                            raise Killed()
                        self.cv.wait(timeout=0.05)
                r = fn()
                res = ('ok', r)
            except Killed:
                res = ('killed', None)
            except BaseException as e:      # noqa
                res = ('exc', repr(e))
            with self.cv:
                self.finished[pid] = res
                if self.turn == pid:
                    self.turn = None
                self.cv.notify_all()
        t = threading.Thread(target=body, daemon=True)
        t.start()
        return t

    def grant(self, pid):
        """let pid run until its next yield point or its end"""
        with self.cv:
            if pid in self.finished or pid in self.killed:
                return
            self.turn = pid
            self.cv.notify_all()
            while self.turn is not None:
                self.cv.wait(timeout=0.05)


class Proxy(object):
    def __init__(self, real, overrides):
        self._real = real
        self._ov = overrides

    def __getattr__(self, k):
        if k in self._ov:
            return self._ov[k]
        return getattr(self._real, k)


class World(object):
    """patched giscanner.cachestore / giscanner.transformer for one run"""

    def __init__(self, root):
        import pickle as real_pickle
        import shutil as real_shutil
        import giscanner.cachestore as cs
        import giscanner.transformer as tr
        import giscanner.girparser as gp
        self.cs, self.tr, self.gp = cs, tr, gp
        self.sched = Sched()
        self.clock = 1
        self.root = root
        self.source = os.path.join(root, 'Dep-1.0.gir')
        sched = self.sched
        world = self

        def y(name):
            sched.yield_point(name)

        def os_stat(path, *a, **k):
            # the store-side stat of a missing entry is followed by a private step (mkstemp +
            # first half) with no system call of its own: account for it as a virtual yield
            y('stat:' + ('source' if path == world.source else 'store'))
            try:
                return os.stat(path, *a, **k)
            except FileNotFoundError:
                if path != world.source and getattr(sched.local, 'in_store', False):
                    sched.local.pending_virtual = 1
                raise

        def os_fstat(fd):
            y('fstat')
            low = getattr(sched.local, 'lowfd', None)
            if fd == 0 and low is not None:
                return os.fstat(low.fileno())
            return os.fstat(fd)

        def os_utime(path, *a, **k):
            y('utime')
            return os.utime(path, *a, **k)

        class LowFd(object):
            # a scanner started with its standard input closed (daemonised build tools): the first file it opens is descriptor 0
            def __init__(self, f):
                self._f = f

            def fileno(self):
                return 0

            def __enter__(self):
                self._f.__enter__()
                return self

            def __exit__(self, *a):
                sched.local.lowfd = None
                return self._f.__exit__(*a)

            def __getattr__(self, k):
                return getattr(self._f, k)

        def cs_open(path, mode='r', *a, **k):
            y('open')
            f = open(path, mode, *a, **k)
            if getattr(sched.local, 'stdin_closed', False) and 'r' in mode:
                sched.local.lowfd = f
                return LowFd(f)
            return f

        def p_load(f):
            y('unpickle')
            return real_pickle.load(getattr(f, '_f', f))

        def p_dump(data, f):
            blob = real_pickle.dumps(data)
            h = len(blob) // 2
            f.write(blob[:h])
            f.flush()
            y('write2')
            f.write(blob[h:])
            f.flush()
            os.utime(f.fileno(), (world.clock, world.clock))

        def sh_move(a, b):
            y('move')
            return real_shutil.move(a, b)

        self.saved = (cs.os, cs.pickle, cs.shutil, getattr(cs, 'open', None), tr.os, gp.GIRParser.parse)
        cs.os = Proxy(os, dict(stat=os_stat, fstat=os_fstat, utime=os_utime))
        cs.pickle = Proxy(real_pickle, dict(load=p_load, dump=p_dump))
        cs.shutil = Proxy(real_shutil, dict(move=sh_move))
        cs.open = cs_open
        tr.os = Proxy(os, dict(stat=os_stat))
        real_parse = gp.GIRParser.parse

        def parse(selfp, filename):
            y('parse')
            r = real_parse(selfp, filename)
            sched.local.in_store = True
            return r
        gp.GIRParser.parse = parse

    def restore(self):
        cs, tr, gp = self.cs, self.tr, self.gp
        cs.os, cs.pickle, cs.shutil, op, tr.os, gp.GIRParser.parse = self.saved
        if op is None:
            del cs.open
        else:
            cs.open = op


def run_impl(events):
    """Replays the event list on the real code. Returns {pid: version or None}."""
    sys.path.insert(0, REPO)
    root = tempfile.mkdtemp(prefix='giv18')
    old_xdg = os.environ.get('XDG_CACHE_HOME')
    os.environ['XDG_CACHE_HOME'] = os.path.join(root, 'cache')
    w = World(root)
    threads = []
    try:
        from giscanner.transformer import Transformer
        from giscanner import ast
        open(w.source, 'w').write(GIR % 0)
        os.utime(w.source, (0, 0))
        transformers = []
        nspawn = sum(1 for e in events if e[0] == 'Spawn')
        for i in range(nspawn):
            t = Transformer(ast.Namespace('Main', '1.0'))
            t.set_passthrough_mode()
            transformers.append(t)
        store_file = transformers[0]._cachestore._get_filename(w.source) if transformers else None
        next_pid = 0
        for e in events:
            if e[0] == 'Spawn':
                pid = next_pid
                next_pid += 1
                tr = transformers[pid]

                def fn(tr=tr, pid=pid):
                    w.sched.local.stdin_closed = pid % 2 == 1
                    p = tr._parse_include(w.source)
                    return int(p.get_namespace().symbol_prefixes[0][1:])
                threads.append(w.sched.run_thread(pid, fn))
                w.sched.grant(pid)          # runs up to the first yield point (before open)
            elif e[0] == 'Step':
                w.sched.grant(e[1])
            elif e[0] == 'Modify':
                open(w.source, 'w').write(GIR % w.clock)
                os.utime(w.source, (w.clock, w.clock))
            elif e[0] == 'Kill':
                with w.sched.cv:
                    if e[1] < next_pid and e[1] not in w.sched.finished:
                        w.sched.killed.add(e[1])
                        w.sched.cv.notify_all()
                        while e[1] not in w.sched.finished:      # the kill is complete before the next event
                            w.sched.cv.wait(timeout=0.05)
            elif e[0] == 'Unlink':
                try:
                    os.unlink(store_file)
                except OSError:
                    pass
            elif e[0] == 'Garbage':
                tmpn = store_file + '.g'
                open(tmpn, 'wb').write(b'\x80\x04garbage')
                os.utime(tmpn, (w.clock, w.clock))
                os.replace(tmpn, store_file)
            w.clock += 1
        res = {}
        for pid in range(next_pid):
            r = w.sched.finished.get(pid)
            res[pid] = r
        # stop everything still blocked
        with w.sched.cv:
            for pid in range(next_pid):
                w.sched.killed.add(pid)
            w.sched.cv.notify_all()
        for t in threads:
            t.join(timeout=5)
        return res
    finally:
        w.restore()
        if old_xdg is None:
            os.environ.pop('XDG_CACHE_HOME', None)
        else:
            os.environ['XDG_CACHE_HOME'] = old_xdg
        shutil.rmtree(root, ignore_errors=True)


# ---------------------------------------------------------------- version protocol (Model/C18V.v)

def run_version(events):
    """Replays a version-protocol event list on the real CacheStore: one thread per scanner
    process, every system call of the version check is a yield point, store/load are atomic.
    Returns the list of (loader version, entry version) pairs in the order they were served,
    and the exceptions raised."""
    import pickle as real_pickle
    import shutil as real_shutil
    import giscanner.cachestore as cs
    root = tempfile.mkdtemp(prefix='giv18v')
    old_xdg = os.environ.get('XDG_CACHE_HOME')
    os.environ['XDG_CACHE_HOME'] = os.path.join(root, 'cache')
    source = os.path.join(root, 'Dep-1.0.gir')
    open(source, 'w').write(GIR % 0)
    os.utime(source, (0, 0))
    sched = Sched()
    tls = sched.local

    def y(name):
        if getattr(tls, 'init', False):
            sched.yield_point(name)

    def cs_open(path, mode='r', *a, **k):
        if os.path.basename(path) == cs._CACHE_VERSION_FILENAME:
            y('vopen')
        return open(path, mode, *a, **k)

    def os_listdir(path):
        y('listdir')
        return os.listdir(path)

    def os_unlink(path):
        y('unlink')
        return os.unlink(path)

    def sh_move(a, b):
        y('move')
        return real_shutil.move(a, b)
    saved = (cs.os, cs.shutil, getattr(cs, 'open', None), cs._get_versionhash)
    cs.os = Proxy(os, dict(listdir=os_listdir, unlink=os_unlink))
    cs.shutil = Proxy(real_shutil, dict(move=sh_move))
    cs.open = cs_open
    cs._get_versionhash = lambda: 'version-%d' % tls.version
    served = []
    errors = []
    commands = {}
    threads = []
    cur = 0
    npid = 0
    try:
        for e in events:
            k = e[0]
            if k == 'VSpawn':
                pid = npid
                npid += 1

                def fn(ver=cur, pid=pid):
                    tls.version = ver
                    tls.init = True
                    store = cs.CacheStore()
                    while True:
                        tls.init = True
                        sched.yield_point('ready')
                        tls.init = False
                        cmd = commands.get(pid)
                        if cmd == 'store':
                            store.store(source, ('entry', ver))
                        elif cmd == 'load':
                            r = store.load(source)
                            if r is not None:
                                served.append((ver, r[1]))
                        else:
                            return None
                threads.append(sched.run_thread(pid, fn))
                sched.grant(pid)
            elif k == 'VStep':
                pid = e[1]
                if pid < npid and pid not in sched.finished and pid not in sched.killed and sched.at_yield.get(pid) != 'ready':
                    sched.grant(pid)
            elif k in ('VStore', 'VLoad', 'VFinish'):
                pid = e[1]
                if pid < npid and pid not in sched.finished and pid not in sched.killed and sched.at_yield.get(pid) == 'ready':
                    commands[pid] = {'VStore': 'store', 'VLoad': 'load', 'VFinish': 'finish'}[k]
                    sched.grant(pid)
            elif k == 'VKill':
                pid = e[1]
                with sched.cv:
                    if pid < npid and pid not in sched.finished:
                        sched.killed.add(pid)
                        sched.cv.notify_all()
                        while pid not in sched.finished:
                            sched.cv.wait(timeout=0.05)
            elif k == 'VUpgrade':
                if all(p in sched.finished for p in range(npid)):
                    cur += 1
        for pid in range(npid):
            r = sched.finished.get(pid)
            if r is not None and r[0] == 'exc':
                errors.append((pid, r[1]))
        with sched.cv:
            for pid in range(npid):
                sched.killed.add(pid)
            sched.cv.notify_all()
        for t in threads:
            t.join(timeout=5)
        return served, errors
    finally:
        cs.os, cs.shutil, op, cs._get_versionhash = saved
        if op is None:
            del cs.open
        else:
            cs.open = op
        if old_xdg is None:
            os.environ.pop('XDG_CACHE_HOME', None)
        else:
            os.environ['XDG_CACHE_HOME'] = old_xdg
        shutil.rmtree(root, ignore_errors=True)


def gen_version_events(rng):
    ev = []
    npid = 0
    for epoch in range(rng.choice([2, 2, 3])):
        first = npid
        n = rng.choice([1, 2, 2, 3])
        live = []
        for _ in range(rng.randint(6, 22)):
            r = rng.random()
            if len(live) < n and (not live or r < 0.2):
                ev.append(('VSpawn',))
                live.append(npid)
                npid += 1
            elif r < 0.6:
                ev.append(('VStep', rng.choice(live)))
            elif r < 0.75:
                ev.append(('VStore', rng.choice(live)))
            elif r < 0.93:
                ev.append(('VLoad', rng.choice(live)))
            elif r < 0.97:
                ev.append(('VKill', rng.choice(live)))
            else:
                ev.append(('VFinish', rng.choice(live)))
        # end of the epoch: everybody finishes or dies, possibly in the middle of the version check
        for p in range(first, npid):
            if rng.random() < 0.5:
                for _ in range(rng.randint(0, 4)):
                    ev.append(('VStep', p))
                ev.append(('VLoad', p))
                ev.append(('VFinish', p))
            ev.append(('VKill', p))
        ev.append(('VUpgrade',))
    return ev


V_WITNESS = [('VSpawn',), ('VStep', 0), ('VStep', 0), ('VStep', 0), ('VStore', 0), ('VFinish', 0), ('VUpgrade',),
             ('VSpawn',), ('VStep', 1), ('VStep', 1), ('VSpawn',), ('VStep', 2), ('VLoad', 2), ('VStep', 2), ('VStep', 2),
             ('VStep', 2), ('VLoad', 2), ('VKill', 1), ('VKill', 2), ('VUpgrade',), ('VSpawn',), ('VStep', 3), ('VStep', 3), ('VLoad', 3)]
V_WITNESS2 = [('VSpawn',), ('VStep', 0), ('VStep', 0), ('VStep', 0), ('VStore', 0), ('VFinish', 0), ('VUpgrade',),
              ('VSpawn',), ('VStep', 1), ('VStep', 1), ('VKill', 1), ('VSpawn',), ('VStep', 2), ('VStep', 2), ('VStep', 2),
              ('VStep', 2), ('VLoad', 2)]


def coq_vevent(e):
    return e[0] if len(e) == 1 else '%s %d' % (e[0], e[1])


def versionhash_clauses(ck, rng):
    """a change of scanner version is a change of the version hash: whenever the modification time of one scanner source
    differs - by whole seconds or by a fraction of a second - the real _get_versionhash gives another value, and the same times
    give the same value"""
    import giscanner.cachestore as cs
    real_os = cs.os
    times = {}

    class St(object):
        def __init__(self, t):
            self.st_mtime = t
            self.st_mtime_ns = int(t * 1e9)

    def stat(path, *a, **k):
        return St(times.setdefault(path, 1700000000.25))
    cs.os = Proxy(real_os, dict(stat=stat))
    try:
        base = cs._get_versionhash()
        again = cs._get_versionhash()
        ck.count_case(dict(scenario='version hash, unchanged sources', files=len(times)), kind='versionhash')
        if base != again:
            ck.failing_input('the version hash changes although no source changed', dict(files=sorted(times)[:3]))
        paths = sorted(times)
        for delta in (0.5, 0.25, 1.0, 86400.0, -0.125, 0.001):
            pth = rng.choice(paths)
            old = times[pth]
            times[pth] = old + delta
            h = cs._get_versionhash()
            times[pth] = old
            ck.count_case(dict(scenario='version hash, one source modified', delta=delta), kind='versionhash')
            if h == base:
                ck.failing_input('a change of scanner version is not detected: one scanner source was modified %s seconds later and the '
                                 'version hash is the same, so no entry would be discarded' % delta,
                                 dict(source=os.path.basename(pth), mtime_before=old, mtime_after=old + delta))
    finally:
        cs.os = real_os


def filesystem_clauses(ck):
    """situations of the file system that are legal and change nothing: the dependency GIR reached through a symbolic link (the entry
    is older than the file behind the link as soon as that file is rewritten), and a cache directory whose path has characters that
    mean something to glob (a build directory "build[py3.11]"): a change of scanner version still discards every entry"""
    sys.path.insert(0, REPO)
    import giscanner.cachestore as cs
    from giscanner.transformer import Transformer
    from giscanner import ast
    root = tempfile.mkdtemp(prefix='giv18fs')
    old_xdg = os.environ.get('XDG_CACHE_HOME')
    try:
        # ---- symbolic link
        os.environ['XDG_CACHE_HOME'] = os.path.join(root, 'cache')
        os.makedirs(os.path.join(root, 'real'))
        real = os.path.join(root, 'real', 'Dep-1.0.gir')
        link = os.path.join(root, 'Dep-1.0.gir')
        open(real, 'w').write(GIR % 1)
        os.utime(real, (1000, 1000))
        can_link = True
        try:
            os.symlink(real, link)
            os.utime(link, (500, 500), follow_symlinks=False)       # the link itself is older than anything below
        except (OSError, NotImplementedError):
            can_link = False
        if can_link:
            def scan():
                t = Transformer(ast.Namespace('Main', '1.0'))
                t.set_passthrough_mode()
                return int(t._parse_include(link).get_namespace().symbol_prefixes[0][1:])
            first = scan()
            open(real, 'w').write(GIR % 2)
            os.utime(real, (3000, 3000))
            second = scan()
            ck.count_case(dict(scenario='dependency GIR behind a symbolic link, rewritten between two scans'), kind='filesystem')
            if (first, second) != (1, 2):
                ck.failing_input('a dependency GIR reached through a symbolic link was rewritten, and the next scan still got the old parse '
                                 'from the cache', dict(link='Dep-1.0.gir -> real/Dep-1.0.gir', link_mtime=500, target_mtime_first_scan=1000,
                                                        target_mtime_second_scan=3000), detail=dict(versions_seen=[first, second], expected=[1, 2]))
        # ---- a cache path with glob characters
        cdir = os.path.join(root, 'build[py3.11]*?')
        os.environ['XDG_CACHE_HOME'] = cdir
        src = os.path.join(root, 'real', 'Dep-1.0.gir')
        store = cs.CacheStore()
        store.store(src, dict(payload='from the old scanner'))
        held = store.load(src)
        vfile = os.path.join(store._directory, cs._CACHE_VERSION_FILENAME)
        open(vfile, 'w').write('0' * 40)                 # what another scanner version left there
        after = cs.CacheStore().load(src)
        ck.count_case(dict(scenario='cache directory with glob characters in its path, scanner version changed'), kind='filesystem')
        if held is None:
            ck.tie_broken('harness', 'the cache with glob characters in its path does not hold the entry that was just stored')
        elif after is not None:
            ck.failing_input('a change of scanner version does not discard the entries of a cache whose path has glob characters',
                             dict(cache_home='.../build[py3.11]*?', version_file_before='0000...', entry='stored by the old version'),
                             detail=dict(loaded_after_the_version_change=repr(after)[:80]))
    finally:
        if old_xdg is None:
            os.environ.pop('XDG_CACHE_HOME', None)
        else:
            os.environ['XDG_CACHE_HOME'] = old_xdg
        shutil.rmtree(root, ignore_errors=True)


def truncation_sweep(ck, thorough):
    """an unreadable or truncated entry is discarded instead of raising: every cut of a real entry"""
    import pickle as real_pickle
    import giscanner.cachestore as cs
    from giscanner import ast
    root = tempfile.mkdtemp(prefix='giv18t')
    old_xdg = os.environ.get('XDG_CACHE_HOME')
    os.environ['XDG_CACHE_HOME'] = os.path.join(root, 'cache')
    try:
        source = os.path.join(root, 'Dep-1.0.gir')
        open(source, 'w').write(GIR % 0)
        os.utime(source, (0, 0))
        store = cs.CacheStore()
        payloads = [real_pickle.dumps(('entry', list(range(50)), {'a': 'b' * 40})),
                    real_pickle.dumps(ast.Namespace('Dep', '1.0'))]
        for blob in payloads:
            cuts = range(len(blob)) if thorough else sorted(set([0, 1, 2, 3, 4, 5, len(blob) // 3, len(blob) // 2, len(blob) - 2, len(blob) - 1]))
            for cut in cuts:
                fn = store._get_filename(source)
                open(fn, 'wb').write(blob[:cut])
                case = dict(truncated_to=cut, of=len(blob))
                ck.count_case(dict(kind='truncation', **case), nontrivial=False, kind='truncation')
                try:
                    r = store.load(source)
                except BaseException as e:     # noqa
                    ck.failing_input('loading a cache entry truncated to %d of %d bytes raises %s' % (cut, len(blob), type(e).__name__),
                                     case, detail=repr(e))
                    continue
                if r is not None:
                    ck.failing_input('a truncated cache entry was served', case, detail=repr(r)[:200])
                elif os.path.exists(fn):
                    ck.failing_input('a truncated cache entry was not discarded', case)
    finally:
        if old_xdg is None:
            os.environ.pop('XDG_CACHE_HOME', None)
        else:
            os.environ['XDG_CACHE_HOME'] = old_xdg
        shutil.rmtree(root, ignore_errors=True)


def seen_sets(events):
    """versions current at some moment during each operation (from its Spawn to its end of the list)"""
    src = 0
    clock = 1
    seen = {}
    alive = {}
    pid = 0
    for e in events:
        if e[0] == 'Spawn':
            seen[pid] = {src}
            alive[pid] = True
            pid += 1
        elif e[0] == 'Modify':
            src = clock
            for p in seen:
                if alive[p]:
                    seen[p].add(src)
        elif e[0] == 'Kill' and e[1] in alive:
            alive[e[1]] = False
        clock += 1
    return seen


def gen_events(rng, nproc, length):
    ev = []
    spawned = 0
    for _ in range(length):
        r = rng.random()
        if spawned < nproc and (spawned == 0 or r < 0.15):
            ev.append(('Spawn',))
            spawned += 1
        elif r < 0.75:
            ev.append(('Step', rng.randrange(spawned)))
        elif r < 0.87:
            ev.append(('Modify',))
        elif r < 0.91:
            ev.append(('Kill', rng.randrange(spawned)))
        elif r < 0.96:
            ev.append(('Unlink',))
        else:
            ev.append(('Garbage',))
    # let everybody finish
    for _ in range(14):
        for p in range(spawned):
            ev.append(('Step', p))
    return ev


WITNESS_A = [('Spawn',), ('Step', 0), ('Step', 0), ('Modify',), ('Step', 0), ('Step', 0), ('Step', 0), ('Step', 0),
             ('Step', 0), ('Step', 0), ('Step', 0), ('Spawn',)] + [('Step', 1)] * 14
WITNESS_B = ([('Spawn',)] + [('Step', 0)] * 12 + [('Modify',), ('Spawn',), ('Step', 1), ('Spawn',)] + [('Step', 2)] * 14
             + [('Step', 1)] * 14)


def coq_event(e):
    return {'Spawn': 'Spawn', 'Modify': 'Modify', 'Unlink': 'Unlink', 'Garbage': 'Garbage'}.get(e[0]) or \
        ('%s %d' % (e[0], e[1]))


def main(tier, seed):
    ck = Check('C18', tier, seed)
    ck.assumptions += ['rename within the cache directory is atomic (same file system); the cross-device copy fallback '
                       'of shutil.move is not modelled', 'modification times of distinct events strictly increase '
                       '(logical clock; equal sub-tick mtimes are outside the claim)',
                       'a strict prefix of a pickle never unpickles successfully (every cut of two real entries is tried)',
                       'one cache entry; in Model/C18 the .cache-version purge is represented by Unlink events; the version '
                       'protocol itself is Model/C18V, under the hypothesis that the scanner is upgraded only while no scanner '
                       'process is running',
                       'each thread with its own CacheStore stands for a scanner process; a kill is a thread that is '
                       'never resumed']
    ck.prove([], models=['Model/C18.vo', 'Model/C18V.vo'])
    rng = random.Random(seed)
    runs = [WITNESS_A, WITNESS_B]
    n = 250 if tier == 'quick' else 3000
    for i in range(n):
        runs.append(gen_events(rng, rng.choice([1, 2, 2, 3, 3]), rng.randint(6, 26)))
    if tier == 'thorough':
        # all interleavings of two operations with one modification placed anywhere (bounded exhaustive)
        base = [('Step', 0)] * 9 + [('Step', 1)] * 9
        seen_orders = set()
        for _ in range(3000):
            o = base[:]
            rng.shuffle(o)
            o.insert(rng.randrange(len(o)), ('Modify',))
            key = tuple(o)
            if key in seen_orders:
                continue
            seen_orders.add(key)
            runs.append([('Spawn',), ('Spawn',)] + o + [('Step', 0), ('Step', 1)] * 6)
    results = []
    for ev in runs:
        results.append(run_impl(ev))
    # ---- the property on the implementation's own results
    for ev, res in zip(runs, results):
        seen = seen_sets(ev)
        ck.count_case(dict(events=[list(e) for e in ev[:40]], results={str(k): v for k, v in res.items()}),
                      nontrivial=sum(1 for e in ev if e[0] == 'Spawn') > 1 or any(e[0] == 'Modify' for e in ev),
                      kind='procs:%d' % sum(1 for e in ev if e[0] == 'Spawn'))
        for pid, r in res.items():
            if r is None:
                continue
            if r[0] == 'exc':
                ck.failing_input('cache operation raised %s' % r[1], dict(events=[list(e) for e in ev], pid=pid))
            elif r[0] == 'ok' and r[1] not in seen[pid]:
                ck.failing_input('load returned the parse of a version that was never current during the operation',
                                 dict(events=[list(e) for e in ev], pid=pid),
                                 detail=dict(returned_version=r[1], versions_current_during_operation=sorted(seen[pid])))
    # ---- correspondence with the Coq model (repaired protocol)
    if ck.models_ok:
        items = []
        for i, (ev, res) in enumerate(zip(runs, results)):
            exp = []
            for pid in sorted(res):
                r = res[pid]
                exp.append('(%d, %s)' % (pid, '(Some %d)' % r[1] if r and r[0] == 'ok' else 'None'))
            items.append('(%d, %s, %s)' % (i, clist([coq_event(e) for e in ev]), clist(exp)))
        bad = []
        per = 100
        for s in range(0, len(items), per):
            text = '\n'.join([
                'From Coq Require Import List Arith Bool.', 'From GIV.Model Require Import C18.',
                'Import ListNotations.',
                'Definition oeq (a b : option nat) := match a, b with Some x, Some y => Nat.eqb x y | None, None => true | _, _ => false end.',
                'Definition cases : list (nat * list event * list (nat * option nat)) := [%s].' % ';\n'.join(items[s:s + per]),
                "Definition bad := Eval vm_compute in map (fun c => fst (fst c)) (filter (fun c => let '(_, evs, exp) := c in",
                '  let s := run true evs in negb (forallb (fun pe => oeq (result_of s (fst pe)) (snd pe)) exp)) cases).',
                'Print bad.'])
            rc, out = coq_eval('C18_cases_%d' % (s // per), text)
            if rc != 0:
                ck.tie_broken('correspondence', 'case file does not evaluate:\n' + out[-2000:])
                break
            t = parse_defs(out)['bad']
            bad += [int(x) for x in t.replace('%nat', '').strip('[]').split(';') if x.strip()]
        ck.extra['traces_validated_against_impl'] = len(items)
        if bad:
            ev, res = runs[bad[0]], results[bad[0]]
            ck.tie_broken('correspondence', 'CacheStore/_parse_include results differ from Model.C18 (repaired protocol) '
                          'on %d schedules' % len(bad), dict(events=[list(e) for e in ev], results={str(k): v for k, v in res.items()}))
    # ---- truncated entries
    truncation_sweep(ck, tier == 'thorough')
    versionhash_clauses(ck, rng)
    filesystem_clauses(ck)
    # ---- scanner-version change (Model/C18V.v)
    vruns = [V_WITNESS, V_WITNESS2] + [gen_version_events(rng) for _ in range(60 if tier == 'quick' else 800)]
    vres = []
    for ev in vruns:
        served, errors = run_version(ev)
        vres.append(served)
        ck.count_case(dict(version_events=[list(e) for e in ev[:60]], served=served), nontrivial=len(served) > 0, kind='version-protocol')
        for pid, err in errors:
            ck.failing_input('a scanner process raised during the version protocol: %s' % err, dict(version_events=[list(e) for e in ev], pid=pid))
        for lv, evn in served:
            if lv != evn:
                ck.failing_input('a scanner of version %d was served a cache entry written by scanner version %d' % (lv, evn),
                                 dict(version_events=[list(e) for e in ev]), detail=dict(served=served))
    if ck.models_ok:
        items = ['(%d, %s, %s)' % (i, clist([coq_vevent(e) for e in ev]), clist(['(%d, %d)' % p for p in reversed(sv)]))
                 for i, (ev, sv) in enumerate(zip(vruns, vres))]
        text = '\n'.join([
            'From Coq Require Import List Arith Bool.', 'From GIV.Model Require Import C18V.', 'Import ListNotations.',
            'Definition peq (a b : nat * nat) := Nat.eqb (fst a) (fst b) && Nat.eqb (snd a) (snd b).',
            'Fixpoint leq (a b : list (nat * nat)) := match a, b with [], [] => true | x :: a, y :: b => peq x y && leq a b | _, _ => false end.',
            'Definition cases : list (nat * list vev * list (nat * nat)) := [%s].' % ';\n'.join(items),
            "Definition vbad := Eval vm_compute in map (fun c => fst (fst c)) (filter (fun c => let '(_, evs, exp) := c in",
            '  negb (leq (served (vrun evs)) exp)) cases).', 'Print vbad.'])
        rc, out = coq_eval('C18_vcases', text)
        if rc != 0:
            ck.tie_broken('correspondence', 'version case file does not evaluate:\n' + out[-2000:])
        else:
            t = parse_defs(out)['vbad']
            vbad = [int(x) for x in t.replace('%nat', '').strip('[]').split(';') if x.strip()]
            if vbad:
                ck.tie_broken('correspondence', 'CacheStore version protocol differs from Model.C18V on %d schedules' % len(vbad),
                              dict(version_events=[list(e) for e in vruns[vbad[0]]], served=vres[vbad[0]]))
    return ck.finish(rule='schedules over 1-3 concurrent _parse_include operations on one cache entry: every shared '
                          'system call of the real CacheStore/Transformer code is a yield point of a baton scheduler; '
                          'events Spawn/Step/Modify (source rewritten, mtime = logical clock)/Kill/Unlink/Garbage; two '
                          'fixed schedules reproduce the stale-entry races; random schedules (thorough: plus 3000 '
                          'distinct interleavings of two operations around one modification); non-trivial = more than '
                          'one process or a modification')


if __name__ == '__main__':
    sys.exit(main(os.environ.get('VERIF_TIER', 'quick'), int(os.environ.get('VERIF_SEED', '1'))))
