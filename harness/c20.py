"""C20 — the XML writer always produces well-formed, lossless XML."""
import os
import random
import sys
import xml.parsers.expat

from common import Check, coq_eval, parse_defs, parse_nlist, cstr, clist, cbool, copt, REPO

NAMECH = 'abcxyzABC_:.-09é'
TEXTCH = list('abc xyz<>&"\'=/;#!-\t\n') + ['é', '中', ' ', '&amp;', '&#10;', ']]>', '\U0001F600', ' ', '\r']
LONG = ['a' * 30, 'value ' * 8, 'x' * 75]


def gen_name(rng):
    n = rng.choice('abcxyzABC_') + ''.join(rng.choice(NAMECH) for _ in range(rng.randint(0, 10)))
    if rng.random() < 0.15:
        n = rng.choice(['c:type', 'glib:get-type', 'transfer-ownership', 'introspectable', 'xmlns:c'])
    return n


def gen_text(rng, attr=False, allow_cr=True):
    if rng.random() < 0.15:
        return rng.choice(LONG)
    s = ''.join(rng.choice(TEXTCH) for _ in range(rng.randint(0, 12)))
    if not allow_cr:
        s = s.replace('\r', '')
    return s


def gen_attrs(rng):
    out = []
    names = set()
    for _ in range(rng.choice([0, 0, 1, 2, 3, 5, 8, 12])):
        n = gen_name(rng)
        if n in names:
            continue
        names.add(n)
        out.append((n, None if rng.random() < 0.12 else gen_text(rng, attr=True)))
    return out


def gen_stmt(rng, depth, allow_raise):
    r = rng.random()
    if depth > 0 and r < 0.35:
        body = [gen_stmt(rng, depth - 1, allow_raise) for _ in range(rng.randint(0, 4))]
        return ('ctx', gen_name(rng), gen_attrs(rng), body)
    if r < 0.8:
        data = None if rng.random() < 0.5 else gen_text(rng, allow_cr=False)
        return ('leaf', gen_name(rng), gen_attrs(rng), data)
    if r < 0.9:
        t = gen_text(rng).replace('--', '- ').replace('\r', '')
        if t.endswith('-'):
            t += ' '
        return ('comment', t)
    if allow_raise and r < 0.95:
        return ('raise',)
    return ('leaf', gen_name(rng), [], None)


def gen_program(rng, allow_raise):
    depth = rng.choice([1, 2, 3, 4, 8])
    body = [gen_stmt(rng, depth, allow_raise) for _ in range(rng.randint(0, 5))]
    return [('ctx', gen_name(rng), gen_attrs(rng), body)]


def gen_text_program(rng):
    """elements and lines of text (write_line with do_escape, indented or not); two lines of text never follow each other"""
    def body(depth):
        out = []
        for _ in range(rng.randint(1, 4)):
            r = rng.random()
            if r < 0.45 and (not out or out[-1][0] != 'text'):
                t = gen_text(rng, allow_cr=False).strip(' \n\t')
                if t:
                    out.append(('text', t, rng.random() < 0.5))
                    continue
            if depth > 0 and r < 0.7:
                out.append(('ctx', gen_name(rng), gen_attrs(rng), body(depth - 1)))
            else:
                out.append(('leaf', gen_name(rng), gen_attrs(rng), None))
        return out
    return [('ctx', gen_name(rng), gen_attrs(rng), body(rng.choice([1, 2, 3])))]


def gen_malformed(rng):
    """explicit push/pop, possibly unbalanced (pop on an empty stack raises IndexError)"""
    prog = []
    for _ in range(rng.randint(1, 6)):
        r = rng.random()
        if r < 0.35:
            prog.append(('push', gen_name(rng), gen_attrs(rng)))
        elif r < 0.7:
            prog.append(('pop',))
        else:
            prog.append(gen_stmt(rng, 1, True))
    return prog


class Abort(Exception):
    pass


class AbortBase(BaseException):
    pass


# what the writing code may raise inside a "with tagcontext": not only subclasses of Exception (sys.exit(), Ctrl-C, a generator
# closed early); the choice is a function of the program, the outcome must not depend on it
RAISED = (Abort, AbortBase, SystemExit, KeyboardInterrupt, GeneratorExit)


def run_impl(prog, whitespace=True):
    from giscanner.xmlwriter import XMLWriter
    w = XMLWriter()
    if not whitespace:
        w.disable_whitespace()

    def ex(st):
        k = st[0]
        if k == 'leaf':
            w.write_tag(st[1], list(st[2]), st[3])
        elif k == 'comment':
            w.write_comment(st[1])
        elif k == 'text':
            w.write_line(st[1], indent=st[2], do_escape=True)
        elif k == 'ctx':
            with w.tagcontext(st[1], list(st[2])):
                for s in st[3]:
                    ex(s)
        elif k == 'push':
            w.push_tag(st[1], list(st[2]))
        elif k == 'pop':
            w.pop_tag()
        elif k == 'raise':
            raise RAISED[len(repr(prog)) % len(RAISED)]()
    raised = False
    try:
        for s in prog:
            ex(s)
    except RAISED + (IndexError,):
        raised = True
    return w.get_xml(), raised


def coq_attrs(attrs):
    return clist(['(%s, %s)' % (cstr(n), copt(v, cstr)) for n, v in attrs])


def coq_stmt(st):
    k = st[0]
    if k == 'leaf':
        return 'SLeaf %s %s %s' % (cstr(st[1]), coq_attrs(st[2]), copt(st[3], cstr))
    if k == 'comment':
        return 'SComment %s' % cstr(st[1])
    if k == 'ctx':
        return 'SCtx %s %s %s' % (cstr(st[1]), coq_attrs(st[2]), clist(['(%s)' % coq_stmt(s) for s in st[3]]))
    if k == 'push':
        return 'SPush %s %s' % (cstr(st[1]), coq_attrs(st[2]))
    if k == 'pop':
        return 'SPop'
    return 'SRaise'


# ---- intended document (what the caller asked for), and what expat reads back

def intended(prog):
    """Event list of the intended document up to the first abort; every open context is
    closed in order (the `finally` of tagcontext)."""
    ev = []

    class Stop(Exception):
        pass

    def ex(st):
        k = st[0]
        if k == 'leaf':
            ev.append(('start', st[1], {n: v for n, v in st[2] if v is not None}))
            if st[3]:
                ev.append(('text', st[3]))
            ev.append(('end', st[1]))
        elif k == 'comment':
            ev.append(('comment', ' ' + st[1] + ' '))
        elif k == 'text':
            ev.append(('text', st[1], 'line'))
        elif k == 'ctx':
            ev.append(('start', st[1], {n: v for n, v in st[2] if v is not None}))
            try:
                for s in st[3]:
                    ex(s)
            finally:
                ev.append(('end', st[1]))
        elif k == 'raise':
            raise Stop()
    try:
        for s in prog:
            ex(s)
    except Stop:
        pass
    return ev


def same_document(got, want):
    """Compare what expat read with the intended events: where text was written it must be
    read back exactly; whitespace-only text where none was written is the writer's layout."""
    i = 0
    for w in want:
        while i < len(got) and got[i][0] == 'text' and w[0] != 'text' and got[i][1].strip(' \n') == '':
            i += 1
        if len(w) == 3 and w[0] == 'text':
            # a line of text (write_line): the writer's own indentation and line end surround it
            if i >= len(got) or got[i][0] != 'text' or got[i][1].strip(' \n') != w[1]:
                return False
            i += 1
            continue
        if i >= len(got) or tuple(got[i]) != tuple(w):
            return False
        i += 1
    while i < len(got) and got[i][0] == 'text' and got[i][1].strip(' \n') == '':
        i += 1
    return i == len(got)


def read_back(xmltext):
    import xml.parsers.expat as E
    ev = []
    p = E.ParserCreate()
    p.buffer_text = True
    p.StartElementHandler = lambda n, a: ev.append(('start', n, dict(a)))
    p.EndElementHandler = lambda n: ev.append(('end', n))
    p.CommentHandler = lambda d: ev.append(('comment', d))
    p.CharacterDataHandler = lambda d: ev.append(('text', d))
    p.Parse(xmltext.encode('utf-8'), True)
    return ev


def main(tier, seed):
    ck = Check('C20', tier, seed)
    ck.assumptions += ['xml.sax.saxutils.escape/quoteattr are modelled from the CPython source and compared byte for '
                       'byte through the writer', 'well-formedness oracle for the implementation output is expat '
                       '(an independent parser); whitespace-only text that the writer itself inserts between tags '
                       'is layout', 'element/attribute names are XML Names, text is XML 1.0 Char, comments contain '
                       'no "--" (hypotheses of the property)']
    ck.prove([], models=['Model/C20.vo', 'Model/C20D.vo'])
    sys.path.insert(0, REPO)
    rng = random.Random(seed)
    n = 500 if tier == 'quick' else 8000
    progs = []
    for i in range(n):
        r = rng.random()
        if r < 0.6:
            progs.append(('valid', gen_program(rng, False)))
        elif r < 0.85:
            progs.append(('abort', gen_program(rng, True)))
        else:
            progs.append(('malformed', gen_malformed(rng)))
    # lines of text between elements: judged by the independent reader only (the model has no text statement)
    for i in range(n // 4):
        prog = gen_text_program(rng)
        for ws in (True, False):
            try:
                xmltext, raised = run_impl(prog, whitespace=ws)
                got = read_back(xmltext)
            except Exception as e:      # noqa
                ck.failing_input('output with lines of text is not well-formed XML%s: %s' % ('' if ws else ' (whitespace disabled)', e),
                                 dict(program=prog, whitespace=ws))
                continue
            ck.count_case(dict(kind='text', program=prog, whitespace=ws), nontrivial=len(xmltext) > 60, kind='text' + ('' if ws else '/nows'))
            if not same_document(got, intended(prog)):
                ck.failing_input('document read back differs from what was written (lines of text%s)' % ('' if ws else ', whitespace disabled'),
                                 dict(program=prog, whitespace=ws), detail=dict(xml=xmltext, got=got[:40], want=intended(prog)[:40]))
    results = [run_impl(p) for _, p in progs]

    # executable property on the implementation's own output (expat as independent reader)
    for i, (kind, prog) in enumerate(progs):
        xmltext, raised = results[i]
        ck.count_case(dict(kind=kind, program=prog, raised=raised), nontrivial=len(xmltext) > 60, kind=kind)
        if kind == 'malformed':
            continue
        want = intended(prog)
        try:
            got = read_back(xmltext)
        except Exception as e:   # not well-formed
            ck.failing_input('output is not well-formed XML: %s' % e, dict(program=prog), detail=dict(xml=xmltext))
            continue
        if not same_document(got, want):
            ck.failing_input('document read back differs from what was written', dict(program=prog),
                             detail=dict(xml=xmltext, got=got[:40], want=want[:40]))

    # the same programs with layout whitespace switched off (XMLWriter.disable_whitespace): judged by the
    # independent reader only; the attribute-list theorem covers every indent string, the empty one included
    for i, (kind, prog) in enumerate(progs):
        if kind == 'malformed':
            continue
        try:
            xmltext, raised = run_impl(prog, whitespace=False)
        except Exception as e:     # noqa
            ck.failing_input('the writer raises with whitespace disabled: %r' % (e,), dict(program=prog, whitespace=False))
            continue
        ck.count_case(dict(kind=kind, program=prog, raised=raised, whitespace=False), nontrivial=len(xmltext) > 60, kind=kind + '/nows')
        want = intended(prog)
        try:
            got = read_back(xmltext)
        except Exception as e:
            ck.failing_input('output is not well-formed XML with whitespace disabled: %s' % e, dict(program=prog, whitespace=False),
                             detail=dict(xml=xmltext))
            continue
        if not same_document(got, want):
            ck.failing_input('document read back differs from what was written (whitespace disabled)',
                             dict(program=prog, whitespace=False), detail=dict(xml=xmltext, got=got[:40], want=want[:40]))

    # correspondence with the Coq model, byte for byte; and the whole-document reader of Model/C20D.v (the reader the
    # document theorems are about) against expat on the bytes the real writer returned: same elements, attributes in
    # order, text, comments
    def coq_events(ev):
        out = []
        for e in ev:
            if e[0] == 'start':
                out.append('(0, %s, %s)' % (cstr(e[1]), clist(['(%s, %s)' % (cstr(k), cstr(v)) for k, v in e[2].items()])))
            elif e[0] == 'end':
                out.append('(1, %s, [])' % cstr(e[1]))
            elif e[0] == 'text':
                out.append('(2, %s, [])' % cstr(e[1]))
            else:
                out.append('(3, %s, [])' % cstr(e[1]))
        return clist(out)
    if ck.models_ok:
        per = 64
        bad, bad_docs, ndocs = [], [], 0
        shards = []
        for s in range(0, len(progs), per):
            items = []
            for i in range(s, min(s + per, len(progs))):
                if progs[i][0] == 'malformed':
                    rd = '(false, None)'
                else:
                    ndocs += 1
                    try:
                        rd = '(true, Some %s)' % coq_events(read_back(results[i][0]))
                    except Exception:     # noqa  (reported above as not well-formed; the model's reader must refuse it too)
                        rd = '(true, None)'
                items.append('(%d, %s, %s, %s, %s)' % (i, clist(['(%s)' % coq_stmt(x) for x in progs[i][1]]),
                                                       cstr(results[i][0]), cbool(results[i][1]), rd))
            text = '\n'.join([
                'From Coq Require Import List NArith ZArith Bool.',
                'From GIV.Lib Require Import Regex Str.', 'From GIV.Model Require Import C20 C20Spec C20D.',
                'Import ListNotations.', 'Local Open Scope N_scope.',
                'Definition cases : list (N * list stmt * str * bool * (bool * option (list xev))) := [', ';\n'.join(items), '].',
                "Definition bad := Eval vm_compute in map (fun c => fst (fst (fst (fst c)))) (filter (fun c => let '(_, p, o, r, _) := c in",
                "  let '(o', r') := run_program p in negb (str_eqb o o' && Bool.eqb r r')) cases).",
                "Definition bad_docs := Eval vm_compute in map (fun c => fst (fst (fst (fst c)))) (filter (fun c => let '(_, _, o, _, (chk, e)) := c in",
                "  chk && negb match xml_parse o, e with Some d, Some ev => xevs_eqb (reported d) ev | None, None => true | _, _ => false end) cases).",
                'Print bad.', 'Print bad_docs.'])
            shards.append(('C20_cases_%d' % (s // per), text))
        import concurrent.futures
        with concurrent.futures.ThreadPoolExecutor(max_workers=8) as ex:
            outs = list(ex.map(lambda nt: coq_eval(nt[0], nt[1]), shards))
        for rc, out in outs:
            if rc != 0:
                ck.tie_broken('correspondence', 'case file does not evaluate:\n' + out[-2000:])
                break
            defs = parse_defs(out)
            bad += parse_nlist(defs['bad'])
            bad_docs += parse_nlist(defs['bad_docs'])
        if bad:
            i = bad[0]
            ck.tie_broken('correspondence', 'XMLWriter output differs from Model.C20.run_program on %d programs'
                          % len(bad), dict(program=progs[i][1], xml=results[i][0], raised=results[i][1]))
        if bad_docs:
            i = bad_docs[0]
            ck.tie_broken('correspondence', 'Model.C20D.xml_parse and expat read %d documents of the real writer differently'
                          % len(bad_docs), dict(program=progs[i][1], xml=results[i][0]))
        ck.extra['traces_validated_against_impl'] = len(progs)
        ck.extra['documents_read_by_both_readers'] = ndocs
    return ck.finish(rule='seeded generator of writer programs: nested tagcontext blocks (depth<=8), leaf tags with '
                          'and without text, comments, 0-12 attributes (12% valueless), strings over an alphabet with '
                          'quotes <>& newline tab CR non-ASCII and long values that force wrapping; an abort stream '
                          '(raise inside nested contexts) and a malformed stream (unbalanced push/pop); non-trivial = '
                          'output longer than the XML declaration plus one tag; distinct by sha256')


if __name__ == '__main__':
    sys.exit(main(os.environ.get('VERIF_TIER', 'quick'), int(os.environ.get('VERIF_SEED', '1'))))
