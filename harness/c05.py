"""C05 — everything left introspectable is bindable and every reference resolves."""
import os
import random
import re
import sys

from common import Check, coq_eval, parse_defs, parse_nlist, cstr, clist, cbool, copt

FUNDAMENTAL_OK = None


def gen_world(rng):
    """a namespace as a reference graph: nodes in declaration order"""
    n = rng.randint(4, 12)
    nodes = []
    for i in range(n):
        r = rng.random()
        if r < 0.35:
            nodes.append(dict(k='alias', name='FooA%d' % i))
        elif r < 0.65:
            nodes.append(dict(k='callback', name='FooCb%d' % i))
        elif r < 0.85:
            nodes.append(dict(k='function', name='foo_fn%d' % i))
        else:
            nodes.append(dict(k='record', name='FooRec%d' % i, skip=rng.random() < 0.4))

    def ref(i):
        # references go forwards as well as backwards: use before definition is what C headers do
        cands = [j for j in range(n) if j != i and nodes[j]['k'] in ('alias', 'callback', 'record')]
        r = rng.random()
        if r < 0.12:
            return ('bad',)
        if r < 0.3 or not cands:
            return ('ok',)
        return ('node', rng.choice(cands))
    for i, nd in enumerate(nodes):
        if nd['k'] == 'alias':
            nd['target'] = ref(i)
            # an alias of itself or a cycle is not C: only keep references that do not lead back here
        elif nd['k'] in ('callback', 'function'):
            nd['uses'] = [ref(i) for _ in range(rng.randint(0, 3))]
    # break alias cycles (typedef cycles cannot be written in C)
    for i, nd in enumerate(nodes):
        if nd['k'] != 'alias':
            continue
        seen = {i}
        t = nd['target']
        while t[0] == 'node' and nodes[t[1]]['k'] == 'alias':
            if t[1] in seen:
                nd['target'] = ('ok',)
                break
            seen.add(t[1])
            t = nodes[t[1]]['target']
    return nodes


def build(nodes, S):
    syms, comments = [], []
    line = 10
    cline = 1000

    def ctype(t):
        """(SourceType, is callback-like) for a reference"""
        if t[0] == 'ok':
            return S.td('gint')
        if t[0] == 'bad':
            return S.ptr(S.td('FooUnknownType'))
        nd = nodes[t[1]]
        if nd['k'] == 'record':
            return S.ptr(S.td(nd['name']))
        return S.td(nd['name'])

    def callbackish(t, depth=0):
        if t[0] != 'node' or depth > 20:
            return False
        nd = nodes[t[1]]
        if nd['k'] == 'callback':
            return True
        if nd['k'] == 'alias':
            return callbackish(nd['target'], depth + 1)
        return False
    for nd in nodes:
        if nd['k'] == 'alias':
            syms.append(S.FS(S.CSYMBOL_TYPE_TYPEDEF, nd['name'], base_type=ctype(nd['target']), line=line))
        elif nd['k'] == 'record':
            syms.append(S.FS(S.CSYMBOL_TYPE_TYPEDEF, nd['name'], base_type=S.FT(S.CTYPE_STRUCT, '_' + nd['name']), line=line))
            syms.append(S.FS(S.CSYMBOL_TYPE_STRUCT, '_' + nd['name'], base_type=S.FT(S.CTYPE_STRUCT, '_' + nd['name'], child_list=[
                S.FS(S.CSYMBOL_TYPE_MEMBER, 'x', base_type=S.td('gint'), line=line + 1)]), line=line + 1))
            if nd['skip']:
                comments.append(('/**\n * %s: (skip)\n *\n * hidden\n */' % nd['name'], '/src/foo.c', cline))
                cline += 10
        else:
            ps = [S.param('p%d' % j, ctype(t)) for j, t in enumerate(nd['uses'])]
            anns = [' * @p%d: %sparameter' % (j, '(scope call): ' if callbackish(t) else '') for j, t in enumerate(nd['uses'])]
            comments.append(('/**\n * %s:\n%s\n */' % (nd['name'], '\n'.join(anns) if anns else ' *'), '/src/foo.c', cline))
            cline += 10
            if nd['k'] == 'callback':
                syms.append(S.cbtypedef(nd['name'], S.VOID, ps, line=line))
            else:
                syms.append(S.func(nd['name'], S.VOID, ps, line=line))
        line += 10
    return syms, comments


def coq_tref(t):
    return {'ok': 'TOk', 'bad': 'TBad'}.get(t[0]) or '(TNode %d)' % t[1]


def callbackish(nodes, t, depth=0):
    if t[0] != 'node' or depth > 20:
        return False
    nd = nodes[t[1]]
    if nd['k'] == 'callback':
        return True
    if nd['k'] == 'alias':
        return callbackish(nodes, nd['target'], depth + 1)
    return False


def coq_world(nodes):
    ns = []
    for nd in nodes:
        if nd['k'] == 'alias':
            ns.append('(NAlias %s)' % coq_tref(nd['target']))
        elif nd['k'] in ('callback', 'function'):
            # a node's own findings: an unresolved parameter type; and, in a callback type, a parameter that is itself a
            # callback (a (scope) annotation is only honoured on parameters of functions, so it can never be given one)
            own = not any(t[0] == 'bad' for t in nd['uses']) and not (nd['k'] == 'callback' and any(callbackish(nodes, t) for t in nd['uses']))
            ns.append('(NCallable %s %s)' % (cbool(own), clist([coq_tref(t) for t in nd['uses']])))
        else:
            ns.append('NOther')
    return '{| nodes := %s; skipped := %s |}' % (clist(ns), clist([cbool(bool(nd.get('skip'))) for nd in nodes]))


# ---------------------------------------------------------------- the GIR linter (clauses of the property judged on any GIR)

def stub_defined(root, S):
    """NS.Name for every definition of the stub namespaces Mid, Base and FooExt that the document includes (directly or through
    another stub); GLib, GObject and Gio stubs are partial and accepted as a whole"""
    import xml.etree.ElementTree as ET
    here = os.path.join(os.path.dirname(os.path.abspath(__file__)), 'stubgir')
    todo = [(i.get('name'), i.get('version')) for i in root.findall(S.CORE + 'include')]
    seen, out = set(), {}
    while todo:
        n, v = todo.pop()
        f = os.path.join(here, '%s-%s.gir' % (n, v))
        if (n, v) in seen or not os.path.exists(f):
            continue
        seen.add((n, v))
        r = ET.parse(f).getroot()
        todo += [(i.get('name'), i.get('version')) for i in r.findall(S.CORE + 'include')]
        ns = r.find(S.CORE + 'namespace')
        for el in ns:
            if el.get('name'):
                out['%s.%s' % (n, el.get('name'))] = el.get('introspectable') != '0'
                STUB_ELEMENTS['%s.%s' % (n, el.get('name'))] = el
    return out


STUB_ELEMENTS = {}


def lint(root, S, known_external):
    """yields (message, detail) for every breach of C05 found in a GIR document"""
    from giscanner import ast
    ns = root.find(S.CORE + 'namespace')
    stub_names = stub_defined(root, S)
    fundamentals = set(t.target_fundamental for t in ast.INTROSPECTABLE_BASIC) | {'none', 'gpointer', 'GType', 'utf8', 'filename', 'gunichar'}
    banned = {'va_list', 'long long', 'unsigned long long', 'long double'}
    defs = {}
    for el in ns:
        name = el.get('name') or el.get(S.GLIB + 'name')
        if name:
            defs[name] = el
    CALL = (S.CORE + 'function', S.CORE + 'method', S.CORE + 'constructor', S.CORE + 'callback', S.GLIB + 'signal', S.CORE + 'virtual-method')

    def intro(el):
        return el.get('introspectable') != '0'

    def type_names(el):
        for t in el.iter():
            if t.tag in (S.CORE + 'type', S.CORE + 'array'):
                yield t

    def check_types(owner, what):
        for t in type_names(owner):
            name = t.get('name')
            if t.tag == S.CORE + 'array':
                kids = [c for c in t if c.tag in (S.CORE + 'type', S.CORE + 'array')]
                if not kids:
                    yield ('an introspectable %s has an array without element type' % what, owner.get('name'))
                continue
            if name is None:
                yield ('an introspectable %s uses an unresolved type (c:type %s)' % (what, t.get(S.CNS + 'type')), owner.get('name'))
            elif name in banned:
                yield ('an introspectable %s uses %s' % (what, name), owner.get('name'))
            elif name in fundamentals:
                pass
            elif name in ('GLib.List', 'GLib.SList'):
                if not [c for c in t if c.tag in (S.CORE + 'type', S.CORE + 'array')]:
                    yield ('an introspectable %s has a list without element type' % what, owner.get('name'))
            elif '.' in name:
                if name not in known_external and name not in stub_names and name.split('.')[0] not in ('GLib', 'GObject', 'Gio'):
                    yield ('an introspectable %s refers to %s, which no included namespace defines' % (what, name), owner.get('name'))
                elif stub_names.get(name) is False:
                    yield ('an introspectable %s refers to %s, which is introspectable="0" in the included namespace' % (what, name), owner.get('name'))
            else:
                d = defs.get(name)
                if d is None:
                    yield ('an introspectable %s refers to %s, which this namespace does not define' % (what, name), owner.get('name'))
                elif not intro(d):
                    yield ('an introspectable %s refers to %s, which is not introspectable' % (what, name), owner.get('name'))

    def walk(parent, container_intro):
        for el in parent:
            ok = container_intro and intro(el)
            if el.tag in CALL:
                params = el.find(S.CORE + 'parameters')
                plist = list(params.findall(S.CORE + 'parameter')) if params is not None else []
                if ok:
                    for m in check_types(el, 'callable'):
                        yield m
                    for v in el.findall(S.CORE + 'return-value') + ([] if el.find(S.CORE + 'parameters') is None
                                                                        else el.find(S.CORE + 'parameters').findall(S.CORE + 'parameter')):
                        for t in v:
                            if v.get('skip') == '1':
                                continue
                            is_list = t.tag == S.CORE + 'type' and t.get('name') in ('GLib.List', 'GLib.SList')
                            if t.tag == S.CORE + 'array' or is_list:
                                kids = [c for c in t if c.tag in (S.CORE + 'type', S.CORE + 'array')]
                                if kids and kids[0].get('name') == 'gpointer' and kids[0].tag == S.CORE + 'type':
                                    yield ('a list or array of an introspectable callable states no element type (untyped pointers)', el.get('name'))
                    if el.find('.//' + S.CORE + 'varargs') is not None:
                        yield ('an introspectable callable has varargs', el.get('name'))
                    rv = el.find(S.CORE + 'return-value')
                    for v in plist + ([rv] if rv is not None else []):
                        if v.get('transfer-ownership') is None:
                            yield ('a parameter or return value of an introspectable callable states no ownership transfer', el.get('name'))
                    for p in plist:
                        t = p.find(S.CORE + 'type')
                        tn = t.get('name') if t is not None else None
                        def find_def(nm, home):
                            # a name as written inside namespace `home` (None: the scanned one)
                            if nm is None:
                                return None, home
                            if '.' in nm:
                                return STUB_ELEMENTS.get(nm), nm.split('.')[0]
                            if home is None:
                                return defs.get(nm), None
                            return STUB_ELEMENTS.get('%s.%s' % (home, nm)), home
                        d, home = find_def(tn, None)
                        hops = 0
                        while d is not None and d.tag == S.CORE + 'alias' and hops < 20:       # a typedef (of a typedef ...) of a callback type,
                            at = d.find(S.CORE + 'type')                                       # through the included namespaces too
                            tn = at.get('name') if at is not None else None
                            d, home = find_def(tn, home)
                            hops += 1
                        is_cb = (d is not None and d.tag == S.CORE + 'callback') or tn in ('GLib.Func',)
                        if is_cb and p.get('scope') is None and p.get('skip') != '1':      # a skipped parameter is not exposed
                            yield ('a callback parameter of an introspectable callable states no scope', el.get('name'))
                n = len(plist)
                for p in plist + [el.find(S.CORE + 'return-value')]:
                    if p is None:
                        continue
                    for attr in ('closure', 'destroy'):
                        if p.get(attr) is not None and not (0 <= int(p.get(attr)) < n):
                            yield ('%s index out of range' % attr, el.get('name'))
                    for a in p.iter(S.CORE + 'array'):
                        if a.get('length') is not None and not (0 <= int(a.get('length')) < max(n, 1)) and n > 0:
                            yield ('array length index out of range', el.get('name'))
            elif el.tag in (S.CORE + 'field', S.CORE + 'property'):
                if ok and el.find(S.CORE + 'callback') is None:
                    for m in check_types(el, el.tag.replace(S.CORE, '')):
                        yield m
            elif el.tag == S.CORE + 'alias':
                if ok:
                    for m in check_types(el, 'alias'):
                        yield m
            if el.tag in (S.CORE + 'record', S.CORE + 'union', S.CORE + 'class', S.CORE + 'interface', S.GLIB + 'boxed', S.CORE + 'enumeration',
                          S.CORE + 'bitfield'):
                for m in walk(el, ok):
                    yield m
            if el.tag == S.CORE + 'field' and el.find(S.CORE + 'callback') is not None:
                for m in walk(el, ok):
                    yield m
    for m in walk(ns, True):
        yield m
    # mutual references
    funcs = {}
    for el in ns.iter():
        if el.tag in (S.CORE + 'function', S.CORE + 'method', S.CORE + 'constructor'):
            funcs.setdefault(id(el), el)
    parent_of = {ch: p for p in ns.iter() for ch in p}
    for el in funcs.values():
        sibs = [x for x in parent_of[el] if x.tag == el.tag]
        byname = {x.get('name'): x for x in sibs}
        sh, sb = el.get('shadows'), el.get('shadowed-by')
        if sh is not None and (sh not in byname or byname[sh].get('shadowed-by') != el.get('name')):
            yield ('shadows without the matching shadowed-by', el.get('name'))
        if sb is not None and (sb not in byname or byname[sb].get('shadows') != el.get('name')):
            yield ('shadowed-by without the matching shadows', el.get('name'))
    for el in ns:
        ts = el.get(S.GLIB + 'type-struct')
        if ts is not None and (ts not in defs or defs[ts].get(S.GLIB + 'is-gtype-struct-for') != el.get('name')):
            yield ('type-struct without the matching is-gtype-struct-for', el.get('name'))
        back = el.get(S.GLIB + 'is-gtype-struct-for')
        if back is not None and (back not in defs or defs[back].get(S.GLIB + 'type-struct') != el.get('name')):
            yield ('is-gtype-struct-for without the matching type-struct', el.get('name'))
        if el.tag in (S.CORE + 'class', S.CORE + 'interface'):
            methods = {m.get('name'): m for m in el.findall(S.CORE + 'method')}
            for v in el.findall(S.CORE + 'virtual-method'):
                inv = v.get('invoker')
                if inv is not None and (inv not in methods or (intro(v) and not intro(methods[inv]))):
                    yield ('the invoker of a virtual method is not an (introspectable) method of the same type', v.get('name'))
            for p in el.findall(S.CORE + 'property'):
                for attr, back in (('setter', 'set-property'), ('getter', 'get-property')):
                    mname = p.get(attr)
                    if mname is None:
                        continue
                    m = methods.get(mname)
                    if m is not None and m.get(S.GLIB + back) not in (None, p.get('name')):
                        yield ('property %s and the method disagree' % attr, p.get('name'))
            # (the converse does not hold by design: several candidate getters all carry get-property, one is chosen)


def accessor_world(rng, S, ET, dashed=False):
    """a class with properties and candidate accessor methods, some carrying (set-property)/(get-property) annotations that name
    another property, some properties carrying explicit (setter)/(getter)"""
    props = rng.sample(['title', 'label', 'visible', 'count', 'is-active'], rng.randint(2, 4))
    if dashed and 'is-active' not in props:
        props.append('is-active')
    syms = [S.FS(S.CSYMBOL_TYPE_TYPEDEF, 'FooAcc', base_type=S.FT(S.CTYPE_STRUCT, '_FooAcc'), line=10),
            S.FS(S.CSYMBOL_TYPE_STRUCT, '_FooAcc', base_type=S.FT(S.CTYPE_STRUCT, '_FooAcc', child_list=[
                S.FS(S.CSYMBOL_TYPE_MEMBER, 'parent', base_type=S.td('GObject'), line=11)]), line=11),
            S.func('foo_acc_get_type', S.td('GType'), [], line=5)]
    comments = []
    line, cline = 20, 1000
    for p in props:
        u = p.replace('-', '_')
        for mname, setter in (('set_' + u, True), ('get_' + u, False), ('is_' + u, False), (u, False)):
            forced = dashed and p == 'is-active' and mname in ('set_is_active', 'get_is_active')
            if rng.random() < 0.55 or forced:
                ps = [S.param('self', S.ptr(S.td('FooAcc')))] + ([S.param('v', S.td('gboolean' if p in ('visible', 'is-active') else 'gint'))] if setter else [])
                syms.append(S.func('foo_acc_' + mname, S.VOID if setter else S.td('gboolean' if p in ('visible', 'is-active') else 'gint'), ps, line=line))
                line += 1
                if rng.random() < 0.4 or forced:
                    other = p if (rng.random() < 0.5 or forced) else rng.choice(props)
                    if rng.random() < 0.5 or forced:
                        other = other.replace('-', '_')      # the C spelling of a dashed property name: not the name of a property
                    comments.append(('/**\n * foo_acc_%s: (%s %s)\n * @self: it\n%s */' % (mname, 'set-property' if setter else 'get-property', other,
                                                                                          ' * @v: value\n' if setter else ''), '/src/foo.c', cline))
                    cline += 10
        if rng.random() < 0.3:
            comments.append(('/**\n * FooAcc:%s: (%s %s)\n *\n * A property.\n */' % (p, rng.choice(['setter', 'getter']),
                                                                                   rng.choice(['set_' + u, 'get_' + u, 'other_thing'])), '/src/foo.c', cline))
            cline += 10
    # values without a default ownership: functions and callback types returning (or taking as out parameter) a pointer to a
    # plain structure or union, to a class, to a list, with and without a (transfer) annotation
    syms += [S.FS(S.CSYMBOL_TYPE_TYPEDEF, 'FooPlain', base_type=S.FT(S.CTYPE_STRUCT, '_FooPlain'), line=200),
             S.FS(S.CSYMBOL_TYPE_STRUCT, '_FooPlain', base_type=S.FT(S.CTYPE_STRUCT, '_FooPlain', child_list=[
                 S.FS(S.CSYMBOL_TYPE_MEMBER, 'x', base_type=S.td('gint'), line=201)]), line=201),
             S.FS(S.CSYMBOL_TYPE_TYPEDEF, 'FooPlainU', base_type=S.FT(S.CTYPE_UNION, '_FooPlainU'), line=205),
             S.FS(S.CSYMBOL_TYPE_UNION, '_FooPlainU', base_type=S.FT(S.CTYPE_UNION, '_FooPlainU', child_list=[
                 S.FS(S.CSYMBOL_TYPE_MEMBER, 'x', base_type=S.td('gint'), line=206)]), line=206)]
    for i in range(rng.randint(2, 6)):
        rt = rng.choice(['FooPlain', 'FooPlainU', 'FooAcc', 'GList', 'GObject', 'GHashTable'])
        ann = rng.choice(['', '', '(transfer none)', '(transfer full)', '(transfer container)' if rt in ('GList', 'GHashTable') else ''])
        if rt in ('GList', 'GHashTable') and ann:
            ann += ' (element-type utf8 utf8)' if rt == 'GHashTable' else ' (element-type utf8)'
        name = 'foo_acc_make_%d' % i
        if rng.random() < 0.5:
            syms.append(S.func(name, S.ptr(S.td(rt)), [S.param('n', S.td('gint'))], line=210 + i))
            comments.append(('/**\n * %s:\n * @n: a number\n *\n * Returns: %sthe value\n */' % (name, ann + ': ' if ann else ''), '/src/foo.c', cline))
        else:
            syms.append(S.func(name, S.VOID, [S.param('out_value', S.ptr(S.ptr(S.td(rt))))], line=210 + i))
            comments.append(('/**\n * %s:\n * @out_value: (out)%s: the value\n */' % (name, ' ' + ann if ann else ''), '/src/foo.c', cline))
        cline += 10
    # variable arguments, documented or not, skipped or not
    from giscanner.sourcescanner import CSYMBOL_TYPE_ELLIPSIS
    for i in range(rng.randint(1, 3)):
        name = 'foo_acc_printf_%d' % i
        syms.append(S.func(name, S.VOID, [S.param('fmt', S.ptr(S.td('gchar'))), S.FS(CSYMBOL_TYPE_ELLIPSIS, None, base_type=None)], line=290 + i))
        doc = rng.choice([None, ' * @...: arguments\n', ' * @...: (skip): arguments\n', ' * @...: (skip)\n'])
        if doc is not None:
            comments.append(('/**\n * %s:\n * @fmt: a format\n%s */' % (name, doc), '/src/foo.c', cline))
            cline += 10
    # containers whose element, key or value type is hidden, exotic or unknown: the callable cannot stay introspectable
    syms += [S.FS(S.CSYMBOL_TYPE_TYPEDEF, 'FooHidden', base_type=S.FT(S.CTYPE_STRUCT, '_FooHidden'), line=300),
             S.FS(S.CSYMBOL_TYPE_STRUCT, '_FooHidden', base_type=S.FT(S.CTYPE_STRUCT, '_FooHidden', child_list=[
                 S.FS(S.CSYMBOL_TYPE_MEMBER, 'x', base_type=S.td('gint'), line=301)]), line=301),
             S.FS(S.CSYMBOL_TYPE_TYPEDEF, 'FooBig', base_type=S.basic('long long'), line=305)]
    comments.append(('/**\n * FooHidden: (skip)\n *\n * hidden\n */', '/src/foo.c', cline))
    cline += 10
    for i in range(rng.randint(2, 6)):
        cont = rng.choice(['GHashTable', 'GHashTable', 'GList', 'GPtrArray'])
        bad = rng.choice(['Foo.Hidden', 'Foo.Big', 'Foo.Nope', 'utf8', 'Foo.Plain', 'utf8'])
        pos = rng.choice(['key', 'value']) if cont == 'GHashTable' else 'element'
        et = ('%s utf8' % bad if pos == 'key' else 'utf8 %s' % bad) if cont == 'GHashTable' else bad
        name = 'foo_acc_cont_%d' % i
        syms.append(S.func(name, S.VOID, [S.param('c', S.ptr(S.td(cont)))], line=310 + i))
        comments.append(('/**\n * %s:\n * @c: (element-type %s): a container\n */' % (name, et), '/src/foo.c', cline))
        cline += 10
    dump = ('<?xml version="1.0"?><dump><class name="FooAcc" get-type="foo_acc_get_type" parents="GObject">'
            + ''.join('<property name="%s" type="%s" flags="%d"/>' % (p, 'gboolean' if p in ('visible', 'is-active') else 'gint', rng.choice([3, 3, 1, 11]))
                      for p in props) + '</class></dump>')
    # half of the worlds are scanned as namespace "Foolib" with identifier prefix Foo: the annotations above that say Foo.Hidden,
    # Foo.Big ... then use the deprecated spelling (identifier prefix in place of the namespace name) and must still lead somewhere
    nsname = rng.choice(['Foo', 'Foolib'])
    r = S.run(syms, comments=comments, nsname=nsname, identifier_prefixes=['Foo'], symbol_prefixes=['foo'], includes=['GLib', 'GObject'],
              dump=ET.ElementTree(ET.fromstring(dump)), warnings=False)
    return r.xml


def typed_member_world(rng, S, ET):
    """structures whose members have the types of callback typedefs, of aliases of them and of definitions of the included namespace
    Nib, some of which are (or turn out to be) not introspectable: a callback taking a va_list or variable arguments, declared before
    or after the structure; introspectable="0" records, aliases, enumerations and callbacks of Nib; functions and aliases using them"""
    from giscanner.sourcescanner import CSYMBOL_TYPE_ELLIPSIS
    line = [10]

    def at():
        line[0] += rng.randint(1, 7)
        return line[0]
    cbs = [('FooLogV', [S.param('fmt', S.ptr(S.td('gchar'))), S.param('args', S.td('va_list'))]),
           ('FooPrintf', [S.param('fmt', S.ptr(S.td('gchar'))), S.FS(CSYMBOL_TYPE_ELLIPSIS, None, base_type=None)]),
           ('FooBigCb', [S.param('v', S.basic('long long'))]),
           ('FooFine', [S.param('n', S.td('gint'))]),
           ('FooUsesJmp', [S.param('j', S.ptr(S.td('NibJmp')))])]
    cb_syms = [S.cbtypedef(n, S.VOID, ps, line=at()) for n, ps in cbs]
    alias_syms = [S.FS(S.CSYMBOL_TYPE_TYPEDEF, 'FooLogAlias', base_type=S.td('FooLogV'), line=at()),
                  S.FS(S.CSYMBOL_TYPE_TYPEDEF, 'FooFineAlias', base_type=S.td('FooFine'), line=at()),
                  S.FS(S.CSYMBOL_TYPE_TYPEDEF, 'FooRawAlias', base_type=S.td('NibRaw'), line=at()),
                  S.FS(S.CSYMBOL_TYPE_TYPEDEF, 'FooStampAlias', base_type=S.td('NibStamp'), line=at()),
                  # the dependency's typedef re-exported under the own prefix with the same short name: Foo.Func -> Nib.Func -> Nib.Notify
                  S.FS(S.CSYMBOL_TYPE_TYPEDEF, 'FooFunc', base_type=S.td('NibFunc'), line=at()),
                  S.FS(S.CSYMBOL_TYPE_TYPEDEF, 'FooHandler', base_type=S.td('NibFunc'), line=at())]
    ftypes = ['FooLogV', 'FooPrintf', 'FooBigCb', 'FooFine', 'FooUsesJmp', 'FooLogAlias', 'FooFineAlias', 'FooRawAlias', 'FooStampAlias',
              'NibJmp', 'NibOk', 'NibMode', 'NibTone', 'NibVaMarshal', 'NibNotify', 'NibRaw', 'NibStamp', 'gint']
    members = []
    for i, t in enumerate(rng.sample(ftypes, rng.randint(4, 10))):
        byval = t in ('NibJmp', 'NibOk') and rng.random() < 0.5
        members.append(S.FS(S.CSYMBOL_TYPE_MEMBER, 'm%d' % i, base_type=S.td(t) if (byval or not t.startswith(('NibJmp', 'NibOk'))) else S.ptr(S.td(t)),
                            line=at()))
    rec = [S.FS(S.CSYMBOL_TYPE_TYPEDEF, 'FooBackend', base_type=S.FT(S.CTYPE_STRUCT, '_FooBackend'), line=at()),
           S.FS(S.CSYMBOL_TYPE_STRUCT, '_FooBackend', base_type=S.FT(S.CTYPE_STRUCT, '_FooBackend', child_list=members), line=at())]
    funcs, comments = [], []
    for i in range(rng.randint(3, 8)):
        t = rng.choice(['NibJmp', 'NibOk', 'NibMode', 'NibTone', 'NibRaw', 'NibStamp', 'NibVaMarshal', 'NibNotify'])
        name = 'foo_nib_%d' % i
        shape = rng.choice(['param', 'ret', 'list', 'out'])
        ptr = t in ('NibJmp', 'NibOk')
        ct = S.ptr(S.td(t)) if ptr else S.td(t)
        if shape == 'param':
            funcs.append(S.func(name, S.VOID, [S.param('v', ct)], line=at()))
            if t in ('NibVaMarshal', 'NibNotify'):
                comments.append(('/**\n * %s:\n * @v: (scope call): a callback\n */' % name, '/src/foo.c', 1000 + 10 * i))
        elif shape == 'ret':
            funcs.append(S.func(name, ct, [], line=at()))
            if ptr:
                comments.append(('/**\n * %s:\n *\n * Returns: (transfer none): it\n */' % name, '/src/foo.c', 1000 + 10 * i))
        elif shape == 'list':
            funcs.append(S.func(name, S.VOID, [S.param('l', S.ptr(S.td('GList')))], line=at()))
            comments.append(('/**\n * %s:\n * @l: (element-type Nib.%s): a list\n */' % (name, t[3:]), '/src/foo.c', 1000 + 10 * i))
        else:
            funcs.append(S.func(name, S.VOID, [S.param('o', S.ptr(ct))], line=at()))
            comments.append(('/**\n * %s:\n * @o: (out)%s: a value\n */' % (name, ' (transfer none)' if ptr else ''), '/src/foo.c', 1000 + 10 * i))
    for i, t in enumerate(['FooFunc', 'FooHandler', 'NibFunc']):
        # callbacks behind alias chains that cross into the included namespace, with and without a scope
        funcs.append(S.func('foo_chain_%d' % i, S.VOID, [S.param('cb', S.td(t))], line=at()))
        if rng.random() < 0.5:
            comments.append(('/**\n * foo_chain_%d:\n * @cb: (scope call): a callback\n */' % i, '/src/foo.c', 2000 + 10 * i))
    groups = [cb_syms, alias_syms, rec, funcs]
    rng.shuffle(groups)          # the structure before or after the callback types it uses
    syms = [s_ for g in groups for s_ in g]
    r = S.run(syms, comments=comments, includes=['GLib', 'GObject', 'Nib'], warnings=False)
    return r.xml


def main(tier, seed):
    ck = Check('C05', tier, seed)
    ck.assumptions += ['declarations are SourceSymbol trees (stub lexer); reference graphs are over aliases, callback types, functions and '
                       'structures of one namespace; typedef cycles are not generated (not C)',
                       'the linter judges closure and cross-reference consistency on every GIR produced by the generators of C01, C03, C04, '
                       'C12, C16 as well']
    ck.prove([], models=['Model/C05.vo'])
    import scanner as S
    import xml.etree.ElementTree as ET
    rng = random.Random(seed)
    n = 80 if tier == 'quick' else 1200
    items, worlds = [], []
    corpus = [
        [dict(k='alias', name='FooA2', target=('node', 1)), dict(k='alias', name='FooA1', target=('bad',)), dict(k='function', name='foo_fn', uses=[('node', 0)])],
        [dict(k='callback', name='FooCbA', uses=[('node', 1)]), dict(k='callback', name='FooCbB', uses=[('node', 2)]),
         dict(k='callback', name='FooCbC', uses=[('bad',)]), dict(k='function', name='foo_use', uses=[('node', 0)])],
    ]
    for i in range(n):
        nodes = corpus[i] if i < len(corpus) else gen_world(rng)
        syms, comments = build(nodes, S)
        try:
            r = S.run(syms, comments=comments, includes=['GLib', 'GObject'], warnings=False)
        except (Exception, SystemExit) as e:      # noqa
            ck.failing_input('the scanner fails on a reference graph: %r' % (e,), dict(nodes=nodes))
            continue
        ns = S.gir_ns(r.root)
        byname = {}
        for el in ns:
            key = el.get(S.CNS + 'identifier') or el.get(S.CNS + 'type') or el.get('name')
            byname[key] = el
        flags = []
        missing = False
        for nd in nodes:
            el = byname.get(nd['name'])
            if el is None:
                ck.failing_input('a declared element is missing from the GIR', dict(nodes=nodes, element=nd['name']))
                missing = True
                break
            flags.append(el.get('introspectable') != '0')
        if missing:
            continue
        ck.count_case(dict(nodes=[(nd['k'], nd.get('target') or nd.get('uses')) for nd in nodes]), nontrivial=len(nodes) > 3,
                      kind='nodes:%d' % min(len(nodes), 12))
        for msg, where in lint(r.root, S, set()):
            ck.failing_input(msg, dict(nodes=nodes, element=where), fid=None)
        items.append('(%d, %s, %s)' % (len(worlds), coq_world(nodes), clist([cbool(f) for f in flags])))
        worlds.append(nodes)
    # the linter on the other generators' GIRs
    try:
        import c15
        extra = c15.scanner_girs(rng, 3 if tier == 'quick' else 25)
    except (Exception, SystemExit) as e:      # noqa
        ck.tie_broken('correspondence', 'the scanner fails on a generated world: %r' % (e,))
        extra = []
    for b in range(15 if tier == 'quick' else 200):
        try:
            extra.append(('accessor world #%d' % b, accessor_world(rng, S, ET, dashed=(b % 3 == 0)), []))
        except (Exception, SystemExit) as e:      # noqa
            ck.failing_input('the scanner fails on a class with accessor methods: %r' % (e,), dict(world=b))
    for b in range(15 if tier == 'quick' else 200):
        try:
            extra.append(('typed members #%d' % b, typed_member_world(rng, S, ET), []))
        except (Exception, SystemExit) as e:      # noqa
            ck.failing_input('the scanner fails on structures with callback-typed members and types of an included namespace: %r' % (e,), dict(world=b))
    for what, xml, incs in [e_[:3] for e_ in extra]:
        root = ET.fromstring(xml)
        ck.count_case(dict(world=what), nontrivial=False, kind='linted:' + what.split('#')[0].strip())
        for msg, where in lint(root, S, set()):
            ck.failing_input(msg, dict(world=what, element=where, gir=xml))
    if ck.models_ok and items:
        bad = []
        per = 200
        for s0 in range(0, len(items), per):
            text = '\n'.join(['From Coq Require Import List Arith Bool.', 'From GIV.Model Require Import C05.', 'Import ListNotations.',
                              'Fixpoint beq (a b : list bool) := match a, b with [], [] => true | x :: a, y :: b => Bool.eqb x y && beq a b | _, _ => false end.',
                              'Definition shown (w : world) := map (shown_introspectable w (pass w)) (seq 0 (length (nodes w))).',
                              'Definition cases : list (nat * world * list bool) := [%s].' % ';\n'.join(items[s0:s0 + per]),
                              "Definition bad := Eval vm_compute in map (fun c => fst (fst c)) (filter (fun c => let '(_, w, o) := c in negb (beq (shown w) o)) cases).",
                              'Print bad.'])
            rc, out = coq_eval('C05_cases_%d' % (s0 // per), text)
            if rc != 0:
                ck.tie_broken('correspondence', 'case file does not evaluate:\n' + out[-2000:])
                break
            t = parse_defs(out)['bad']
            bad += [int(x) for x in t.replace('%nat', '').strip('[]').split(';') if x.strip()]
        ck.extra['traces_validated_against_impl'] = len(items)
        if bad:
            ck.tie_broken('correspondence', 'the introspectable flags of the GIR differ from Model.C05 (repaired pass) on %d graphs' % len(bad),
                          dict(nodes=worlds[bad[0]]))
    return ck.finish(rule='reference graphs of 4-12 aliases, callback types, functions and structures (40% of the structures skipped) in '
                          'declaration order, references going forwards and backwards, 12% unresolved, alias chains and callback chains of any '
                          'length; two corpus graphs reproduce the non-closure of the pass as found; the clauses of the property (closure, '
                          'transfer/scope/element-type present, indices in range, mutual shadows/type-struct/invoker/accessor links) are also '
                          'judged by a linter on the GIRs of the other generators')


if __name__ == '__main__':
    sys.exit(main(os.environ.get('VERIF_TIER', 'quick'), int(os.environ.get('VERIF_SEED', '1'))))
