"""C19 — library names resolve to the right shared objects or fail loudly."""
import os
import re
import random
import sys
import tempfile

from common import Check, coq_eval, parse_defs, parse_nlist, cstr, clist, cbool, copt, REPO

NAMES = ['foo', 'pango', 'pangoft2', 'glib-2.0', 'gtk+', 'x', 'a.b', 'c++', '[z]', 'q(1)', 'f\\o', 'foo_bar',
         'foo-bar', 'bar', 'libfoo', 'ba*r', 'z?', 'f|g', 'd$', '^e', 'ü', 'Foo', 'gio-2.0', 'm', 'ba']
EXTS = ['.so', '.so.0', '.so.1.2.3', '-1.0.so.0', '.dylib', '.2.dylib', '', '.', '+', '/x', '.so/y', ' ', '.la', '.a',
        '-', '_', '0', '.soé']
DIRS = ['', '/usr/lib/', '/lib64/', './', '../x/', '/opt/lib', 'lib', '/usr/lib/lib', '@rpath/', '/a b/', '/usr/libfoo/',
        '/lä/']
SEPS = ['\n'] * 12 + ['\r\n', '\r', '\x0b', '\x0c', ' ', '\x1c', '\x85', '\n\n']
SPACES = [' '] * 8 + ['\t', '  ', ' ', '　', '\x1f']


def gen_word(rng, names):
    n = rng.choice(names) if rng.random() < 0.8 else rng.choice(NAMES)
    r = rng.random()
    if r < 0.55:
        stem = n
    elif r < 0.7:
        stem = n + rng.choice(['ft2', '-bar', '_x', '2', 'X', '-'])
    elif r < 0.8:
        stem = 'lib' + n
    elif r < 0.9:
        stem = n[:-1] if len(n) > 1 else n
    else:
        stem = n.upper()
    pre = rng.choice(['lib'] * 8 + ['', 'Lib', 'liblib', 'li'])
    return rng.choice(DIRS) + pre + stem + rng.choice(EXTS)


def gen_case(rng):
    k = rng.choice([1, 1, 2, 2, 3, 4])
    names = [rng.choice(NAMES) for _ in range(k)]
    if rng.random() < 0.1:
        names.append(names[0])
    lines = []
    for _ in range(rng.randint(0, 7)):
        r = rng.random()
        if r < 0.5:
            w = gen_word(rng, names)
            so = os.path.basename(w) or 'x'
            lines.append('\t' + so + ' => ' + w + ' (0x%08x)' % rng.getrandbits(32))
        elif r < 0.65:
            lines.append('\t' + gen_word(rng, names) + ' (compatibility version 1.0.0, current version 2.3.0)')
        elif r < 0.75:
            lines.append(rng.choice(['prog:', '/tmp/lib' + rng.choice(names) + '.so:', 'a b:', ':', ' x: ',
                                     # otool prints one header per slice of a universal binary: words between the path and the colon
                                     '/build/tmp-introspect/lib' + rng.choice(names) + '.bin (architecture x86_64):',
                                     'lib' + rng.choice(names) + '.so.9 (for architecture arm64):']))
        elif r < 0.85:
            lines.append(rng.choice(['\tlinux-vdso.so.1 (0x00007ffd)', '\tstatically linked', 'libtool: warning',
                                     '', '   ']))
        else:
            lines.append(rng.choice(SPACES).join(gen_word(rng, names) for _ in range(rng.randint(1, 3))))
    out = ''
    for l in lines:
        out += l + rng.choice(SEPS)
    if out and rng.random() < 0.3:
        out = out.rstrip('\n')
    return names, out


def run_impl(cases, pats, las):
    sys.path.insert(0, REPO)
    from giscanner import shlibs, utils
    cwd = os.getcwd()
    tmp = tempfile.mkdtemp(prefix='giv19')
    os.chdir(tmp)
    # directories of the working directory that are named like requested libraries (libgd built in ./gd): a request is only
    # taken for a path when it is a file
    for nm in NAMES:
        if re.match(r'^[A-Za-z0-9_.+-]+$', nm) and nm not in ('.', '..') and len(os.listdir(tmp)) < 6:
            os.makedirs(os.path.join(tmp, nm), exist_ok=True)
    res = []
    try:
        for names, out in cases:
            try:
                r = shlibs.resolve_from_ldd_output(list(names), out)
                res.append(('ok', list(r)))
            except SystemExit as e:
                res.append(('exit', str(e.code)))
            except Exception as e:      # noqa: an exception other than the documented error exit
                res.append(('raise', '%s: %s' % (type(e).__name__, e)))
        pres = []
        for n, w in pats:
            try:
                m = shlibs._ldd_library_pattern(n).match(w)
                pres.append((bool(m), m.group() if m else None))
            except Exception as e:      # noqa
                pres.append((False, 'raise %s: %s' % (type(e).__name__, e)))
        lres = []
        for data in las:
            p = os.path.join(tmp, 'x.la')
            with open(p, 'w', encoding='utf-8', newline='') as f:
                f.write(data)
            lres.append((utils._extract_dlname_field(p), utils.extract_libtool_shlib(p)))
        bres = [shlibs.sanitize_shlib_path(w) for _, w in pats]
    finally:
        os.chdir(cwd)
        try:
            os.unlink(os.path.join(tmp, 'x.la'))
        except OSError:
            pass
        import shutil
        shutil.rmtree(tmp, ignore_errors=True)
    return res, pres, lres, bres


def gen_la(rng):
    val = ''.join(rng.choice("abcLIB.so-+_0129^`[]\\") for _ in range(rng.randint(0, 8)))
    pieces = ["# libfoo.la - a libtool library file\n", "dlname='%s'\n" % val, "dlname='%s'" % val,
              "dlname='bad name'\n", "library_names='libfoo.so.0 libfoo.so'\n", "olddlname='dir/%s'\n" % val,
              "dlname='dir/sub/%s'\n" % val, "dlname=''\n", "dlname='%s' \n" % val, "libdir='/usr/lib'\n",
              "xdlname='dlname='%s'\n" % val, "\n", "dlname='é'\n"]
    return ''.join(rng.choice(pieces) for _ in range(rng.randint(0, 5)))


def main(tier, seed):
    ck = Check('C19', tier, seed)
    ck.assumptions += [
        'host is not Darwin/Windows/OpenBSD: only the ldd/otool text path of shlibs.py is modelled',
        're.escape(name) matches name literally (tested on names with metacharacters)',
        'os.path.isfile is false for every request (cases run in an empty directory)',
        'CPython str.split/str.splitlines tables as generated into Gen/Unicode.v from the running interpreter']
    proved = ck.prove(['gen_unicode.py', 'gen_c19.py'], models=['Model/C19Spec.vo'])
    rng = random.Random(seed)
    n = 600 if tier == 'quick' else 12000
    cases = [gen_case(rng) for _ in range(n)]
    # fixed corpus first
    corpus = [(['foo'], 'libfoo.so.1 => /usr/lib/libfoo.so.1 (0x1)\n'),
              (['pango'], ' libpangoft2-1.0.so.0 => /usr/lib/libpangoft2-1.0.so.0 (0x006c1000)\n'),
              (['foo', 'bar'], 'prog:\n\tlibbar.so => /l/libbar.so\n\tlibfoo.so => /l/libfoo.so\n'),
              (['foo'], '/usr/lib/libfoo/libbar.so\n'), (['foo'], 'libfoo.so:\n'), ([], 'libfoo.so\n'),
              (['foo'], ''), (['a.b'], 'libaxb.so libfoo.so\n')]
    cases = corpus + cases
    pats = []
    for _ in range(n):
        names = [rng.choice(NAMES)]
        w = gen_word(rng, names)
        if rng.random() < 0.05:
            w += '\n'
        pats.append((names[0], w))
    las = [gen_la(rng) for _ in range(n // 2)]
    # libtool archives as libtool writes them: the dlname is a shared-object file name (letters, digits, '_', '.', '+', '-')
    real_dl = ['libgdk_pixbuf-2.0.so.0', 'libstdc++.so.6', 'libfoo.so', 'libFoo_Bar-1.2.so.0.300.1', 'lib_x.so', 'libz.so.1'] + \
              ['lib' + ''.join(rng.choice('abcXYZ019_.+-') for _ in range(rng.randint(1, 10))) + '.so' for _ in range(20 if tier == 'quick' else 300)]
    n_las = len(las)
    las += ["# libfoo.la - a libtool library file\n# Generated by libtool\n\n# The name that we can dlopen(3).\ndlname='%s'\n\n"
            "# Names of this library.\nlibrary_names='%s %s'\n\nlibdir='/usr/lib'\n" % (d, d, d.split('.so')[0] + '.so') for d in real_dl]
    res, pres, lres, bres = run_impl(cases, pats, las)
    for d, (field, shlib) in zip(real_dl, lres[n_las:]):
        if shlib != d:
            ck.failing_input('a libtool archive does not resolve to its dlname', dict(dlname=d), detail=dict(dlname_field=field, resolved=shlib))

    if not proved:
        # the model may be unusable; still look for a concrete failing input with the spec below
        pass
    shards = []
    per = 400
    ok_all = True
    tie_ids, spec_ids, silent = [], [], 0
    pat_tie, pat_spec, la_tie, bn_tie = [], [], [], []
    for s in range(0, len(cases), per):
        lines = ['From Coq Require Import List NArith Bool.',
                 'From GIV.Lib Require Import Regex Str.',
                 'From GIV.Model Require Import C19 C19Spec.',
                 'Import ListNotations.', 'Local Open Scope N_scope.',
                 'Definition cases : list case := [']
        items = []
        for i in range(s, min(s + per, len(cases))):
            names, out = cases[i]
            kind, val = res[i]
            obs = 'ObsOk %s' % clist([cstr(w) for w in val]) if kind == 'ok' else 'ObsExit %s' % cstr(val)
            items.append('{| c_id := %d; c_libs := %s; c_out := %s; c_obs := %s |}'
                         % (i, clist([cstr(x) for x in names]), cstr(out), obs))
        lines.append(';\n'.join(items) + '].')
        pit = []
        for i in range(s, min(s + per, len(pats))):
            nme, w = pats[i]
            pit.append('(%d, %s, %s, %s)' % (i, cstr(nme), cstr(w), cbool(pres[i][0])))
        lines.append('Definition pats : list (N * str * str * bool) := [%s].' % ';\n'.join(pit))
        lit = []
        for i in range(s // 2, min(s // 2 + per // 2, len(las))):
            lit.append('(%d, %s, %s, %s)' % (i, cstr(las[i]), copt(lres[i][0], cstr), copt(lres[i][1], cstr)))
        lines.append('Definition las : list (N * str * option str * option str) := [%s].' % ';\n'.join(lit))
        bit = []
        for i in range(s, min(s + per, len(pats))):
            bit.append('(%d, %s, %s)' % (i, cstr(pats[i][1]), cstr(bres[i])))
        lines.append('Definition bns : list (N * str * str) := [%s].' % ';\n'.join(bit))
        lines += [
            'Definition tie_ids := Eval vm_compute in map c_id (filter tie_bad cases).', 'Print tie_ids.',
            'Definition spec_ids := Eval vm_compute in map c_id (filter spec_bad cases).', 'Print spec_ids.',
            'Definition silent_n := Eval vm_compute in N.of_nat (length (filter spec_silent cases)).', 'Print silent_n.',
            'Definition pat_tie := Eval vm_compute in map (fun c => fst (fst (fst c))) (filter pat_bad pats).',
            'Print pat_tie.',
            'Definition pat_spec := Eval vm_compute in map (fun c => fst (fst (fst c))) (filter pat_spec_bad pats).',
            'Print pat_spec.',
            'Definition la_tie := Eval vm_compute in map (fun c => fst (fst (fst c))) (filter (fun c => '
            "let '(_, d, a, b) := c in negb (opt_str_eqb (extract_dlname d) a && "
            'opt_str_eqb (option_map sanitize_shlib_path (extract_dlname d)) b)) las).', 'Print la_tie.',
            'Definition bn_tie := Eval vm_compute in map (fun c => fst (fst c)) (filter (fun c => '
            "let '(_, w, b) := c in negb (str_eqb (sanitize_shlib_path w) b)) bns).", 'Print bn_tie.']
        rc, out = coq_eval('C19_cases_%d' % (s // per), '\n'.join(lines))
        if rc != 0:
            ck.tie_broken('correspondence', 'case file does not evaluate against the model:\n' + out[-2000:])
            ok_all = False
            break
        d = parse_defs(out)
        tie_ids += parse_nlist(d['tie_ids'])
        spec_ids += parse_nlist(d['spec_ids'])
        silent += int(d['silent_n'].rstrip('%N'))
        pat_tie += parse_nlist(d['pat_tie'])
        pat_spec += parse_nlist(d['pat_spec'])
        la_tie += parse_nlist(d['la_tie'])
        bn_tie += parse_nlist(d['bn_tie'])

    for i, (names, out) in enumerate(cases):
        ck.count_case(dict(libs=names, output=out, observed=res[i]),
                      nontrivial=bool(names) and bool(out.strip()), kind='resolve:' + res[i][0])
    for i, (nme, w) in enumerate(pats):
        ck.count_case(dict(name=nme, word=w, matched=pres[i][0]), kind='pattern:%s' % pres[i][0])
        if pres[i][0] and pres[i][1] != w:
            ck.tie_broken('correspondence', 'match does not cover the whole word', dict(name=nme, word=w))
    for i, data in enumerate(las):
        ck.count_case(dict(la=data, dlname=lres[i][0]), nontrivial=bool(data), kind='la:%s' % (lres[i][0] is not None))
    ck.extra['spec_silent_cases'] = silent
    ck.extra['traces_validated_against_impl'] = len(cases) + len(pats) + len(las)

    # verdict: spec failures are concrete failing inputs; tie failures name the correspondence
    for i in spec_ids:
        ck.failing_input('resolve result contradicts the property', dict(libs=cases[i][0], output=cases[i][1]),
                         detail=dict(observed=res[i]))
    for i in pat_spec:
        ck.failing_input('pattern verdict contradicts the property', dict(name=pats[i][0], word=pats[i][1]),
                         detail=dict(matched=pres[i][0]))
    if tie_ids:
        i = tie_ids[0]
        ck.tie_broken('correspondence', 'resolve_from_ldd_output disagrees with Model.C19.resolve on %d cases'
                      % len(tie_ids), dict(libs=cases[i][0], output=cases[i][1], observed=res[i]))
    if pat_tie:
        i = pat_tie[0]
        ck.tie_broken('correspondence', '_ldd_library_pattern disagrees with Gen.LddPattern on %d words' % len(pat_tie),
                      dict(name=pats[i][0], word=pats[i][1], matched=pres[i][0]))
    if la_tie:
        i = la_tie[0]
        ck.tie_broken('correspondence', 'dlname extraction disagrees with the model on %d files' % len(la_tie),
                      dict(la=las[i], observed=lres[i]))
    if bn_tie:
        i = bn_tie[0]
        ck.tie_broken('correspondence', 'sanitize_shlib_path disagrees with basename model',
                      dict(word=pats[i][1], observed=bres[i]))
    return ck.finish(
        rule='seeded generator of ldd/otool-style listings (requests related by prefix/suffix, regex '
             'metacharacters, header lines, 8 line separators, unicode blanks) + single (name, word) pattern '
             'probes + libtool .la contents; non-trivial = non-empty request list and non-blank listing; distinct by '
             'sha256 of the case')


if __name__ == '__main__':
    tier = os.environ.get('VERIF_TIER', 'quick')
    seed = int(os.environ.get('VERIF_SEED', '1'))
    sys.exit(main(tier, seed))
