"""C02 — undocumented APIs get the documented default ownership, types and roles."""
import os
import random
import sys

from common import Check, coq_eval, parse_defs, parse_nlist, cstr, clist, cbool, copt

# ---- C declarator trees (mirrors Model/C02.v ctree) and their SourceType rendering
def T_void():
    return ('void',)


def T_basic(n, c=False):
    return ('basic', n, c)


def T_td(n, c=False):
    return ('td', n, c)


def T_ptr(t, c=False):
    return ('ptr', t, c)


def T_other(c=False):
    return ('other', c)


def coq_tree(t):
    k = t[0]
    if k == 'void':
        return 'CVoid'
    if k == 'basic':
        return '(CBasic %s %s)' % (cstr(t[1]), cbool(t[2]))
    if k == 'td':
        return '(CTypedef %s %s)' % (cstr(t[1]), cbool(t[2]))
    if k == 'ptr':
        return '(CPointer %s %s)' % (coq_tree(t[1]), cbool(t[2]))
    if k == 'array':
        return '(CArray %s)' % coq_tree(t[1])
    return '(CTag %s %s)' % (cstr('_FooTag'), cbool(t[1]))


def src_tree(t):
    import scanner as S
    k = t[0]
    C = S.TYPE_QUALIFIER_CONST
    if k == 'void':
        return S.FT(S.CTYPE_VOID)
    if k == 'basic':
        return S.FT(S.CTYPE_BASIC_TYPE, t[1], type_qualifier=C if t[2] else 0)
    if k == 'td':
        return S.FT(S.CTYPE_TYPEDEF, t[1], type_qualifier=C if t[2] else 0)
    if k == 'ptr':
        return S.FT(S.CTYPE_POINTER, base_type=src_tree(t[1]), type_qualifier=C if t[2] else 0)
    if k == 'array':
        return S.FT(S.CTYPE_ARRAY, base_type=src_tree(t[1]))
    return S.FT(S.CTYPE_STRUCT, '_FooTag', type_qualifier=C if t[1] else 0)


BASICS = ['int', 'unsigned int', 'unsigned', 'char', 'signed char', 'unsigned char', 'short', 'unsigned short', 'long',
          'unsigned long', 'float', 'double', 'long long', 'unsigned long long', 'long double', '_Bool']
TYPEDEFS = ['gint', 'guint', 'gboolean', 'gchar', 'guchar', 'gint8', 'guint8', 'gint16', 'guint16', 'gint32', 'guint32',
            'gint64', 'guint64', 'gfloat', 'gdouble', 'gsize', 'gssize', 'glong', 'gulong', 'gshort', 'gushort', 'GType',
            'gunichar', 'gunichar2', 'gpointer', 'gconstpointer', 'gintptr', 'guintptr', 'goffset', 'int8_t', 'uint8_t',
            'int32_t', 'uint64_t', 'size_t', 'ssize_t', 'time_t', 'off_t', 'pid_t', 'GStrv', 'va_list', 'bool',
            'FooRec', 'FooBox', 'FooEnum', 'FooCb', 'FooAlias', 'FooUnknown', 'GDestroyNotify', 'GAsyncReadyCallback', 'GFunc',
            'GQuark', 'FooAlias2', 'FooCb2']
PTR_BASES = ['char', 'gchar', 'void', 'gint', 'int', 'gpointer', 'guint8', 'FooRec', 'FooBox', 'FooUnknown', 'GList', 'GSList',
             'GHashTable', 'GArray', 'GPtrArray', 'GByteArray', 'GError', 'GObject', 'GVariant', 'FILE', 'GValue', 'FooObj',
             'GCancellable']

# declared identifiers: C identifier -> (giname, class)
ENV = {
    'FooRec': ('Foo.Rec', 'KRecordPlain'), 'FooBox': ('Foo.Box', 'KRecordBoxed'), 'FooEnum': ('Foo.Enum', 'KEnum'),
    'FooCb': ('Foo.Cb', 'KCallback'), 'FooAlias': ('Foo.Alias', 'KAliasBasic'), 'FooObj': ('Foo.Obj', 'KClass'),
    'FooAlias2': ('Foo.Alias2', 'KAliasBasic'), 'FooCbA': ('Foo.CbA', 'KCallback'), 'FooCb2': ('Foo.Cb2', 'KCallback'),
    'GDestroyNotify': ('GLib.DestroyNotify', 'KDestroyNotify'), 'GAsyncReadyCallback': ('Gio.AsyncReadyCallback', 'KAsyncReady'),
    'GFunc': ('GLib.Func', 'KCallback'), 'GError': ('GLib.Error', 'KRecordBoxed'), 'GObject': ('GObject.Object', 'KClass'),
    'GVariant': ('GLib.Variant', 'KRecordBoxed'), 'GValue': ('GObject.Value', 'KRecordBoxed'),
    'GCancellable': ('Gio.Cancellable', 'KClass'), 'GQuark': ('GLib.Quark', 'KAliasBasic'),
}


def gen_tree(rng, position):
    r = rng.random()
    if r < 0.2:
        return T_basic(rng.choice(BASICS), rng.random() < 0.1)
    if r < 0.55:
        return T_td(rng.choice(TYPEDEFS), rng.random() < 0.1)
    if r < 0.6 and position == 'ret':
        return T_void()
    base = rng.choice(PTR_BASES)
    b = T_void() if base == 'void' else (T_basic(base, rng.random() < 0.3) if base in ('char', 'int')
                                        else T_td(base, rng.random() < 0.3))
    t = T_ptr(b, rng.random() < 0.05)
    if rng.random() < 0.15:
        t = T_ptr(t)
    if rng.random() < 0.03:
        t = T_ptr(T_other(rng.random() < 0.5))
    return t


NAMES = ['a', 'b', 'data', 'user_data', 'callback', 'func', 'notify', 'destroy', 'error', 'x', 'cb_data', 'n', 'closure', 'udata']


def gen_function(rng, i):
    n = rng.choice([0, 1, 2, 3, 4, 6])
    params = []
    used = set()
    for k in range(n):
        r = rng.random()
        if r < 0.12:
            t = T_td(rng.choice(['FooCb', 'GFunc', 'GAsyncReadyCallback', 'FooCb2']))
        elif r < 0.2:
            t = T_td('GDestroyNotify')
        elif r < 0.32:
            t = T_td(rng.choice(['gpointer', 'gconstpointer']))
        else:
            t = gen_tree(rng, 'param')
        nm = rng.choice(NAMES)
        while nm in used:
            nm = nm + 'x'
        used.add(nm)
        params.append((nm, t))
    if rng.random() < 0.3:
        params.append(('error' if 'error' not in used else 'err2', T_ptr(T_ptr(T_td('GError')))))
    return dict(name='foo_f%d' % i, params=params, ret=gen_tree(rng, 'ret'))


def observe(el, parent_params):
    import scanner as S
    t = None
    for ch in el:
        tag = ch.tag.replace(S.CORE, '')
        if tag in ('type', 'array', 'varargs'):
            t = ch
    arr = t is not None and t.tag == S.CORE + 'array'
    child = None
    if t is not None:
        for ch in t:
            if ch.tag in (S.CORE + 'type', S.CORE + 'array'):
                child = ch.get('name')
                break
    return dict(array=arr, tname=t.get('name') if t is not None else None, ctype=t.get(S.CNS + 'type') if t is not None else None,
                child=child, transfer=el.get('transfer-ownership'), nullable=el.get('nullable') == '1',
                scope=el.get('scope'), closure=int(el.get('closure')) if el.get('closure') else None,
                destroy=int(el.get('destroy')) if el.get('destroy') else None)


def coq_obs(o):
    return ('{| o_array := %s; o_tname := %s; o_ctype := %s; o_child := %s; o_transfer := %s; o_nullable := %s; '
            'o_scope := %s; o_closure := %s; o_destroy := %s |}'
            % (cbool(o['array']), copt(o['tname'], cstr), copt(o['ctype'], cstr), copt(o['child'], cstr),
               copt(o['transfer'], cstr), cbool(o['nullable']), copt(o['scope'], cstr),
               copt(o['closure'], lambda v: '%d%%nat' % v), copt(o['destroy'], lambda v: '%d%%nat' % v)))


def world_symbols():
    import scanner as S
    syms = [S.FS(S.CSYMBOL_TYPE_TYPEDEF, 'FooRec', base_type=S.FT(S.CTYPE_STRUCT, '_FooRec')),
            S.FS(S.CSYMBOL_TYPE_STRUCT, '_FooRec', base_type=S.FT(S.CTYPE_STRUCT, '_FooRec',
                 child_list=[S.FS(S.CSYMBOL_TYPE_MEMBER, 'x', base_type=S.basic('int'))])),
            S.FS(S.CSYMBOL_TYPE_TYPEDEF, 'FooBox', base_type=S.FT(S.CTYPE_STRUCT, '_FooBox')),
            S.FS(S.CSYMBOL_TYPE_STRUCT, '_FooBox', base_type=S.FT(S.CTYPE_STRUCT, '_FooBox',
                 child_list=[S.FS(S.CSYMBOL_TYPE_MEMBER, 'y', base_type=S.basic('int'))])),
            S.FS(S.CSYMBOL_TYPE_TYPEDEF, 'FooObj', base_type=S.FT(S.CTYPE_STRUCT, '_FooObj')),
            S.enum_typedef('FooEnum', [('FOO_ENUM_A', 0, False), ('FOO_ENUM_B', 1, False)]),
            S.cbtypedef('FooCb', S.VOID, [S.param('user_data', S.td('gpointer'))]),
            S.FS(S.CSYMBOL_TYPE_TYPEDEF, 'FooAlias', base_type=S.td('gint')),
            # typedefs of typedefs: two links down to a basic type and to a callback type
            S.FS(S.CSYMBOL_TYPE_TYPEDEF, 'FooAlias2', base_type=S.td('FooAlias')),
            S.FS(S.CSYMBOL_TYPE_TYPEDEF, 'FooCbA', base_type=S.td('FooCb')),
            S.FS(S.CSYMBOL_TYPE_TYPEDEF, 'FooCb2', base_type=S.td('FooCbA')),
            S.func('foo_box_get_type', S.td('GType'), []), S.func('foo_obj_get_type', S.td('GType'), [])]
    return syms


DUMP = '''<?xml version="1.0"?><dump>
<boxed name="FooBox" get-type="foo_box_get_type"/>
<class name="FooObj" get-type="foo_obj_get_type" parents="GObject"></class>
</dump>'''


def extra_direct(ck, S, ET, rng):
    """combinations judged directly (not through the model): string and integer constants next to a returned char**, returned
    pointers to const volatile, a destroy-notify and a callback spelled through typedefs"""
    CV = S.TYPE_QUALIFIER_CONST | S.TYPE_QUALIFIER_VOLATILE
    syms = world_symbols()
    syms += [S.FS(S.CSYMBOL_TYPE_TYPEDEF, 'FooDestroy', base_type=S.td('GDestroyNotify')),
             S.func('foo_x_strv', S.ptr(S.ptr(S.basic('char'))), [S.param('n', S.td('gint'))], line=10),
             S.func('foo_x_gstrv', S.td('GStrv'), [], line=11),
             S.const('FOO_X_NAME', None, const_string='a name', line=12), S.const('FOO_X_OTHER', None, const_string='', line=13),
             S.const('FOO_X_COUNT', S.td('gint'), const_int=7, line=14),
             S.func('foo_x_cv', S.ptr(S.FT(S.CTYPE_BASIC_TYPE, 'char', type_qualifier=CV)), [], line=15),
             S.func('foo_x_vc', S.ptr(S.FT(S.CTYPE_TYPEDEF, 'gchar', type_qualifier=CV)), [], line=16),
             S.func('foo_x_c', S.ptr(S.FT(S.CTYPE_BASIC_TYPE, 'char', type_qualifier=S.TYPE_QUALIFIER_CONST)), [], line=17),
             S.func('foo_x_plain', S.ptr(S.basic('char')), [], line=18),
             S.func('foo_x_td_destroy', S.VOID, [S.param('cb', S.td('FooCb')), S.param('user_data', S.td('gpointer')),
                                                 S.param('notify', S.td('FooDestroy'))], line=19),
             S.func('foo_x_td_cb', S.VOID, [S.param('cb', S.td('FooCb2')), S.param('data', S.td('gpointer'))], line=20),
             S.func('foo_x_td_both', S.VOID, [S.param('n', S.td('gint')), S.param('cb', S.td('FooCb2')), S.param('cb_data', S.td('gpointer')),
                                              S.param('destroy', S.td('FooDestroy'))], line=21)]
    # strings returned through typedefs: "typedef const char *FooLabel; typedef FooLabel FooTitle; typedef char *FooName;"
    CONSTQ = S.TYPE_QUALIFIER_CONST
    syms += [S.FS(S.CSYMBOL_TYPE_TYPEDEF, 'FooLabel', base_type=S.ptr(S.FT(S.CTYPE_BASIC_TYPE, 'char', type_qualifier=CONSTQ)), line=22),
             S.FS(S.CSYMBOL_TYPE_TYPEDEF, 'FooTitle', base_type=S.td('FooLabel'), line=23),
             S.FS(S.CSYMBOL_TYPE_TYPEDEF, 'FooName', base_type=S.ptr(S.basic('char')), line=24),
             S.FS(S.CSYMBOL_TYPE_TYPEDEF, 'FooNick', base_type=S.td('FooName'), line=25),
             S.func('foo_x_get_label', S.td('FooLabel'), [], line=26), S.func('foo_x_get_title', S.td('FooTitle'), [], line=27),
             S.func('foo_x_dup_name', S.td('FooName'), [], line=28), S.func('foo_x_dup_nick', S.td('FooNick'), [], line=29)]
    # returned pointers to const containers (libnm: const GByteArray *nm_setting_wireless_get_ssid (void))
    CONT = ['GByteArray', 'GList', 'GSList', 'GPtrArray', 'GArray', 'GHashTable']
    for j, cn_ in enumerate(CONT):
        syms.append(S.func('foo_x_const_%s' % cn_.lower(), S.ptr(S.FT(S.CTYPE_TYPEDEF, cn_, type_qualifier=S.TYPE_QUALIFIER_CONST)), [], line=30 + j))
    # const and volatile together (g_atomic_int_get (const volatile gint *atomic)), on a pointer target, by value, and on a field
    syms += [S.func('foo_x_atomic_get', S.td('gint'), [S.param('atomic', S.ptr(S.FT(S.CTYPE_TYPEDEF, 'gint', type_qualifier=CV))),
                                                      S.param('flag', S.FT(S.CTYPE_TYPEDEF, 'guint', type_qualifier=CV))], line=40),
             S.FS(S.CSYMBOL_TYPE_TYPEDEF, 'FooCounter', base_type=S.FT(S.CTYPE_STRUCT, '_FooCounter'), line=41),
             S.FS(S.CSYMBOL_TYPE_STRUCT, '_FooCounter', base_type=S.FT(S.CTYPE_STRUCT, '_FooCounter', child_list=[
                 S.FS(S.CSYMBOL_TYPE_MEMBER, 'hw_ticks', base_type=S.FT(S.CTYPE_TYPEDEF, 'guint32', type_qualifier=CV), line=43),
                 S.FS(S.CSYMBOL_TYPE_MEMBER, 'lock', base_type=S.FT(S.CTYPE_TYPEDEF, 'gint', type_qualifier=S.TYPE_QUALIFIER_VOLATILE), line=44),
                 S.FS(S.CSYMBOL_TYPE_MEMBER, 'kind', base_type=S.FT(S.CTYPE_TYPEDEF, 'FooEnum', type_qualifier=CV), line=45)]), line=42)]
    rng.shuffle(syms)
    case = dict(declarations='char **foo_x_strv(gint); GStrv foo_x_gstrv(void); #define FOO_X_NAME "a name"; #define FOO_X_COUNT ((gint) 7); '
                             'const volatile char *foo_x_cv(void); typedef GDestroyNotify FooDestroy; typedef FooCbA FooCb2; typedef FooCb FooCbA; '
                             'void foo_x_td_destroy(FooCb cb, gpointer user_data, FooDestroy notify); void foo_x_td_cb(FooCb2 cb, gpointer data); '
                             'void foo_x_td_both(gint n, FooCb2 cb, gpointer cb_data, FooDestroy destroy)')
    try:
        r = S.run(syms, includes=['GLib', 'GObject', 'Gio'], dump=ET.ElementTree(ET.fromstring(DUMP)), warnings=False)
    except (Exception, SystemExit) as e:      # noqa
        ck.failing_input('the scanner fails on un-annotated declarations: %r' % (e,), case)
        return
    ns = S.gir_ns(r.root)
    ck.count_case(case, kind='combinations')
    for cn, tname, ctype in (('FOO_X_NAME', 'utf8', 'gchar*'), ('FOO_X_OTHER', 'utf8', 'gchar*'), ('FOO_X_COUNT', 'gint', 'gint')):
        el = next((x for x in ns.findall(S.CORE + 'constant') if x.get(S.CNS + 'type') == cn), None)
        t = None if el is None else el.find(S.CORE + 'type')
        if t is None or t.get('name') != tname or t.get(S.CNS + 'type') != ctype:
            ck.failing_input('a constant is not typed %s with c:type %s' % (tname, ctype), dict(case, constant=cn),
                             detail=None if t is None else t.attrib)
    fns = {f.get(S.CNS + 'identifier'): f for f in ns.findall(S.CORE + 'function')}

    def rv(name):
        f = fns.get(name)
        return None if f is None else f.find(S.CORE + 'return-value')
    for name, want in (('foo_x_cv', 'none'), ('foo_x_vc', 'none'), ('foo_x_c', 'none'), ('foo_x_plain', 'full')):
        v = rv(name)
        if v is None or v.get('transfer-ownership') != want:
            ck.failing_input('a returned %s string does not default to transfer %s' % ('const' if want == 'none' else 'non-const', want),
                             dict(case, function=name), detail=None if v is None else v.attrib)

    for name, want, decl in (('foo_x_get_label', 'none', 'typedef const char *FooLabel; FooLabel foo_x_get_label (void);'),
                             ('foo_x_get_title', 'none', 'typedef const char *FooLabel; typedef FooLabel FooTitle; FooTitle foo_x_get_title (void);'),
                             ('foo_x_dup_name', 'full', 'typedef char *FooName; FooName foo_x_dup_name (void);'),
                             ('foo_x_dup_nick', 'full', 'typedef char *FooName; typedef FooName FooNick; FooNick foo_x_dup_nick (void);')):
        v = rv(name)
        if v is None or v.get('transfer-ownership') != want:
            ck.failing_input('a string returned through a typedef of a %s string does not default to transfer %s'
                             % ('const' if want == 'none' else 'non-const', want), dict(declarations=decl, function=name),
                             detail=None if v is None else v.attrib)

    for cn_ in CONT:
        v = rv('foo_x_const_%s' % cn_.lower())
        if v is None or v.get('transfer-ownership') != 'none':
            ck.failing_input('a returned pointer to a const container is not "transfer none"',
                             dict(declaration='const %s *foo_x_const_%s (void);' % (cn_, cn_.lower())), detail=None if v is None else v.attrib)

    def params(name):
        f = fns.get(name)
        ps = None if f is None else f.find(S.CORE + 'parameters')
        return [] if ps is None else ps.findall(S.CORE + 'parameter')
    # the original C spelling is kept as c:type: both qualifiers, the name, the stars
    spelled = []
    ps_ = params('foo_x_atomic_get')
    if len(ps_) == 2:
        spelled += [('parameter atomic of gint foo_x_atomic_get (const volatile gint *atomic, const volatile guint flag)', ps_[0], ['const', 'volatile', 'gint*']),
                    ('parameter flag of gint foo_x_atomic_get (const volatile gint *atomic, const volatile guint flag)', ps_[1], ['const', 'volatile', 'guint'])]
    else:
        ck.failing_input('a function is missing from the GIR', dict(case, function='foo_x_atomic_get'))
    rec_ = next((x for x in ns.findall(S.CORE + 'record') if x.get(S.CNS + 'type') == 'FooCounter'), None)
    for fname, words in (('hw_ticks', ['const', 'volatile', 'guint32']), ('lock', ['volatile', 'gint']), ('kind', ['const', 'volatile', 'FooEnum'])):
        fe = None if rec_ is None else next((x for x in rec_.findall(S.CORE + 'field') if x.get('name') == fname), None)
        if fe is None:
            ck.failing_input('a field is missing from the GIR', dict(structure='FooCounter', field=fname))
        else:
            spelled.append(('field %s of struct _FooCounter { const volatile guint32 hw_ticks; volatile gint lock; const volatile FooEnum kind; }' % fname, fe, words))
    for what, el_, words in spelled:
        t = el_.find(S.CORE + 'type')
        ct = '' if t is None else (t.get(S.CNS + 'type') or '')
        if sorted(ct.split()) != sorted(words):
            ck.failing_input('the c:type does not keep the C spelling of a const volatile type', dict(where=what),
                             detail=dict(c_type=ct, expected_words=words))
    for name, cbi, closure, destroy in (('foo_x_td_destroy', 0, '1', '2'), ('foo_x_td_cb', 0, '1', None), ('foo_x_td_both', 1, '2', '3')):
        ps = params(name)
        if len(ps) <= cbi:
            ck.failing_input('a function is missing from the GIR', dict(case, function=name))
            continue
        cb = ps[cbi]
        want_scope = 'notified' if destroy else cb.get('scope')
        if cb.get('closure') != closure or cb.get('destroy') != destroy or (destroy and cb.get('scope') != 'notified'):
            ck.failing_input('a callback spelled through a typedef (or its typedef\'d destroy-notify) does not get its user-data as closure '
                             'and its destroy-notify as destroy with notified scope', dict(case, function=name),
                             detail=dict(expected=dict(closure=closure, destroy=destroy, scope=want_scope), got=cb.attrib))


def main(tier, seed):
    ck = Check('C02', tier, seed)
    ck.assumptions += ['declarations are given as SourceSymbol trees (the C lexer cannot be built here)',
                       'the set of declared identifiers and their classes (record, boxed, enum, callback, alias, class) is an '
                       'input of the model; includes are three stub GIRs (GLib, GObject, Gio)',
                       'field and constant positions use the same type mapping; only parameters and return values are compared']
    ck.prove(['gen_c02.py'], models=['Model/C02Spec.vo'])
    import scanner as S
    import xml.etree.ElementTree as ET
    rng = random.Random(seed)
    nb = 12 if tier == 'quick' else 200
    for _ in range(3 if tier == 'quick' else 20):
        extra_direct(ck, S, ET, rng)
    cases = []
    for b in range(nb):
        funcs = [gen_function(rng, i) for i in range(40)]
        if b == 0:
            funcs[0] = dict(name='foo_f0', params=[('cb', T_td('FooCb')), ('user_data', T_td('gpointer')), ('notify', T_td('GDestroyNotify')),
                                                   ('error', T_ptr(T_ptr(T_td('GError'))))], ret=T_ptr(T_basic('char')))
            funcs[1] = dict(name='foo_f1', params=[('ready', T_td('GAsyncReadyCallback')), ('data', T_td('gpointer'))],
                            ret=T_ptr(T_ptr(T_basic('char'))))
            funcs[2] = dict(name='foo_f2', params=[('n', T_td('gint'))], ret=T_ptr(T_ptr(T_basic('char', True), True)))     # const char * const *
            funcs[3] = dict(name='foo_f3', params=[], ret=T_ptr(T_ptr(T_td('gchar', True), True)))
            funcs[4] = dict(name='foo_f4', params=[('a', T_td('FooCb')), ('a_data', T_td('gpointer')), ('b', T_td('FooCb')), ('b_data', T_td('gpointer')),
                                                   ('b_notify', T_td('GDestroyNotify'))], ret=T_td('gpointer'))
        syms = world_symbols()
        for f in funcs:
            syms.append(S.func(f['name'], src_tree(f['ret']), [S.param(n, src_tree(t)) for n, t in f['params']]))
        r = S.run(syms, includes=['GLib', 'GObject', 'Gio'], dump=ET.ElementTree(ET.fromstring(DUMP)), warnings=False)
        ns = S.gir_ns(r.root)
        byid = {el.get(S.CNS + 'identifier'): el for el in ns.iter(S.CORE + 'function')}
        byid.update({el.get(S.CNS + 'identifier'): el for el in ns.iter(S.CORE + 'method')})
        byid.update({el.get(S.CNS + 'identifier'): el for el in ns.iter(S.CORE + 'constructor')})
        for f in funcs:
            el = byid.get(f['name'])
            if el is None:
                ck.tie_broken('correspondence', 'function missing from the GIR', f)
                continue
            if el.tag != S.CORE + 'function':
                continue          # paired as a method/constructor: instance parameter handling is C04's
            ps = el.find(S.CORE + 'parameters')
            pobs = [observe(p, None) for p in (ps.findall(S.CORE + 'parameter') if ps is not None else [])]
            robs = observe(el.find(S.CORE + 'return-value'), None)
            cases.append(dict(f=f, pobs=pobs, robs=robs, throws=el.get('throws') == '1'))
    for c in cases:
        ck.count_case(dict(params=[(n, t) for n, t in c['f']['params']], ret=c['f']['ret'], throws=c['throws']),
                      nontrivial=len(c['f']['params']) > 0, kind='params:%d' % min(len(c['f']['params']), 4))
    # ---- the documented defaults judged directly on the outputs (a few crisp clauses)
    for c in cases:
        f = c['f']
        names = [n for n, _ in f['params']]
        last = f['params'][-1] if f['params'] else None
        if last and last[1] == T_ptr(T_ptr(T_td('GError'))):
            if not c['throws'] or len(c['pobs']) != len(f['params']) - 1:
                ck.failing_input('trailing GError** not turned into throws', dict(function=f))
        for (n, t), o in zip(f['params'], c['pobs']):
            if o['transfer'] != 'none':
                ck.failing_input('in-parameter does not default to transfer none', dict(function=f, param=n), detail=o)
            if t in (T_td('gpointer'),) and not o['nullable']:
                ck.failing_input('untyped pointer parameter not nullable', dict(function=f, param=n), detail=o)
            if t in (T_ptr(T_ptr(T_basic('char'))), T_ptr(T_ptr(T_td('gchar'))), T_ptr(T_basic('char')), T_ptr(T_td('gchar'))) \
                    and o['tname'] != 'utf8':
                ck.failing_input('a char pointer parameter is not described as utf8', dict(function=f, param=n), detail=o)
            if t in (T_ptr(T_void()), T_ptr(T_ptr(T_void()))) and o['tname'] != 'gpointer':
                ck.failing_input('a void pointer parameter is not described as gpointer', dict(function=f, param=n), detail=o)
        if f['ret'] in (T_ptr(T_ptr(T_basic('char'))), T_ptr(T_ptr(T_td('gchar')))) and not (c['robs']['array'] and c['robs']['child'] == 'utf8'):
            ck.failing_input('a returned char** is not an array of utf8', dict(function=f), detail=c['robs'])
        if f['ret'] in (T_td('FooAlias'), T_td('FooAlias2'), T_td('GQuark'), T_td('gint'), T_basic('int')) and c['robs']['transfer'] != 'none':
            ck.failing_input('a returned basic type (or alias of one) does not default to transfer none', dict(function=f), detail=c['robs'])
        def base_const(t):
            # everything the returned pointer leads to is const: "const char *", "const char * const *"
            t = t[1]
            while t[0] == 'ptr':
                if not t[2]:
                    return False
                t = t[1]
            return t[0] in ('basic', 'td') and t[2]
        if f['ret'][0] == 'ptr' and base_const(f['ret']) and c['robs']['transfer'] != 'none':
            ck.failing_input('a returned pointer to const does not default to transfer none', dict(function=f), detail=c['robs'])
        if f['ret'] in (T_td('gpointer'), T_td('gconstpointer'), T_ptr(T_void())) and not c['robs']['nullable']:
            ck.failing_input('a returned untyped pointer is not nullable', dict(function=f), detail=c['robs'])
        # callback arrangements
        CBS = ('FooCb', 'FooCb2', 'GFunc', 'GAsyncReadyCallback')
        finals = f['params'][:len(c['pobs'])]
        for i, ((n, t), o) in enumerate(zip(finals, c['pobs'])):
            if not (t[0] == 'td' and t[1] in CBS):
                continue
            want_closure = want_destroy = None
            for j in range(i + 1, len(finals)):
                n2, t2 = finals[j]
                if t2[0] == 'td' and t2[1] in CBS:
                    break
                if t2[0] == 'td' and t2[1] == 'GDestroyNotify':
                    want_destroy = j
                elif c['pobs'][j]['tname'] == 'gpointer' and not c['pobs'][j]['array'] and n2.endswith('data'):
                    want_closure = j
            if o['closure'] != want_closure:
                ck.failing_input('user-data closure of a callback parameter: expected index %r, GIR says %r' % (want_closure, o['closure']),
                                 dict(function=f, param=n), detail=o)
            if o['destroy'] != want_destroy or (want_destroy is not None and o['scope'] != 'notified'):
                ck.failing_input('destroy-notify of a callback parameter: expected index %r with scope notified, GIR says %r scope %r'
                                 % (want_destroy, o['destroy'], o['scope']), dict(function=f, param=n), detail=o)
            if want_destroy is None and t[1] == 'GAsyncReadyCallback' and o['scope'] != 'async':
                ck.failing_input('an async-ready callback does not get async scope', dict(function=f, param=n), detail=o)
    if ck.models_ok:
        env = clist(['(%s, (%s, %s))' % (cstr(k), cstr(v[0]), v[1]) for k, v in ENV.items()])
        items = []
        for i, c in enumerate(cases):
            f = c['f']
            items.append('{| f_id := %d; f_env := env0; f_params := %s; f_ret := %s; f_obs_params := %s; f_obs_ret := %s; '
                         'f_obs_throws := %s |}'
                         % (i, clist(['(%s, %s)' % (cstr(n), coq_tree(t)) for n, t in f['params']]), coq_tree(f['ret']),
                            clist([coq_obs(o) for o in c['pobs']]), coq_obs(c['robs']), cbool(c['throws'])))
        bad = []
        per = 250
        for s0 in range(0, len(items), per):
            text = '\n'.join(['From Coq Require Import List NArith Bool.', 'From GIV.Lib Require Import Regex Str.',
                              'From GIV.Model Require Import C02 C02Spec.', 'Import ListNotations.', 'Local Open Scope N_scope.',
                              'Definition env0 : env := %s.' % env,
                              'Definition cases : list fcase := [%s].' % ';\n'.join(items[s0:s0 + per]),
                              'Definition bad := Eval vm_compute in map f_id (filter f_bad cases).', 'Print bad.'])
            rc, out = coq_eval('C02_cases_%d' % (s0 // per), text)
            if rc != 0:
                ck.tie_broken('correspondence', 'case file does not evaluate:\n' + out[-2000:])
                break
            bad += parse_nlist(parse_defs(out)['bad'])
        ck.extra['traces_validated_against_impl'] = len(items)
        if bad:
            c = cases[bad[0]]
            ck.tie_broken('correspondence', 'scanner defaults differ from Model.C02 on %d functions' % len(bad),
                          dict(function=c['f'], observed_params=c['pobs'], observed_return=c['robs'], throws=c['throws']))
    return ck.finish(rule='un-annotated functions with 0-7 parameters over 16 C basic spellings, 50 typedef names (GLib, stdint, '
                          'POSIX, declared records/boxed/enum/callback/alias/class, unknown), pointers (1-2 levels, const '
                          'variants) to 23 bases, callback/user-data/destroy-notify/GError** arrangements with adversarial '
                          'names; through Transformer, MainTransformer, IntrospectablePass and GIRWriter with stub includes')


if __name__ == '__main__':
    sys.exit(main(os.environ.get('VERIF_TIER', 'quick'), int(os.environ.get('VERIF_SEED', '1'))))
