"""C17 — requiring a namespace loads the right typelib version and its dependencies."""
import os
import random
import shutil
import subprocess
import sys
import tempfile

from common import (Check, coq_eval, parse_defs, parse_nlist, cstr, clist, cbool, copt, c_build, c_driver, CBUILD,
                    ROOT, run)

NSS = ['Nab', 'Na', 'Nb', 'Nc', 'Nd']      # dependencies go to earlier names: Na may depend on Nab, whose name begins with its own
GOODV = ['1.0', '1.9', '1.10', '2.0', '0.1', '3.4', '1.2', '10.0']
ODDV = ['1', '01.2', '1.09', ' 2.0', '1.x', 'x', '1.2.3', '1.', '+1.5', '-1.0', '2.00']
LIBDIR = '/usr/lib/girepository-1.0'

GIR = '''<?xml version="1.0"?>
<repository version="1.2" xmlns="http://www.gtk.org/introspection/core/1.0" xmlns:c="http://www.gtk.org/introspection/c/1.0" xmlns:glib="http://www.gtk.org/introspection/glib/1.0">
%s
<namespace name="%s" version="%s" shared-library="" c:identifier-prefixes="%s" c:symbol-prefixes="x">
</namespace></repository>
'''


class World(object):
    pass


def build_world(rng, root, odd):
    """Compile typelibs with chosen header (namespace, version, deps) and lay them out in directories."""
    w = World()
    # numerically equal, differently spelled versions also in worlds that are otherwise plain: there the executable
    # statement of the property is never silent, so an election that prefers the wrong directory is reported with its history
    respell = odd or rng.random() < 0.5
    girdir = os.path.join(root, 'gir')
    os.makedirs(girdir)
    # header variants: (ns, ver) -> deps   (deps only on earlier namespaces: a DAG)
    variants = {}
    closure = {}
    for i, ns in enumerate(NSS):
        for ver in rng.sample(GOODV, rng.randint(1, 3)):
            deps = []
            clo = {}       # transitive closure so far: ns -> version (the compiler refuses conflicts)
            for j in range(i):
                if rng.random() < 0.45:
                    cands = [v for (n, v) in variants if n == NSS[j]]
                    rng.shuffle(cands)
                    for v in cands:
                        c2 = dict(closure[(NSS[j], v)])
                        c2[NSS[j]] = v
                        if all(clo.get(k, x) == x for k, x in c2.items()):
                            clo.update(c2)
                            deps.append((NSS[j], v))
                            break
            variants[(ns, ver)] = deps
            closure[(ns, ver)] = clo
    w.variants = variants
    blobs = {}
    for (ns, ver), deps in variants.items():
        inc = '\n'.join('<include name="%s" version="%s"/>' % d for d in deps)
        open(os.path.join(girdir, '%s-%s.gir' % (ns, ver)), 'w').write(GIR % (inc, ns, ver, ns))
    for (ns, ver) in variants:
        out = os.path.join(root, 'blob_%s_%s.typelib' % (ns, ver))
        rc, o = run([os.path.join(CBUILD, 'g-ir-compiler'), '--includedir', girdir,
                     os.path.join(girdir, '%s-%s.gir' % (ns, ver)), '-o', out], timeout=60)
        if rc != 0:
            raise RuntimeError('g-ir-compiler failed: ' + o[-500:])
        blobs[(ns, ver)] = out
    w.blobs = blobs
    # directories
    w.dirs = []
    ndirs = rng.randint(1, 5)
    for d in range(ndirs):
        p = os.path.join(root, 'd%d' % d)
        w.dirs.append(p)
        if rng.random() < 0.1:
            continue        # directory does not exist
        os.makedirs(p)
        for (ns, ver) in variants:
            r = rng.random()
            if r < 0.5:
                name, src = '%s-%s.typelib' % (ns, ver), (ns, ver)
            elif r < 0.56 and odd:
                other = rng.choice(sorted(variants))
                name, src = '%s-%s.typelib' % (ns, ver), other            # content of another namespace/version
            elif r < 0.62 and odd:
                name, src = '%s-%s.typelib' % (ns, rng.choice(GOODV + ODDV)), (ns, ver)   # file name lies about version
            elif r < 0.65 and odd:
                name, src = '%s-%s.typelib' % (ns, ver), None             # not a typelib
            else:
                continue
            if respell and src == (ns, ver) and name == '%s-%s.typelib' % (ns, ver) and rng.random() < 0.25:
                # a numerically equal, differently spelled version ("2.0" / "2.00"): competes with the plain spelling elsewhere
                a, b = ver.split('.')
                name = '%s-%s.typelib' % (ns, rng.choice([a + '.0' + b, '0' + a + '.' + b, a + '.' + b + '0' if b == '0' else a + '.00' + b]))
            if '/' in name:
                continue
            dst = os.path.join(p, name)
            if src is None:
                open(dst, 'wb').write(b'garbage')
            else:
                shutil.copyfile(blobs[src], dst)
    return w


def gen_ops(rng, w, odd):
    ops = []
    for _ in range(rng.randint(2, 8)):
        r = rng.random()
        ns = rng.choice(NSS)
        vers = sorted({v for (n, v) in w.variants if n == ns})
        ver = None if rng.random() < 0.4 else (rng.choice(vers) if rng.random() < 0.8 else rng.choice(GOODV + (ODDV if odd else [])))
        if ver is not None and (' ' in ver or not ver):
            ver = '1.0'
        if r < 0.2:
            ops.append(('P', rng.choice(w.dirs)))
        elif r < 0.8:
            ops.append(('R', ns, ver))
        elif r < 0.9:
            ops.append(('V', rng.choice(w.dirs), ns, ver))
        else:
            ops.append(('L', rng.choice(sorted(w.variants))))
    return ops


def info_of(exe, path):
    out = subprocess.run([exe], input='I %s\n' % path, capture_output=True, text=True, timeout=30).stdout.strip()
    if not out.startswith('INFO '):
        return None
    head, deps = out[5:].split(' [', 1)
    ns, ver = head.split(' ', 1)
    deps = deps.rstrip(']')
    dl = []
    for d in deps.split('|'):
        if d:
            n, v = d.rsplit('-', 1)
            dl.append((n, v))
    return (ns, ver, dl)


def run_impl(exe, w, env_dirs, ops):
    script = []
    for o in ops:
        if o[0] == 'P':
            script.append('P %s' % o[1])
        elif o[0] == 'R':
            script.append('R %s %s 0' % (o[1], o[2] or '-'))
        elif o[0] == 'V':
            script.append('V %s %s %s' % (o[1], o[2], o[3] or '-'))
        elif o[0] == 'L':
            script.append('L %s' % w.blobs[o[1]])
    script.append('Q')
    env = dict(os.environ)
    # empty components (a variable extended from an unset one, a doubled separator) are skipped, what follows them is searched
    raw = list(env_dirs)
    for k_ in range(len(ops) % 3):
        raw.insert((len(ops) * 7 + k_ * 3) % (len(raw) + 1), '')
    env['GI_TYPELIB_PATH'] = ':'.join(raw)
    env['G_DEBUG'] = ''
    p = subprocess.run([exe], input='\n'.join(script) + '\n', capture_output=True, text=True, env=env, timeout=60)
    lines = p.stdout.splitlines()
    res = []
    for o, l in zip(ops, lines):
        if o[0] == 'P':
            res.append(None)
        elif l.startswith('OK'):
            res.append(('ok', l[3:]))
        elif l.startswith('ERR'):
            res.append(('err', int(l.split()[1])))
        else:
            res.append(('bad', l))
    report = []
    for l in lines[len(ops):]:
        if l.startswith('NS '):
            head, imm, allr = l[3:].split(' [')
            ns, ver, path = head.split(' ', 2)
            report.append((ns, ver, path, [x for x in imm.rstrip('] ').split(',') if x],
                           [x for x in allr.rstrip(']').split(',') if x]))
    return res, report, p.returncode, p.stderr


# ---- the property, written from its text, for well-formed worlds

def vkey(v):
    a, b = v.split('.')
    return (int(a), int(b))


def spec_run(fsview, base, ops, infos):
    """fsview: {dir: [(name, info-or-None)]}. Returns list of results (None where the spec is silent)."""
    pre = []
    loaded = {}      # ns -> (ver, path, deps)
    out = []

    def wellformed(v):
        p = v.split('.')
        # decimal digits only (leading zeros allowed: "2.00" is numerically 2.0, a differently spelled equal of "2.0")
        return len(p) == 2 and all(x.isdigit() and x.isascii() for x in p)

    def require(ns, ver, path, depth=0):
        if depth > 20:
            return 'silent'
        if ns in loaded:
            if ver is None or loaded[ns][0] == ver:
                return ('ok', loaded[ns][0])
            return ('err', 2)
        found = None
        if ver is not None:
            for d in path:
                for name, inf in fsview.get(d, []):
                    if name == '%s-%s.typelib' % (ns, ver):
                        found = (d, name, ver, inf)
                        break
                if found:
                    break
        else:
            cands = []
            for idx, d in enumerate(path):
                for name, inf in fsview.get(d, []):
                    if name.startswith(ns + '-') and name.endswith('.typelib'):
                        v = name[len(ns) + 1:-len('.typelib')]
                        if '-' in v:
                            return 'silent'
                        if not wellformed(v):
                            return 'silent'      # odd version spellings: outside the documented form
                        cands.append((vkey(v), -idx, d, name, v, inf))
            if cands:
                best = max(cands, key=lambda c: (c[0], c[1]))
                if sum(1 for c in cands if (c[0], c[1]) == (best[0], best[1])) > 1:
                    return 'silent'
                found = (best[2], best[3], best[4], best[5])
        if not found:
            return ('err', 0)
        d, name, fver, inf = found
        if inf is None:
            return ('err', 0)
        if inf[0] != ns or inf[1] != fver:
            return ('err', 1)
        for dn, dv in inf[2]:
            r = require(dn, dv, pre + base, depth + 1)
            if r == 'silent':
                return r
            if r[0] != 'ok':
                return r
        loaded[ns] = (inf[1], os.path.join(d, name), inf[2])
        return ('ok', inf[1])

    for o in ops:
        if o[0] == 'P':
            pre.insert(0, o[1])
            out.append(None)
        elif o[0] == 'R':
            out.append(require(o[1], o[2], pre + base))
        elif o[0] == 'V':
            out.append(require(o[2], o[3], [o[1]]))
        else:
            # load-from-memory: "loading a namespace also loads every dependency recorded in it at the recorded version"
            inf = (infos or {}).get(o[1])
            if inf is None:
                return out + ['silent'] * (len(ops) - len(out)), None
            ns = inf[0]
            if ns in loaded:
                if loaded[ns][0] == inf[1]:
                    out.append(('ok', ns))
                    continue
                # another version of a loaded namespace given from memory: the property does not say (the code registers it again)
                return out + ['silent'] * (len(ops) - len(out)), None
            r = None
            for dn, dv in inf[2]:
                r = require(dn, dv, pre + base, 1)
                if r == 'silent' or r[0] != 'ok':
                    break
            if r == 'silent':
                return out + ['silent'] * (len(ops) - len(out)), None
            if r is not None and r[0] != 'ok':
                out.append(r)
                continue
            loaded[ns] = (inf[1], '<builtin>', inf[2])
            out.append(('ok', ns))
    return out, loaded


def coq_tfile(inf):
    return '{| f_ns := %s; f_version := %s; f_deps := %s |}' % (
        cstr(inf[0]), cstr(inf[1]), clist(['(%s, %s)' % (cstr(a), cstr(b)) for a, b in inf[2]]))


def main(tier, seed):
    ck = Check('C17', tier, seed)
    ck.assumptions += ['file system = directory listings (readdir order as os.listdir) of typelib files whose header '
                       'namespace/version/dependencies are read with the repository\'s own accessors',
                       'no lazy loading flag; dependency graphs are acyclic (cyclic ones recurse without bound in '
                       'the real code)', 'g_slist_sort is stable (GLib documentation)',
                       'strtol per ISO C in the C locale']
    ck.prove([], models=['Model/C17Spec.vo'])
    ok, out = c_build()
    exe = None
    if ok:
        exe, out = c_driver('repo_driver', os.path.join(ROOT, 'cshim', 'repo_driver.c'), exclude=('girepository',))
    if not exe:
        ck.tie_broken('build', 'C build failed:\n' + out[-2000:])
        return ck.finish()
    rng = random.Random(seed)
    nworlds = 12 if tier == 'quick' else 200
    cases = []
    vcases = []
    for wi in range(nworlds):
        odd = rng.random() < 0.4
        root = tempfile.mkdtemp(prefix='giv17')
        try:
            w = build_world(rng, root, odd)
            infos = {}
            fsview = {}
            for d in w.dirs + [LIBDIR]:
                if os.path.isdir(d):
                    ent = []
                    for name in os.listdir(d):
                        p = os.path.join(d, name)
                        inf = info_of(exe, p) if name.endswith('.typelib') else None
                        ent.append((name, inf))
                    fsview[d] = ent
            blobinfo = {k: info_of(exe, p) for k, p in w.blobs.items()}
            # the header of each compiled typelib records what its GIR includes
            for k_, inf_ in blobinfo.items():
                if inf_ is None or inf_[0] != k_[0] or inf_[1] != k_[1] or sorted(inf_[2]) != sorted(w.variants[k_]):
                    ck.failing_input('a typelib does not record the namespace, version and dependencies of the GIR it was compiled from',
                                     dict(namespace=k_[0], version=k_[1], includes=['%s-%s' % d_ for d_ in w.variants[k_]]),
                                     detail=dict(typelib_header=inf_))
            for hi in range(6 if tier == 'quick' else 10):
                env_dirs = [d for d in w.dirs if rng.random() < 0.5]
                ops = gen_ops(rng, w, odd)
                res, report, rc, err = run_impl(exe, w, env_dirs, ops)
                base = env_dirs + [LIBDIR]
                cases.append(dict(fs=fsview, base=base, ops=ops, res=res, report=report, blobinfo=blobinfo, rc=rc,
                                  err=err[-300:], odd=odd, root=root))
        finally:
            shutil.rmtree(root, ignore_errors=True)
    # version strings directly against the static functions
    vs = GOODV + ODDV + ['', '.', '.5', '1 .2', '1. 2', '99999999999.1', '4294967297.0', '-0.0', '1.-2', '\t3.1',
                         '9223372036854775808.1', '1e3.2', '0x10.1', '00.00']
    for _ in range(40 if tier == 'quick' else 400):
        vs.append(''.join(rng.choice('0123456789. +-x') for _ in range(rng.randint(0, 6))))
    vs = [v for v in vs if '\t' not in v[1:] and '\n' not in v]
    script = ''.join('X %s\n' % v for v in vs)
    out = subprocess.run([exe], input=script, capture_output=True, text=True, timeout=60).stdout.splitlines()
    for v, l in zip(vs, out):
        f = l.split()
        vcases.append((v, int(f[1]), int(f[2]), int(f[3])))

    # ---- executable property on the implementation's answers
    for c in cases:
        ck.count_case(dict(ops=c['ops'], base=[os.path.basename(b) for b in c['base']], res=c['res']),
                      nontrivial=any(r and r[0] == 'ok' for r in c['res']), kind='history:%s' % ('odd' if c['odd'] else 'plain'))
        if c['rc'] != 0:
            ck.failing_input('repository aborted', dict(ops=c['ops']), detail=c['err'])
            continue
        want, loaded = spec_run(c['fs'], c['base'], c['ops'], c['blobinfo'])
        for i, (a, b) in enumerate(zip(want, c['res'])):
            if a in (None, 'silent'):
                if a == 'silent':
                    break
                continue
            if tuple(a) != tuple(b):
                ck.failing_input('require result contradicts the property',
                                 dict(ops=[list(o) for o in c['ops'][:i + 1]], base=c['base'],
                                      files={d: [(n, inf) for n, inf in e] for d, e in c['fs'].items()}),
                                 detail=dict(op_index=i, expected=a, observed=b))
                break
        else:
            if loaded is not None and 'silent' not in want:
                rep = {r[0]: r for r in c['report']}
                if set(rep) != set(loaded):
                    ck.failing_input('loaded namespaces reported differ from the files loaded', dict(ops=c['ops']),
                                     detail=dict(reported=sorted(rep), expected=sorted(loaded)))
                else:
                    for ns, (ver, path, deps) in loaded.items():
                        r = rep[ns]
                        if r[1] != ver or (os.path.normpath(r[2]) != os.path.normpath(path) and path != r[2]) or \
                                r[3] != ['%s-%s' % d for d in deps]:
                            ck.failing_input('reported version/path/dependencies differ from the loaded file',
                                             dict(ops=c['ops'], ns=ns), detail=dict(reported=r, expected=(ver, path, deps)))
    for v, ok_, ma, mi in vcases:
        ck.count_case(dict(version=v, ok=ok_, major=ma, minor=mi), kind='version:%d' % ok_)

    # ---- correspondence with the Coq model
    if ck.models_ok:
        items = []
        for i, c in enumerate(cases):
            fsl = clist(['(%s, %s)' % (cstr(d), clist(['(%s, %s)' % (cstr(n), copt(inf, coq_tfile)) for n, inf in ent]))
                         for d, ent in c['fs'].items()])
            ops = []
            for o in c['ops']:
                if o[0] == 'P':
                    ops.append('OPrepend %s' % cstr(o[1]))
                elif o[0] == 'R':
                    ops.append('ORequire %s %s' % (cstr(o[1]), copt(o[2], cstr)))
                elif o[0] == 'V':
                    ops.append('ORequirePrivate %s %s %s' % (cstr(o[1]), cstr(o[2]), copt(o[3], cstr)))
                else:
                    ops.append('OLoad %s' % coq_tfile(c['blobinfo'][o[1]]))
            rs = []
            for o, r in zip(c['ops'], c['res']):
                if r is None:
                    rs.append('None')
                elif r[0] == 'ok':
                    rs.append('(Some (ROk %s))' % cstr(r[1]))
                elif r[0] == 'err':
                    rs.append('(Some (RErr %d))' % r[1])
                else:
                    rs.append('(Some (RErr 77))')
            rep = clist(['(%s, %s, %s, %s, %s)' % (cstr(r[0]), cstr(r[1]), cstr(r[2]), clist([cstr(x) for x in r[3]]),
                                                  clist([cstr(x) for x in r[4]])) for r in c['report']])
            items.append('{| h_id := %d%%N; h_fs := %s; h_base := %s; h_ops := %s; h_res := %s; h_report := %s |}'
                         % (i, fsl, clist([cstr(b) for b in c['base']]), clist(ops), clist(rs), rep))
        vitems = ['(%s, %s, (%d)%%Z, (%d)%%Z)' % (cstr(v), cbool(ok_), ma, mi) for v, ok_, ma, mi in vcases]
        per = 40
        bad, vbad = [], []
        for s in range(0, len(items), per):
            text = '\n'.join([
                'From Coq Require Import List NArith ZArith Bool.',
                'From GIV.Lib Require Import Regex Str.', 'From GIV.Model Require Import C17 C17Spec.',
                'Import ListNotations.', 'Local Open Scope N_scope.',
                'Definition cases : list hcase := [%s].' % ';\n'.join(items[s:s + per]),
                'Definition vcases : list (str * bool * Z * Z) := [%s].' % (';\n'.join(vitems) if s == 0 else ''),
                'Definition bad := Eval vm_compute in map h_id (filter h_bad cases).', 'Print bad.',
                'Definition vbad := Eval vm_compute in map (fun c => N.of_nat (length (fst (fst (fst c))))) (filter v_bad vcases).',
                'Print vbad.'])
            rc, out = coq_eval('C17_cases_%d' % (s // per), text)
            if rc != 0:
                ck.tie_broken('correspondence', 'case file does not evaluate:\n' + out[-2000:])
                break
            d = parse_defs(out)
            bad += parse_nlist(d['bad'])
            vbad += parse_nlist(d['vbad'])
        ck.extra['traces_validated_against_impl'] = len(items) + len(vitems)
        if bad:
            c = cases[bad[0]]
            ck.tie_broken('correspondence', 'repository behaviour differs from Model.C17.run on %d histories' % len(bad),
                          dict(ops=c['ops'], base=c['base'], res=c['res'], report=c['report'],
                               files={d: [(n, inf) for n, inf in e] for d, e in c['fs'].items()}))
        if vbad:
            ck.tie_broken('correspondence', 'parse_version differs from the model on %d strings' % len(vbad))
    return ck.finish(rule='seeded worlds: 5 namespaces (one a prefix of another) x 1-3 header versions with dependency '
                          'DAGs compiled by the real g-ir-compiler, 1-5 directories (some missing), files whose names '
                          'lie about namespace/version, garbage files, odd version spellings; histories of 2-8 '
                          'prepend/require/require-private/load-from-memory calls + final report, each in a fresh '
                          'process with GI_TYPELIB_PATH; plus version strings through the static parse_version; '
                          'non-trivial = at least one successful load')


if __name__ == '__main__':
    sys.exit(main(os.environ.get('VERIF_TIER', 'quick'), int(os.environ.get('VERIF_SEED', '1'))))
