"""C10 — well-formed GTK-Doc comment blocks are parsed exactly."""
import io
import os
import random
import re
import sys

from common import Check, coq_eval, parse_defs, parse_nlist, cstr, clist, cbool, copt, REPO

LIST_ANNS = ['transfer', 'out', 'in', 'inout', 'nullable', 'optional', 'allow-none', 'not', 'skip', 'scope', 'closure', 'destroy', 'type',
             'element-type', 'rename-to', 'value', 'constructor', 'method', 'foreign', 'virtual', 'setter', 'getter', 'emitter', 'finish-func']
DICT_ANNS = ['array', 'attributes']
TOKENS = ['full', 'none', 'container', 'utf8', 'gint', 'GLib.List', 'n', 'user_data', 'caller-allocates', 'foo_bar', 'Foo.Bar', '1', 'x-y.z', 'call',
          'gchar*', 'a']
KEYS = ['length', 'fixed-size', 'zero-terminated', 'org.gtk.Method', 'k', 'doc.key']
VALS = ['n', '3', '1', '0', 'some.value', 'v', None, 'name=foo', 'a==b', '=', 'x=', '']


def gen_ann(rng, wild=False):
    if rng.random() < 0.25:
        name = rng.choice(DICT_ANNS)
        keys = rng.sample(KEYS, rng.randint(0, 3))
        return (name, 'dict', [(k, rng.choice(VALS)) for k in keys])
    name = rng.choice(LIST_ANNS + (['frobnicate', 'Transfer', 'SKIP'] if wild else []))
    return (name, 'list', [rng.choice(TOKENS) for _ in range(rng.choice([0, 0, 1, 1, 2, 3]))])


def render_ann(a):
    name, kind, opts = a
    if kind == 'dict':
        body = ' '.join(k if v is None else '%s=%s' % (k, v) for k, v in opts)
    else:
        body = ' '.join(opts)
    return '(%s%s)' % (name, (' ' + body) if body else '')


def gen_fields(rng):
    """one annotations+description field in some layout; returns the text"""
    r = rng.random()
    if r < 0.6:
        anns = []
        names = set()
        for _ in range(rng.randint(0, 4)):
            a = gen_ann(rng, wild=rng.random() < 0.1)
            if a[0].lower() not in names:
                names.add(a[0].lower())
                anns.append(a)
        ws = lambda: rng.choice([' ', ' ', '  ', '\t', ''])
        text = ws().join(render_ann(a) for a in anns)
        text = rng.choice(['', ' ', '  ']) + text
        desc = rng.choice(['', 'a description', 'desc with (parens) inside', ': starts with colon', 'x'])
        sep = rng.choice([': ', ':', ' : ', ' ', ''])
        return text + (sep + desc if desc else rng.choice(['', ':', ' ']))
    if r < 0.8:
        # malformed
        return rng.choice(['(', ')', '()', '(()', '((skip))', '(skip', 'skip)', '(skip) (', '(a (b) c)', '(a (b c)', ') (', '(transfer full) )',
                           '(array length=n fixed-size=3', '( skip )', '(  transfer   full  )', '(transfer=full)', '(attributes a=b=c d)',
                           '(array  length=n)', '(out) text (in)', 'text (out)', '(type GLib.List<utf8>)', '(type GLib.List(utf8))'])
    # random soup
    return ''.join(rng.choice('() :=ab\t  <>') for _ in range(rng.randint(0, 14)))


def coq_value(v):
    from collections import OrderedDict
    if v is None:
        return 'ANone'
    if isinstance(v, (dict, OrderedDict)) and not isinstance(v, list):
        return '(ADict %s)' % clist(['(%s, %s)' % (cstr(k), copt(val, cstr)) for k, val in v.items()])
    return '(AList %s)' % clist([cstr(o) for o in v])


def make_block_text(rng, b, layout):
    """GTK-Doc text of a block AST in a given layout"""
    nl = layout['newline']
    ind = layout['indent']
    star = ind + ' *'
    sep = layout.get('ann_sep', ' ')            # what stands between two annotations of one line
    cont = '\t\t' if layout.get('cont_tabs') else '    '      # indentation of a continuation line that carries annotations
    pc = layout.get('pre_colon', '')            # blanks between the last annotation and the ':' that separates the description
    lines = ['/**']
    ident = b['name'] + (':' if (b['anns'] or layout['colon']) else '')
    if b['anns'] and layout.get('ident_below'):
        # the identifier alone on its line (its colon is optional), every annotation on a continuation line of its own
        lines.append('%s %s%s' % (star, b['name'], ':' if layout['colon'] else ''))
        for a in b['anns']:
            lines.append('%s   %s' % (star, render_ann(a)))
    elif b['anns']:
        if layout['wrap_anns'] and len(b['anns']) > 1:
            lines.append('%s %s %s' % (star, ident, render_ann(b['anns'][0])))
            for a in b['anns'][1:]:
                lines.append('%s   %s' % (star, render_ann(a)))
        else:
            lines.append('%s %s %s' % (star, ident, sep.join(render_ann(a) for a in b['anns'])))
    else:
        lines.append('%s %s' % (star, ident))
    for p in b['params']:
        head = '%s @%s:' % (star, p['name'])
        if p['anns']:
            if layout['wrap_anns'] and len(p['anns']) > 1:
                lines.append(head + ' ' + render_ann(p['anns'][0]))
                for a in p['anns'][1:-1]:
                    lines.append('%s%s%s' % (star, cont, render_ann(a)))
                lines.append('%s%s%s%s' % (star, cont, render_ann(p['anns'][-1]), (pc + ':') if p['desc'] else ''))
                if p['desc']:
                    for l in p['desc']:
                        lines.append('%s    %s' % (star, l))
                continue
            head += ' ' + sep.join(render_ann(a) for a in p['anns']) + ((pc + ':') if (p['desc'] or layout['colon']) else '')
        if p['desc']:
            lines.append(head + ' ' + p['desc'][0])
            for l in p['desc'][1:]:
                lines.append('%s   %s' % (star, l))
        else:
            lines.append(head)
    tags = list(b['tags'])
    if layout.get('returns_as_param') and tags and tags[0]['name'] == 'Returns':
        # the return value documented in the parameter section, as "@returns:"
        t = tags.pop(0)
        head = '%s @returns:' % star
        if t.get('anns'):
            head += ' ' + sep.join(render_ann(a) for a in t['anns']) + ((pc + ':') if t['desc'] else '')
        if t['desc']:
            lines.append(head + ' ' + t['desc'][0])
            for l in t['desc'][1:]:
                lines.append('%s   %s' % (star, l) if l else star)
        else:
            lines.append(head)
    if b['desc']:
        lines.append(star)
        for para in b['desc']:
            for l in para:
                lines.append(star + (' ' + l if l else ''))
    if tags:
        lines.append(star)
        for t in tags:
            head = '%s %s:' % (star, t['name'])
            if t.get('anns'):
                head += ' ' + sep.join(render_ann(a) for a in t['anns']) + ((pc + ':') if t['desc'] else '')
            if t.get('value'):
                head += ' ' + t['value'] + (':' if t['desc'] else '')
            if t['desc']:
                lines.append(head + ' ' + t['desc'][0])
                for l in t['desc'][1:]:
                    lines.append('%s   %s' % (star, l) if l else star)        # an empty line: the next paragraph of the tag
            else:
                lines.append(head)
    lines.append(ind + ' */')
    if layout.get('trailing'):
        # blanks at the end of lines that carry text (editors leave them): they are not part of any text
        lines = [l if (k in (0, len(lines) - 1) or l.strip() == '*') else l + rng.choice(['', ' ', '  ', '\t', ' \t']) for k, l in enumerate(lines)]
    return nl.join(lines)


def gen_block(rng, i):
    kind = rng.random()
    name = 'foo_fn_%d' % i if kind < 0.6 else rng.choice(['FooObj%d:prop-name', 'FooObj%d::sig-name', 'FooRec%d.field', 'FooRec%d', 'FOO_CONST_%d', 'ACTION_MAX_%d', 'SECTION_SIZE_%d',
                                                          'FooRec%d.x', 'FooObj%d:a', 'FooObj%d::b', 'FooObj%d:a-b']) % i
    def anns(n):
        out, names = [], set()
        for _ in range(n):
            a = gen_ann(rng)
            if a[0] not in names:
                names.add(a[0])
                out.append(a)
        return out
    # the last five contain characters that str.splitlines() takes for line ends (U+2028, form feed, NEL, FS, VT) but GTK-Doc does not
    words = ['alpha', 'beta', 'gamma', 'the', 'value', 'of', 'it.', 'See', 'foo_other()', 'too', '<b>x</b>', '&amp;', 'a:b', 'x(y)',
             'a\u2028b', 'x\x0cy', 'p\x85q', 'u\x1cv', 'k\x0bl']
    def sentence():
        return ' '.join(rng.choice(words) for _ in range(rng.randint(1, 7)))
    def pdesc(n):
        # the description of a parameter or tag may begin with a colon ("::signal-name is emitted ..."); elsewhere a
        # colon after the first word of a line would be the deprecated tag-style syntax
        d = [sentence() for _ in range(n)]
        if d and rng.random() < 0.15:
            d[0] = rng.choice(['::sig-name', ':prop', ':', ': :']) + ' ' + d[0]
        if len(d) >= 2 and rng.random() < 0.25:
            # a wrapped description whose second line begins with a parenthesised word: text, not an annotation
            d[1] = rng.choice(['(see below)', '(optional)', '(nullable) really', '(skip)']) + ' ' + d[1]
        elif len(d) >= 2 and rng.random() < 0.25:
            # ... or with a tag word and a colon: on an indented continuation line that is text, not a tag
            d[-1] = rng.choice(['Since:', 'Returns:', 'deprecated:', 'Stability:']) + ' ' + d[-1]
        return d

    def tdesc(n):
        # tags only: a description of several paragraphs (an empty line inside the description of a tag)
        d = pdesc(n)
        if len(d) >= 2 and rng.random() < 0.3:
            d.insert(1, '')
        return d
    b = dict(name=name, anns=anns(rng.choice([0, 0, 1, 2])), params=[], desc=[], tags=[])
    for j in range(rng.randint(0, 4) if kind < 0.6 else 0):
        b['params'].append(dict(name='p%d' % j if rng.random() < 0.9 else '...', anns=anns(rng.choice([0, 1, 2, 3])),
                                desc=pdesc(rng.choice([0, 1, 1, 2, 3]))))
    names = set()
    b['params'] = [p for p in b['params'] if not (p['name'] in names or names.add(p['name']))]
    for _ in range(rng.choice([0, 1, 1, 2])):
        para = [sentence() for _ in range(rng.randint(1, 3))]
        if len(para) >= 2 and rng.random() < 0.25:
            para[-1] = '  ' + rng.choice(['Since:', 'Returns:', 'Deprecated:']) + ' ' + para[-1]      # an indented list item, not a tag
        b['desc'].append(para + [''])
    if b['desc']:
        b['desc'][-1] = b['desc'][-1][:-1]
    if rng.random() < 0.6 and kind < 0.6:
        b['tags'].append(dict(name='Returns', anns=anns(rng.choice([0, 1, 2])), desc=tdesc(rng.choice([0, 1, 2, 3]))))
    if rng.random() < 0.4:
        b['tags'].append(dict(name='Since', value=rng.choice(['1.2', '0.10', '3']), desc=[sentence()] if rng.random() < 0.3 else []))
    if rng.random() < 0.3:
        b['tags'].append(dict(name='Deprecated', value=rng.choice(['1.4', '2.0']), desc=tdesc(rng.choice([1, 2, 3])) if rng.random() < 0.7 else []))
    if rng.random() < 0.2:
        b['tags'].append(dict(name='Stability', value=rng.choice(['Stable', 'Unstable', 'Private']), desc=[]))
    return b


def ann_dict(anns):
    from collections import OrderedDict
    d = OrderedDict()
    for name, kind, opts in anns:
        if kind == 'dict':
            d[name] = OrderedDict(opts)
        else:
            d[name] = list(opts)
    return d


def norm_anns(annotations):
    from collections import OrderedDict
    out = []
    for k, v in annotations.items():
        if isinstance(v, OrderedDict) or isinstance(v, dict):
            out.append((k, 'dict', list(v.items())))
        else:
            out.append((k, 'list', list(v or [])))
    return out


def block_view(blk):
    """what the parser recovered, in the shape of the generator's AST"""
    if blk is None:
        return None
    v = dict(name=blk.name, anns=norm_anns(blk.annotations), params=[], desc=blk.description, tags=[])
    for p in blk.params.values():
        v['params'].append(dict(name=p.name, anns=norm_anns(p.annotations), desc=p.description))
    for t in blk.tags.values():
        v['tags'].append(dict(name=t.name, anns=norm_anns(t.annotations), value=t.value, desc=t.description))
    return v


def expected_view(b, cont='  ', wrapped_cont=None):
    def dj(lines, c=None):
        c = cont if c is None else c
        return '\n'.join([lines[0]] + [c + l if l else '' for l in lines[1:]]) if lines else None
    desc = None
    if b['desc']:
        ls = [l for para in b['desc'] for l in para]
        desc = '\n'.join(ls).strip() or None
    v = dict(name=b['name'], anns=[(n, k, [(a, c) for a, c in o] if k == 'dict' else list(o)) for n, k, o in b['anns']], params=[], desc=desc, tags=[])
    for p in b['params']:
        if wrapped_cont is not None and len(p['anns']) > 1 and p['desc']:
            # annotations wrapped over lines: the whole description stands on continuation lines of its own
            # ... and is kept as such: a leading line break, every line with its indentation
            d = ''.join('\n' + wrapped_cont + l for l in p['desc'])
        else:
            d = dj(p['desc'])
        if d is None and p['anns']:
            d = ''          # fields were present (the annotations): the description is empty rather than missing
        v['params'].append(dict(name=p['name'], anns=[(n, k, list(o)) for n, k, o in p['anns']], desc=d))
    for t in b['tags']:
        d = dj(t['desc'])
        if d is None and (t['name'] in ('Since', 'Deprecated', 'Stability') or t.get('anns')):
            d = ''          # the value/description pattern of these tags yields an empty description, not a missing one
        v['tags'].append(dict(name=t['name'].lower(), anns=[(n, k, list(o)) for n, k, o in t.get('anns', [])], value=t.get('value'), desc=d))
    return v


def main(tier, seed):
    ck = Check('C10', tier, seed)
    ck.assumptions += ['the fifteen regular expressions of the parser are translated from the compiled pattern objects by way of CPython\'s own '
                       're._parser; \\s, \\w, \\d, case-insensitive literals, str.lower and str.capitalize are tables computed by the running '
                       'interpreter (the context-sensitive lower-casing of a final capital sigma is not modelled)',
                       'the writer (GtkDocCommentBlockWriter.write) is modelled for the layout indent=False']
    ck.prove(['gen_c10.py', 'gen_unicode.py', 'gen_c10b.py', 'gen_c10v.py'],
             models=['Model/C10.vo', 'Model/C10B.vo', 'Model/C10BEq.vo', 'Model/C10V.vo'])
    sys.path.insert(0, REPO)
    from giscanner import message
    from giscanner.annotationparser import GtkDocCommentBlockParser, GtkDocCommentBlockWriter, GtkDocAnnotations
    from giscanner.message import Position
    rng = random.Random(seed)
    out = io.StringIO()
    message.MessageLogger._instance = None
    logger = message.MessageLogger.get(namespace=None, output=out)
    logger.enable_warnings(True)
    parser = GtkDocCommentBlockParser()
    writer = GtkDocCommentBlockWriter(indent=False)
    # ---- (A) annotation fields against the model
    n = 600 if tier == 'quick' else 6000
    items = []
    fields_cases = []
    for i in range(n):
        f = gen_fields(rng)
        try:
            res = parser._parse_fields(Position('/src/foo.c', 10), 3, ' * ' + f, f)
        except Exception as e:      # noqa
            ck.failing_input('the annotation field parser raises %s' % type(e).__name__, dict(fields=f), detail=repr(e))
            continue
        ck.count_case(dict(fields=f), nontrivial=('(' in f), kind='fields:' + ('ok' if res.success else 'rejected'))
        if res.success:
            obs = '(Some (%s, %s))' % (clist(['(%s, %s)' % (cstr(k), coq_value(v)) for k, v in (res.annotations or {}).items()]), cstr(res.description))
        else:
            obs = 'None'
        items.append('(%d, %s, %s)' % (len(fields_cases), cstr(f), obs))
        fields_cases.append((f, res))
        # writer correspondence on what was parsed
    ser_items = []
    ser_cases = []
    for i in range(n // 3):
        anns = []
        names = set()
        for _ in range(rng.randint(0, 4)):
            a = gen_ann(rng)
            if a[0] not in names:
                names.add(a[0])
                anns.append(a)
        d = GtkDocAnnotations()
        for k, v in ann_dict(anns).items():
            d[k] = v
        try:
            text = writer._serialize_annotations(d)
        except Exception as e:      # noqa
            ck.failing_input('the annotation serializer raises %s' % type(e).__name__, dict(annotations=anns), detail=repr(e))
            continue
        ser_items.append('(%d, %s, %s)' % (len(ser_cases), clist(['(%s, %s)' % (cstr(nm), coq_value(ann_dict([(nm, k, o)])[nm])) for nm, k, o in anns]),
                                           cstr(text)))
        ser_cases.append((anns, text))
        # the project's own round trip at the field level
        try:
            back = parser._parse_fields(Position('/src/foo.c', 10), 3, ' * ' + text, text)
            if not back.success or norm_anns(back.annotations) != [(nm, k, list(o)) for nm, k, o in anns]:
                ck.failing_input('annotations do not survive serialize + parse', dict(annotations=anns, text=text),
                                 detail=None if not back.success else norm_anns(back.annotations))
        except Exception as e:      # noqa
            ck.failing_input('parsing serialized annotations raises', dict(annotations=anns, text=text), detail=repr(e))
    if ck.models_ok:
        text = '\n'.join(['From Coq Require Import List NArith Bool.', 'From GIV.Lib Require Import Regex Str.',
                          'From GIV.Model Require Import C02 C02Spec C10.', 'Import ListNotations.', 'Local Open Scope N_scope.',
                          'Definition v_eqb (a b : avalue) : bool := match a, b with',
                          '  | AList x, AList y => all2 str_eqb x y | ANone, ANone => true | ANone, AList [] | AList [], ANone => true',
                          '  | ADict x, ADict y => all2 (fun p q => str_eqb (fst p) (fst q) && ostr_eqb (snd p) (snd q)) x y | _, _ => false end.',
                          'Definition a_eqb (a b : list (str * avalue)) := all2 (fun p q => str_eqb (fst p) (fst q) && v_eqb (snd p) (snd q)) a b.',
                          'Definition cases : list (N * str * option (list (str * avalue) * str)) := [%s].' % ';\n'.join(items),
                          "Definition bad := Eval vm_compute in map (fun c => fst (fst c)) (filter (fun c => let '(_, f, o) := c in",
                          '  negb match parse_fields f, o with',
                          "       | Some (a, d, _), Some (a', d') => a_eqb a a' && str_eqb d d' | None, None => true | _, _ => false end) cases).",
                          'Print bad.',
                          'Definition scases : list (N * list (str * avalue) * str) := [%s].' % ';\n'.join(ser_items),
                          "Definition sbad := Eval vm_compute in map (fun c => fst (fst c)) (filter (fun c => let '(_, a, t) := c in",
                          '  negb (str_eqb (serialize_annotations a) t)) scases).', 'Print sbad.'])
        rc, outp = coq_eval('C10_cases', text)
        if rc != 0:
            ck.tie_broken('correspondence', 'case file does not evaluate:\n' + outp[-2000:])
        else:
            d = parse_defs(outp)
            bad = parse_nlist(d['bad'])
            sbad = parse_nlist(d['sbad'])
            ck.extra['traces_validated_against_impl'] = len(items) + len(ser_items)
            if bad:
                f, res = fields_cases[bad[0]]
                ck.tie_broken('correspondence', '_parse_fields differs from Model.C10.parse_fields on %d fields' % len(bad),
                              dict(fields=f, success=res.success, annotations=None if not res.success else norm_anns(res.annotations),
                                   description=res.description, more=[fields_cases[j][0] for j in bad[1:8]]))
            if sbad:
                ck.tie_broken('correspondence', '_serialize_annotations differs from Model.C10.serialize_annotations on %d annotation sets' % len(sbad),
                              dict(annotations=ser_cases[sbad[0]][0], text=ser_cases[sbad[0]][1]))
    # ---- (B) whole blocks in several layouts
    nb = 150 if tier == 'quick' else 2500
    for i in range(nb):
        b = gen_block(rng, i)
        want = expected_view(b)
        base_layout = dict(newline='\n', indent='', colon=True, wrap_anns=False)
        layouts = [base_layout, dict(base_layout, newline='\r\n'), dict(base_layout, newline='\r'), dict(base_layout, indent='    '),
                   dict(base_layout, indent='\t'), dict(base_layout, wrap_anns=True), dict(base_layout, colon=False, wrap_anns=rng.random() < 0.5),
                   dict(base_layout, returns_as_param=True), dict(base_layout, trailing=True), dict(base_layout, trailing=True, wrap_anns=True),
                   dict(base_layout, ann_sep=rng.choice(['\t', '  ', ' \t '])), dict(base_layout, wrap_anns=True, cont_tabs=True),
                   dict(base_layout, pre_colon=rng.choice([' ', '  ', '\t']), wrap_anns=rng.random() < 0.3),
                   dict(base_layout, ident_below=True), dict(base_layout, ident_below=True, colon=False)]
        first = None
        for lay in layouts:
            if lay.get('returns_as_param') and any(t['name'] == 'Returns' and '' in t['desc'] for t in b['tags']):
                continue        # in the parameter section an empty line ends the parameters: no paragraphs there
            text = make_block_text(rng, b, lay)
            try:
                blk = parser.parse_comment_block(text, '/src/foo.c', 100)
            except Exception as e:      # noqa
                ck.failing_input('the comment block parser raises %s on a well-formed block' % type(e).__name__, dict(text=text), detail=repr(e))
                continue
            got = block_view(blk)
            want = expected_view(b, wrapped_cont='   ' if lay['wrap_anns'] else None)
            ck.count_case(dict(block=b['name'], layout={k: repr(v) for k, v in lay.items()}), nontrivial=bool(b['params'] or b['tags']),
                          kind='layout:%s' % ('crlf' if lay['newline'] != '\n' else 'indent' if lay['indent'] else 'wrap' if lay['wrap_anns']
                                              else 'nocolon' if not lay['colon'] else 'plain'))
            if got != want:
                ck.failing_input('a well-formed comment block is not parsed exactly', dict(text=text, layout={k: repr(v) for k, v in lay.items()}),
                                 detail=dict(expected=want, got=got))
                break
            if first is None:
                first = blk
        if first is not None:
            try:
                again = parser.parse_comment_block(writer.write(first).rstrip('\n'), '/src/foo.c', 100)
                if block_view(again) != block_view(first):
                    ck.failing_input('writing a parsed block and parsing it again gives another block', dict(text=writer.write(first)),
                                     detail=dict(first=block_view(first), again=block_view(again)))
            except Exception as e:      # noqa
                ck.failing_input('the comment writer or the re-parse raises', dict(block=b), detail=repr(e))
    # ---- (C) the whole parser against the block-level model: the generated blocks in every layout, and comments composed line by
    # line from everything the state machine distinguishes
    import c10b
    rec = c10b.Recorder()
    rng2 = random.Random(seed * 7919 + 3)
    items = []
    for i in range(120 if tier == 'quick' else 1500):
        b = gen_block(rng2, i)
        base_layout = dict(newline='\n', indent='', colon=True, wrap_anns=False)
        lay = rng2.choice([base_layout, dict(base_layout, newline='\r\n'), dict(base_layout, newline='\r'), dict(base_layout, indent='    '),
                           dict(base_layout, indent='\t'), dict(base_layout, wrap_anns=True), dict(base_layout, colon=False),
                           dict(base_layout, returns_as_param=True), dict(base_layout, trailing=True), dict(base_layout, wrap_anns=True, cont_tabs=True)])
        if lay.get('returns_as_param') and any(t['name'] == 'Returns' and '' in t['desc'] for t in b['tags']):
            lay = base_layout
        items.append((make_block_text(rng2, b, lay), rng2.choice([1, 100, 5000]), 'model:generated block'))
    for i in range(500 if tier == 'quick' else 8000):
        items.append((c10b.wild_block_text(rng2), rng2.choice([1, 17, 4000]), 'model:line soup'))
    c10b.correspondence(ck, 'C10B_cases', items, parser, rec, clauses=False)
    message.MessageLogger._instance = None
    return ck.finish(rule='annotation fields: serialized annotation sets (24 list and 2 dictionary annotation names, key=value options, unknown and '
                          'upper-case names) in layouts with varying blank runs, descriptions with and without the separating colon, a '
                          'malformed stream (unbalanced, nested, empty parentheses, key=value in list annotations, text before annotations) and '
                          'character soup; whole blocks (functions, properties, signals, fields, constants; 0-4 parameters, multi-paragraph '
                          'descriptions, Returns/Since/Deprecated/Stability) rendered with LF, CRLF and CR, space and tab indentation, '
                          'annotations wrapped over lines, optional colons; each must parse to the generated block and survive the project\'s '
                          'own writer')


if __name__ == '__main__':
    sys.exit(main(os.environ.get('VERIF_TIER', 'quick'), int(os.environ.get('VERIF_SEED', '1'))))
