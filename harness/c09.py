"""C09 — the repository API and g-ir-generate report what the typelib contains."""
import os
import random
import re
import shutil
import subprocess
import sys
import tempfile
import xml.etree.ElementTree as ET

from common import Check, c_build, c_driver, CBUILD, ROOT, run
import girgen
from typelibcheck import decode_and_compare

CORE = '{http://www.gtk.org/introspection/core/1.0}'
GLIB = '{http://www.gtk.org/introspection/glib/1.0}'
CNS = '{http://www.gtk.org/introspection/c/1.0}'


def norm_line(l):
    l = re.sub(r'size=\d+ align=\d+', 'size=? align=?', l)
    l = re.sub(r'storage=\w+', 'storage=?', l)
    l = re.sub(r'(F \S+ flags=\d+) offset=\d+ size=\d+', r'\1 offset=? size=0', l)
    return l


def sort_attrs(lines):
    out, buf = [], []
    for l in lines:
        if l.lstrip().startswith('T '):
            buf.append(l)
        else:
            out += sorted(buf)
            buf = []
            out.append(l)
    return out + sorted(buf)


# ---- reduced view: what g-ir-generate must say (names, order, flags), from its XML and from the model

def b(v):
    return 1 if v in ('1', True) else 0


def canon_model_type(t, in_field=False):
    """a type of the generated namespace in g-ir-generate's vocabulary, without pointer marks (its text has no c:type)"""
    s = girgen.type_str(t, in_field=in_field)
    return re.sub(r',ptr=\d', '', s).replace('*', '')


def canon_xml_type(parent):
    """the <type>/<array> child of an element written by g-ir-generate, read as a GIR reader would (girparser.c start_type:
    an array with neither zero-terminated nor length nor fixed-size is zero-terminated)"""
    el = None
    for ch in parent:
        if ch.tag in (CORE + 'type', CORE + 'array'):
            el = ch
            break
    if el is None:
        return '?'
    if el.tag == CORE + 'array':
        kind = {None: 0, 'GLib.Array': 1, 'GLib.PtrArray': 2, 'GLib.ByteArray': 3}.get(el.get('name'), 9)
        ln, fx, z = el.get('length'), el.get('fixed-size'), el.get('zero-terminated')
        if kind == 0:
            zero = (1 if z == '1' else 0) if z is not None else (0 if (ln is not None or fx is not None) else 1)
        else:
            zero, ln, fx = 0, None, None
        return 'array[%d,zero=%d,len=%s,fixed=%s](%s)' % (kind, zero, ln if ln is not None else -1, fx if fx is not None else -1,
                                                          canon_xml_type(el))
    name = el.get('name')
    if name == 'GLib.List':
        return 'glist(%s)' % canon_xml_type(el)
    if name == 'GLib.SList':
        return 'gslist(%s)' % canon_xml_type(el)
    if name == 'GLib.HashTable':
        kids = [ch for ch in el if ch.tag in (CORE + 'type', CORE + 'array')]
        wrap = lambda k: canon_xml_type([k])
        return 'ghash(%s)' % ','.join(wrap(k) for k in kids)
    if name in ('none', 'any'):
        return 'void'
    if name == 'GLib.Error':
        return 'error'
    if name in BASIC_TAGS:
        return name
    return 'iface(%s)' % (name if '.' in name else 'T.' + name)


BASIC_TAGS = ('gboolean', 'gint8', 'guint8', 'gint16', 'guint16', 'gint32', 'guint32', 'gint64', 'guint64', 'gfloat', 'gdouble',
              'GType', 'utf8', 'filename', 'gunichar')


def red_callable_xml(el, path, out):
    rv = el.find(CORE + 'return-value')
    if rv is not None:
        out.append('%s/return transfer=%s null=%d skip=%d type=%s' % (path, rv.get('transfer-ownership'),
                                                                     b(rv.get('nullable')) or b(rv.get('allow-none')), b(rv.get('skip')),
                                                                     canon_xml_type(rv)))
    ps = el.find(CORE + 'parameters')
    for idx, p in enumerate(ps.findall(CORE + 'parameter') if ps is not None else []):
        d = p.get('direction') or 'in'
        nullable = b(p.get('nullable')) or (b(p.get('allow-none')) if d == 'in' else 0)
        optional = b(p.get('optional')) or (b(p.get('allow-none')) if d != 'in' else 0)
        out.append('%s/param#%d %s dir=%s transfer=%s null=%d opt=%d calleralloc=%d skip=%d scope=%s closure=%s destroy=%s type=%s'
                   % (path, idx, p.get('name'), d, p.get('transfer-ownership'), nullable, optional,
                      b(p.get('caller-allocates')) if d == 'out' else 0, b(p.get('skip')), p.get('scope') or '-',
                      p.get('closure') or '-', p.get('destroy') or '-', canon_xml_type(p)))


def red_xml(root):
    out = []
    ns = root.find(CORE + 'namespace')

    def walk(el, path):
        for ch in el:
            tag = ch.tag.replace(CORE, '').replace(GLIB, 'glib:')
            name = ch.get('name')
            if tag in ('function', 'method', 'constructor', 'callback', 'glib:signal', 'virtual-method'):
                p = '%s/%s:%s' % (path, tag, name)
                extra = ''
                if tag in ('function', 'method', 'constructor'):
                    extra = ' throws=%d dep=%d' % (b(ch.get('throws')), b(ch.get('deprecated')))
                out.append(p + extra)
                red_callable_xml(ch, p, out)
            elif tag in ('record', 'union', 'enumeration', 'bitfield', 'class', 'interface'):
                p = '%s/%s:%s' % (path, tag, name)
                out.append('%s dep=%d' % (p, b(ch.get('deprecated'))))
                walk(ch, p)
            elif tag == 'field':
                out.append('%s/field:%s r=%d w=%d' % (path, name, 0 if ch.get('readable') == '0' else 1, b(ch.get('writable'))))
                cb = ch.find(CORE + 'callback')
                # a field whose type is a *named* callback is also written inline by g-ir-generate;
                # only a callback carrying the field's own name is an embedded one
                if cb is not None and cb.get('name') == name:
                    red_callable_xml(cb, '%s/field:%s/callback' % (path, name), out)
            elif tag == 'property':
                out.append('%s/property:%s r=%d w=%d c=%d co=%d transfer=%s'
                           % (path, name, 0 if ch.get('readable') == '0' else 1, b(ch.get('writable')), b(ch.get('construct')),
                              b(ch.get('construct-only')), ch.get('transfer-ownership') or 'none'))
            elif tag == 'member':
                out.append('%s/member:%s=%s' % (path, name, ch.get('value')))
            elif tag == 'constant':
                out.append('%s/constant:%s' % (path, name))
            elif tag in ('implements', 'prerequisite'):
                out.append('%s/%s:%s' % (path, tag, name))
    walk(ns, '')
    return out


def red_callable_model(c, path, out):
    r = c['ret']
    out.append('%s/return transfer=%s null=%d skip=%d type=%s' % (path, r['transfer'], r['nullable'], r['skip'], canon_model_type(r['type'])))
    for idx, p in enumerate(c['params']):
        out.append('%s/param#%d %s dir=%s transfer=%s null=%d opt=%d calleralloc=%d skip=%d scope=%s closure=%s destroy=%s type=%s'
                   % (path, idx, p['name'], p['dir'], p['transfer'], p['nullable'], p['optional'],
                      1 if (p['caller_allocates'] and p['dir'] == 'out') else 0, p['skip'], p['scope'] or '-',
                      '-' if p['closure'] is None else p['closure'], '-' if p['destroy'] is None else p['destroy'],
                      canon_model_type(p['type'])))


def red_model(ns):
    out = []

    def fn(f, path):
        p = '%s/%s:%s' % (path, f['kind'], f['name'])
        out.append('%s throws=%d dep=%d' % (p, f['throws'], f['deprecated']))
        red_callable_model(f, p, out)

    def fields(e, path):
        for f in e.get('fields', []):
            out.append('%s/field:%s r=%d w=%d' % (path, f['name'], 1 if (f['readable'] is None or f['readable']) else 0,
                                                 1 if f['writable'] else 0))
            if 'callback' in f:
                red_callable_model(f['callback'], '%s/field:%s/callback' % (path, f['name']), out)
    for e in ns['entries']:
        k = e['kind']
        dep = 1 if e.get('deprecated') else 0
        if k == 'function':
            fn(e, '')
        elif k == 'callback':
            p = '/callback:%s' % e['name']
            out.append(p)
            red_callable_model(e, p, out)
        elif k in ('record', 'union'):
            p = '/%s:%s' % (k, e['name'])
            out.append('%s dep=%d' % (p, dep))
            fields(e, p)
            for m in e['methods']:
                fn(m, p)
        elif k in ('enumeration', 'bitfield'):
            p = '/%s:%s' % (k, e['name'])
            out.append('%s dep=%d' % (p, dep))
            for m in e['members']:
                out.append('%s/member:%s=%d' % (p, m['name'], m['value']))
            for f in e['functions']:
                fn(f, p)
        elif k == 'constant':
            out.append('/constant:%s' % e['name'])
        elif k in ('class', 'interface'):
            p = '/%s:%s' % (k, e['name'])
            out.append('%s dep=%d' % (p, dep))
            for i in e.get('implements', []):
                out.append('%s/implements:%s' % (p, i))
            for i in e.get('prerequisites', []):
                out.append('%s/prerequisite:%s' % (p, i))
            fields(e, p)
            for pr in e['properties']:
                out.append('%s/property:%s r=%d w=%d c=%d co=%d transfer=%s'
                           % (p, pr['name'], 1 if (pr['readable'] is None or pr['readable']) else 0, 1 if pr['writable'] else 0,
                              1 if pr['construct'] else 0, 1 if pr['construct_only'] else 0, pr['transfer'] or 'none'))
            for m in e['methods']:
                fn(m, p)
            for s in e['signals']:
                sp = '%s/glib:signal:%s' % (p, s['name'])
                out.append(sp)
                red_callable_model(s, sp, out)
            for v in e['vfuncs']:
                vp = '%s/virtual-method:%s' % (p, v['name'])
                out.append(vp)
                red_callable_model(v, vp, out)
    return out


def first_diff(a, b):
    for i, (x, y) in enumerate(zip(a, b)):
        if x != y:
            return i, x, y
    if len(a) != len(b):
        i = min(len(a), len(b))
        return i, a[i] if i < len(a) else None, b[i] if i < len(b) else None
    return None


def boundary_clauses(ck, exe, tmp, tier):
    """typelibs larger than 64 KiB whose blobs are moved through every 4-byte position by a padding string: some array type
    blob then starts exactly at offset 0x10000 (and 0x20000 in the thorough tier); every parameter type must be reported
    as written whatever its offset"""
    n = 1500 if tier == 'quick' else 3200
    head = ('<?xml version="1.0"?>\n<repository version="1.2" xmlns="http://www.gtk.org/introspection/core/1.0" '
            'xmlns:c="http://www.gtk.org/introspection/c/1.0" xmlns:glib="http://www.gtk.org/introspection/glib/1.0">\n'
            '<namespace name="T" version="1.0" shared-library="libt.so" c:identifier-prefixes="T" c:symbol-prefixes="t">\n')
    fn = ('<function name="f%d" c:identifier="t_f%d"><return-value transfer-ownership="none"><type name="none" c:type="void"/></return-value>'
          '<parameters><parameter name="a" transfer-ownership="none"><array zero-terminated="0" fixed-size="%d" c:type="gint32*">'
          '<type name="gint32" c:type="gint32"/></array></parameter></parameters></function>\n')
    body = ''.join(fn % (i, i, i + 1) for i in range(n))
    bad = None
    shifts = range(0, 128, 4)
    for sh in shifts:
        pad = '<constant name="PAD" value="%s" c:type="T_PAD"><type name="utf8" c:type="gchar*"/></constant>\n' % ('p' * (sh + 1))
        gir = os.path.join(tmp, 'T-1.0.gir')
        open(gir, 'w').write(head + pad + body + '</namespace>\n</repository>\n')
        rc, o = run([os.path.join(CBUILD, 'g-ir-compiler'), gir, '-o', os.path.join(tmp, 'T-1.0.typelib')], timeout=300)
        if rc != 0:
            ck.tie_broken('correspondence', 'g-ir-compiler rejected the large namespace: ' + o[-500:])
            return
        size = os.path.getsize(os.path.join(tmp, 'T-1.0.typelib'))
        if size <= 0x10000 + 4096:
            ck.tie_broken('harness', 'the large namespace compiles to %d bytes only: no blob reaches offset 0x10000' % size)
            return
        p = subprocess.run([exe, tmp, 'T'], capture_output=True, text=True, timeout=300)
        if p.returncode != 0:
            ck.failing_input('repository API walk crashed (rc=%d) on a large typelib' % p.returncode,
                             dict(functions=n, padding=sh + 1, typelib_bytes=size), detail=p.stderr[-500:])
            return
        cur = None
        for line in p.stdout.splitlines():
            l = line.strip()
            if l.startswith('E function f'):
                cur = int(l.split(' ')[2][1:])
            elif l.startswith('A a ') and cur is not None:
                m = re.search(r'type=(\S+)', l)
                want = 'array[0,zero=0,len=-1,fixed=%d,' % (cur + 1)
                if m is None or not m.group(1).startswith(want):
                    bad = dict(function='f%d' % cur, expected_type=want + 'gint32...]', reported=None if m is None else m.group(1),
                               functions=n, padding_bytes=sh + 1, typelib_bytes=size,
                               gir='namespace T: <constant PAD value="p"*%d>, then f0..f%d (a: gint32[fixed-size=i+1])' % (sh + 1, n - 1))
                    break
                cur = None
        if bad:
            break
    ck.count_case(dict(scenario='blobs moved through every position across 0x10000', functions=n, paddings=len(shifts)), kind='boundary')
    if bad:
        ck.failing_input('the API reports another type for a parameter than the GIR says (a large typelib: the type blob lies at or '
                         'near a multiple of 65536)', bad)


def main(tier, seed):
    ck = Check('C09', tier, seed)
    ck.assumptions += ['the accessor arithmetic is proved against a hand model of the builder (girnode.c), tied to the real '
                       'builder by the correspondence below', 'separation of accessor faults from compiler faults needs an '
                       'independent decoder (C06); here the expectation is derived from the GIR that was compiled',
                       'documented preconditions of accessors are respected (get_property/get_vfunc only with the flag set)',
                       'types inside g-ir-generate output are not compared (its own dialect: any, gint32, ...)']
    ck.prove(['gen_c09.py', 'gen_c06.py', 'gen_c02.py'], models=['Model/C09.vo', 'Model/C06K.vo'])
    ok, out = c_build()
    exe = None
    if ok:
        exe, out = c_driver('api_dump', os.path.join(ROOT, 'cshim', 'api_dump.c'))
    if not exe:
        ck.tie_broken('build', 'C build failed:\n' + out[-2000:])
        return ck.finish()
    rng = random.Random(seed)
    nns = 40 if tier == 'quick' else 600
    tmp = tempfile.mkdtemp(prefix='giv09')
    jobs, jgirs = [], []
    try:
        boundary_clauses(ck, exe, tmp, tier)
        for i in range(nns):
            g = girgen.Gen(rng)
            ns = g.namespace(rng.choice([4, 8, 12, 20]))
            gir = os.path.join(tmp, 'T-1.0.gir')
            open(gir, 'w').write(girgen.to_gir(ns))
            rc, o = run([os.path.join(CBUILD, 'g-ir-compiler'), gir, '-o', os.path.join(tmp, 'T-1.0.typelib')], timeout=120)
            kinds = sorted({e['kind'] for e in ns['entries']})
            if rc != 0:
                ck.tie_broken('correspondence', 'g-ir-compiler rejected a generated namespace: ' + o[-800:], dict(gir=open(gir).read()[:4000]))
                continue
            p = subprocess.run([exe, tmp, 'T'], capture_output=True, text=True, timeout=120)
            got = sort_attrs([norm_line(l) for l in p.stdout.splitlines() if not l.startswith(('NS ', 'DEP '))])
            if p.returncode == 0 and len(jobs) < (12 if tier == 'quick' else 200):
                jobs.append(('C09_case_%d' % i, open(os.path.join(tmp, 'T-1.0.typelib'), 'rb').read(),
                             [l for l in p.stdout.splitlines() if not l.startswith('DEP ')]))
                jgirs.append(open(gir).read())
            exp = sort_attrs(girgen.expected_dump(ns))
            ck.count_case(dict(entries=[(e['kind'], e['name']) for e in ns['entries']], api_lines=len(got)),
                          nontrivial=len(got) > 20, kind='ns:%d' % len(ns['entries']))
            if p.returncode != 0:
                ck.failing_input('repository API walk crashed (rc=%d)' % p.returncode, dict(gir=open(gir).read()), detail=p.stderr[-500:])
                continue
            exp, both = girgen.both_dimensions(exp, got)
            exp, got = sort_attrs(exp), sort_attrs(got)
            if [h_ for h_ in both if h_['finding'] == 'K1']:
                ck.failing_input('an array with a length parameter and a fixed size: the API reports no fixed size', dict(gir=open(gir).read()),
                                 detail=[h_ for h_ in both if h_['finding'] == 'K1'][:3], fid='C09-K1-array-with-length-and-fixed-size')
            if [h_ for h_ in both if h_['finding'] == 'K2']:
                ck.failing_input('an array with a fixed size of 65536 or more: the API reports the size modulo 65536', dict(gir=open(gir).read()),
                                 detail=[h_ for h_ in both if h_['finding'] == 'K2'][:3], fid='C09-K2-fixed-size-beyond-16-bits')
            d = first_diff(exp, got)
            if d:
                ck.failing_input('API reports something else than the compiled GIR says', dict(gir=open(gir).read()),
                                 detail=dict(line=d[0], expected=d[1], reported=d[2]))
            # by-name lookups agree with iteration: every top-level name is found, and is that entry
            # (exercised in C14); here: g-ir-generate
            q = subprocess.run([os.path.join(CBUILD, 'g-ir-generate'), os.path.join(tmp, 'T-1.0.typelib')],
                               capture_output=True, text=True, timeout=120)
            if q.returncode != 0:
                ck.failing_input('g-ir-generate failed', dict(gir=open(gir).read()), detail=q.stderr[-500:])
                continue
            try:
                root = ET.fromstring(q.stdout)
            except ET.ParseError as e:
                ck.failing_input('g-ir-generate wrote ill-formed XML: %s' % e, dict(gir=open(gir).read()))
                continue
            # sibling order is g-ir-generate's own; parameter order is kept by the index
            a, bb = sorted(red_model(ns)), sorted(red_xml(root))
            a, both2 = girgen.both_dimensions(a, bb)
            a = sorted(a)
            both2 = [h_ for h_ in both2 if h_['finding'] == 'K1']
            if both2 and not both:
                ck.failing_input('an array with a length parameter and a fixed size: g-ir-generate writes no fixed size', dict(gir=open(gir).read()),
                                 detail=both2[:3], fid='C09-K1-array-with-length-and-fixed-size')
            d = first_diff(a, bb)
            if d:
                fid = None
                if d[1] and '/function:' in d[1] and ('/enumeration:' in d[1] or '/bitfield:' in d[1]):
                    fid = 'C09-F15'
                ck.failing_input('g-ir-generate describes another API than the typelib', dict(gir=open(gir).read()),
                                 detail=dict(line=d[0], expected=d[1], generated=d[2]), fid=fid)
            # the same with --all (sizes and offsets included): still well-formed, still the same API
            q2 = subprocess.run([os.path.join(CBUILD, 'g-ir-generate'), '--all', os.path.join(tmp, 'T-1.0.typelib')],
                                capture_output=True, text=True, timeout=120)
            if q2.returncode != 0:
                ck.failing_input('g-ir-generate --all failed', dict(gir=open(gir).read()), detail=q2.stderr[-500:])
                continue
            try:
                root2 = ET.fromstring(q2.stdout)
            except ET.ParseError as e:
                ck.failing_input('g-ir-generate --all wrote ill-formed XML: %s' % e, dict(gir=open(gir).read()),
                                 detail=[l for l in q2.stdout.split('\n') if 'offset=' in l][:3])
                continue
            stray = [(el.tag.split('}')[-1], (t or '').strip()[:60]) for r_ in (root, root2) for el in r_.iter() for t in (el.text, el.tail)
                     if t and '="' in t]
            if stray:
                ck.failing_input('g-ir-generate wrote an XML attribute after the start tag had been closed: it ends up as text and is lost',
                                 dict(gir=open(gir).read()), detail=stray[:3])
            d = first_diff(a, sorted(red_xml(root2)))
            if d:
                ck.failing_input('g-ir-generate --all describes another API than the typelib', dict(gir=open(gir).read()),
                                 detail=dict(line=d[0], expected=d[1], generated=d[2]))
    finally:
        shutil.rmtree(tmp, ignore_errors=True)
    # the API against an independent reading of the bytes: the Coq decoder of Model/C06.v
    if ck.models_ok and jobs:
        ok_m, out_m = __import__('common').coq_make(['Model/C06.vo'])
        if not ok_m:
            ck.tie_broken('model', 'decoder does not build:\n' + out_m[-1500:])
        else:
            for (name, data, api), r, xml in zip(jobs, decode_and_compare(jobs), jgirs):
                if 'error' in r:
                    ck.tie_broken('correspondence', 'decoder case does not evaluate:\n' + r['error'])
                elif r['diff']:
                    ck.failing_input('the API reports something else than the bytes of the typelib say (decoded per the '
                                     'published format)', dict(gir=xml), detail=r['diff'])
            ck.extra['typelibs_decoded_independently'] = len(jobs)
    ck.extra['traces_validated_against_impl'] = ck.evaluations
    return ck.finish(rule='seeded namespaces of 4-20 entries over all container kinds (records, unions, enumerations with '
                          'functions, classes with odd/even interface counts, embedded callback fields, properties, methods, '
                          'signals, vfuncs, interfaces with prerequisites, constants), attributes on every node kind; each '
                          'compiled by the real g-ir-compiler, walked through the whole public API (api_dump driver) and '
                          'written back by g-ir-generate; non-trivial = more than 20 API lines')


if __name__ == '__main__':
    sys.exit(main(os.environ.get('VERIF_TIER', 'quick'), int(os.environ.get('VERIF_SEED', '1'))))
