"""C06 — a compiled typelib encodes exactly the API of the GIR it came from."""
import os
import random
import shutil
import subprocess
import sys
import tempfile

from common import Check, c_build, c_driver, CBUILD, ROOT, run, cstr, clist, cbool, coq_eval, parse_defs, parse_nlist
import re
import girgen
from c09 import norm_line, sort_attrs, first_diff
from typelibcheck import decode_and_compare


def main(tier, seed):
    ck = Check('C06', tier, seed)
    ck.assumptions += ['the whole-file statement decode(compile g) = api_of g is validated per run, not proved',
                       'expected description of a GIR (harness/girgen.py) encodes the documented meaning of GIR '
                       'attributes; differences found were reviewed against girparser.c one by one',
                       'every other generated GIR includes two further namespaces and refers to their types (records of the same '
                       'name in both, a pointer="1" record); deeper dependency chains are exercised by C17/C15', 'sizes/alignments/offsets of records are C08\'s subject and compared only between '
                       'decoder and API here']
    ck.prove(['gen_c06.py', 'gen_c02.py'], models=['Model/C06.vo', 'Model/C06K.vo'])
    ok, out = c_build()
    exe = None
    if ok:
        exe, out = c_driver('api_dump', os.path.join(ROOT, 'cshim', 'api_dump.c'))
    if not exe:
        ck.tie_broken('build', 'C build failed:\n' + out[-2000:])
        return ck.finish(level='proof')
    rng = random.Random(seed)
    nns = 16 if tier == 'quick' else 300
    tmp = tempfile.mkdtemp(prefix='giv06')
    jobs, girs = [], []
    blob_items, blob_cases = [], []
    try:
        for n, text in girgen.INCLUDED.items():
            open(os.path.join(tmp, n + '-1.0.gir'), 'w').write(text)
            rc, o = run([os.path.join(CBUILD, 'g-ir-compiler'), os.path.join(tmp, n + '-1.0.gir'), '-o', os.path.join(tmp, n + '-1.0.typelib')])
            if rc != 0 or o.strip():
                ck.tie_broken('harness', 'the included namespace %s does not compile: %s' % (n, o[-400:]))
        # names of GLib that begin with the names of the built-in containers
        gdir = os.path.join(tmp, 'glibnames')
        os.makedirs(gdir)
        open(os.path.join(gdir, 'GLib-2.0.gir'), 'w').write(girgen.GLIB_NAMES_DEP)
        open(os.path.join(gdir, 'U-1.0.gir'), 'w').write(girgen.GLIB_NAMES_DOC)
        rc, o = run([os.path.join(CBUILD, 'g-ir-compiler'), os.path.join(gdir, 'GLib-2.0.gir'), '-o', os.path.join(gdir, 'GLib-2.0.typelib')])
        rc2, o2 = run([os.path.join(CBUILD, 'g-ir-compiler'), '--includedir', gdir, os.path.join(gdir, 'U-1.0.gir'), '-o', os.path.join(gdir, 'U-1.0.typelib')])
        ck.count_case(dict(document='GLib.HashTableIter, GLib.ErrorType, GLib.ListStoreish, GLib.SListNode used from another namespace'), kind='glib-names')
        if rc != 0 or rc2 != 0 or o.strip() or o2.strip():
            ck.failing_input('g-ir-compiler rejected or warned about a valid GIR', dict(gir=girgen.GLIB_NAMES_DOC, included=girgen.GLIB_NAMES_DEP), detail=(o + o2)[-800:])
        else:
            p = subprocess.run([exe, gdir, 'U'], capture_output=True, text=True, timeout=120)
            got = [norm_line(l) for l in p.stdout.splitlines() if not l.startswith(('NS ', 'DEP '))]
            d = first_diff(girgen.GLIB_NAMES_DUMP, got)
            if p.returncode != 0 or d:
                ck.failing_input('the typelib does not describe the GIR it was compiled from', dict(gir=girgen.GLIB_NAMES_DOC, included=girgen.GLIB_NAMES_DEP),
                                 detail=dict(line=d[0], expected=d[1], in_typelib=d[2]) if d else p.stderr[-400:])
        for i in range(nns):
            g = girgen.Gen(rng)
            # every other document refers to types of two included namespaces (same-named records, a pointer record)
            g.foreign = i % 2 == 1
            ns = g.namespace(rng.choice([3, 6, 10, 16]))
            ns['entries'] += [dict(e_) for e_ in girgen.ALIAS_FIXTURE]
            if g.foreign:
                # every type of the included namespaces in parameter, return and element position, whatever the dice said
                xt = ([('XB', 'Item'), ('XB', 'Item')] if i % 4 == 3 else []) + [('X', 'Item'), ('Y', 'Item'), ('X', 'Other'), ('X', 'Handle'), ('Y', 'Handle')] + ([('XB', 'Item')] if i % 4 == 1 else [])

                def par(j, t):
                    return dict(name='p%d' % j, dir='in', transfer='none', nullable=False, optional=False, caller_allocates=False,
                                skip=False, scope=None, closure=None, destroy=None, type=t, attrs={})
                xfuncs = []
                for j, t in enumerate(xt):
                    xfuncs.append(dict(kind='function', name='xuse%d' % j, cid='t_xuse%d' % j, deprecated=False, attrs={},
                                              params=[par(0, ('xiface',) + t), par(1, ('glist', ('xiface',) + t)),
                                                      par(2, ('array', ('xiface',) + t, dict(zero=True)))],
                                              ret=dict(type=('xiface',) + xt[(j + 1) % len(xt)], transfer='none', nullable=False, skip=False, attrs={}),
                                              throws=False))
                # in every fourth document these functions come first, so that XB.Item is the first type of an included
                # namespace the compiler meets (X.Item, whose namespace name XB's begins with, only after it)
                ns['entries'] = (xfuncs + ns['entries']) if i % 4 == 3 else (ns['entries'] + xfuncs)
            gir = os.path.join(tmp, 'T-1.0.gir')
            tl = os.path.join(tmp, 'T-1.0.typelib')
            incl = ([('X', '1.0'), ('TX', '1.0'), ('Y', '1.0'), ('XB', '1.0')] if i % 4 == 1 else [('XB', '1.0'), ('Y', '1.0'), ('X', '1.0'), ('TX', '1.0')]) if g.foreign else []
            xml = girgen.to_gir(ns, includes=incl)
            open(gir, 'w').write(xml)
            rc, o = run([os.path.join(CBUILD, 'g-ir-compiler'), '--includedir', tmp, gir, '-o', tl], timeout=120)
            ck.count_case(dict(entries=[(e['kind'], e['name']) for e in ns['entries']]), nontrivial=len(ns['entries']) > 2,
                          kind='ns:%d' % len(ns['entries']))
            if rc != 0 or o.strip():
                ck.failing_input('g-ir-compiler rejected or warned about a valid GIR', dict(gir=xml), detail=o[-800:])
                if rc != 0:
                    continue
            data = open(tl, 'rb').read()
            rc2, o2 = run([os.path.join(CBUILD, 'g-ir-compiler'), '--includedir', tmp, gir, '-o', tl + '.2'], timeout=120)
            if rc2 == 0 and open(tl + '.2', 'rb').read() != data:
                ck.failing_input('compiling the same GIR twice gives different bytes', dict(gir=xml))
            p = subprocess.run([exe, tmp, 'T'], capture_output=True, text=True, timeout=120)
            api = [l for l in p.stdout.splitlines() if not l.startswith('DEP ')]
            deps = sorted(l[4:] for l in p.stdout.splitlines() if l.startswith('DEP '))
            if p.returncode == 0 and deps != sorted('%s-%s' % i_ for i_ in incl):
                ck.failing_input('the dependencies recorded in the typelib are not the namespaces the GIR includes', dict(gir=xml),
                                 detail=dict(includes=['%s-%s' % i_ for i_ in incl], in_typelib=deps))
            if p.returncode != 0:
                ck.failing_input('repository API walk crashed on the compiled typelib', dict(gir=xml), detail=p.stderr[-400:])
                continue
            # ArrayTypeBlob fields of every C-array parameter of a top-level function, as the API reports them, for
            # Model.C06K.blob_carray (what the GIR says -> what the blob holds)
            cur_fn = None
            fmap = {e_['name']: e_ for e_ in ns['entries'] if e_.get('kind') == 'function'}
            for l_ in api:
                if l_.startswith('E function '):
                    cur_fn = fmap.get(l_.split(' ')[2])
                elif l_.startswith('E '):
                    cur_fn = None
                elif l_.startswith('  A ') and cur_fn is not None:
                    pn_ = l_.split(' ')[3]
                    par_ = next((q_ for q_ in cur_fn['params'] if q_['name'] == pn_), None)
                    ma_ = re.search(r'type=array\[0,zero=(\d),len=(-?\d+),fixed=(-?\d+),ptr=(\d)\]', l_)
                    if par_ is not None and ma_ and par_['type'][0] == 'array':
                        o_ = par_['type'][2]
                        hl_, hs_ = o_.get('length') is not None, o_.get('fixed') is not None
                        z_ = bool(o_['zero']) if o_.get('zero') is not None else not (hl_ or hs_)
                        rz_, rl_, rf_, rp_ = (int(x_) for x_ in ma_.groups())
                        blob_items.append('(%d, {| ka_elem := []; ka_has_len := %s; ka_len := %d; ka_has_size := %s; ka_size := %d; ka_zero := %s; ka_ptr := true |}, '
                                          '(%s, %s, %s, %s, %d))' % (len(blob_cases), cbool(hl_), o_.get('length') or 0, cbool(hs_), o_.get('fixed') or 0, cbool(z_),
                                                                     cbool(rp_ == 1), cbool(rz_ == 1), cbool(rl_ >= 0), cbool(rf_ >= 0),
                                                                     rl_ if rl_ >= 0 else (rf_ if rf_ >= 0 else 65535)))
                        blob_cases.append(dict(function=cur_fn['name'], parameter=pn_, gir_options=o_, api=ma_.group(0)))
            exp = sort_attrs(girgen.expected_dump(ns))
            got = sort_attrs([norm_line(l) for l in api if not l.startswith('NS ')])
            exp, both = girgen.both_dimensions(exp, got)
            exp, got = sort_attrs(exp), sort_attrs(got)
            if [h_ for h_ in both if h_['finding'] == 'K1']:
                ck.failing_input('an array with a length parameter and a fixed size: the fixed size is not in the typelib', dict(gir=xml),
                                 detail=[h_ for h_ in both if h_['finding'] == 'K1'][:3], fid='C06-K1-array-with-length-and-fixed-size')
            if [h_ for h_ in both if h_['finding'] == 'K2']:
                ck.failing_input('an array with a fixed size of 65536 or more: the typelib holds the size modulo 65536', dict(gir=xml),
                                 detail=[h_ for h_ in both if h_['finding'] == 'K2'][:3], fid='C06-K2-fixed-size-beyond-16-bits')
            d = first_diff(exp, got)
            if d:
                ck.failing_input('the typelib does not describe the GIR it was compiled from', dict(gir=xml),
                                 detail=dict(line=d[0], expected=d[1], in_typelib=d[2]))
            hdr = 'NS T version=1.0 shlib=libt.so cprefix=T'
            if not api or api[0] != hdr:
                ck.failing_input('namespace header differs', dict(gir=xml), detail=dict(expected=hdr, got=api[:1]))
            jobs.append(('C06_case_%d' % i, data, api))
            girs.append(xml)
    finally:
        shutil.rmtree(tmp, ignore_errors=True)
    if ck.models_ok and jobs:
        res = decode_and_compare(jobs)
        nbytes = 0
        for (name, data, api), r, xml in zip(jobs, res, girs):
            nbytes += len(data)
            if 'error' in r:
                ck.tie_broken('correspondence', 'decoder case does not evaluate:\n' + r['error'])
                continue
            if r['structure_ok'] is not True:
                ck.failing_input('header sizes/offsets/alignment of the typelib disagree with the format', dict(gir=xml))
            if r['diff']:
                ck.failing_input('bytes decoded per the published format differ from what was compiled (and from the API)',
                                 dict(gir=xml), detail=r['diff'])
        ck.extra['programs'] = len(jobs)
        ck.extra['disagreements_checked'] = len(jobs)
        ck.extra['typelib_bytes_decoded'] = nbytes
    if ck.models_ok and blob_items:
        text = '\n'.join(['From Coq Require Import List NArith Bool.', 'From GIV.Lib Require Import Regex Str.',
                          'From GIV.Model Require Import C07T C06K.', 'Import ListNotations.', 'Local Open Scope N_scope.',
                          'Definition cases : list (N * carray * (bool * bool * bool * bool * N)) := [%s].' % ';\n'.join(blob_items),
                          "Definition bad := Eval vm_compute in map (fun c => fst (fst c)) (filter (fun c => let '(_, a, (p, z, hl, hs, d)) := c in",
                          "  let '(p', z', hl', hs', d') := blob_carray true a in",
                          "  negb (Bool.eqb p p' && Bool.eqb z z' && Bool.eqb hl hl' && Bool.eqb hs hs' && N.eqb d d')) cases).", 'Print bad.'])
        rc, out = coq_eval('C06K_blobs', text)
        if rc != 0:
            ck.tie_broken('correspondence', 'array blob case file does not evaluate:\n' + out[-1500:])
        else:
            badb = parse_nlist(parse_defs(out)['bad'])
            if badb:
                ck.tie_broken('correspondence', 'the API reports other ArrayTypeBlob fields than Model.C06K.blob_carray for %d array parameters'
                              % len(badb), blob_cases[badb[0]])
        ck.extra['array_blobs_compared'] = len(blob_items)
    # the key under which serialize_type shares the blobs of C arrays, against Model.C06K.key_carray
    kexe, kout = c_driver('key_driver', os.path.join(ROOT, 'cshim', 'key_driver.c'), exclude=('girnode',))
    if not kexe:
        ck.tie_broken('build', 'key driver does not build:\n' + kout[-1500:])
    else:
        krng = random.Random(seed * 13 + 1)
        rows = []
        for _ in range(400 if tier == 'quick' else 6000):
            rows.append((krng.choice([0, 1, 2, 3, 4, 5, 6, 7, 8, 9, 10, 11, 12, 13, 14, 21]), krng.randint(0, 1), krng.randint(0, 1),
                         krng.choice([0, 1, 2, 7, 10, 99, 65535, 70000]), krng.randint(0, 1), krng.choice([0, 1, 4, 16, 100, 4096, 65536]),
                         krng.randint(0, 1), krng.randint(0, 1)))
        kp = subprocess.run([kexe], input='\n'.join(' '.join(str(x) for x in r) for r in rows) + '\n', capture_output=True, text=True, timeout=120)
        lines = kp.stdout.splitlines()
        if kp.returncode != 0 or len(lines) != len(rows):
            ck.tie_broken('correspondence', 'key driver failed (rc=%d, %d of %d lines)' % (kp.returncode, len(lines), len(rows)), detail=None)
        elif ck.models_ok:
            items = []
            for i, (r, l) in enumerate(zip(rows, lines)):
                ek, ak = l.split('\t')
                items.append('(%d, {| ka_elem := %s; ka_has_len := %s; ka_len := %d; ka_has_size := %s; ka_size := %d; ka_zero := %s; ka_ptr := %s |}, %s)'
                             % (i, cstr(ek), cbool(r[2]), r[3], cbool(r[4]), r[5], cbool(r[6]), cbool(r[7]), cstr(ak)))
                ck.count_case(dict(array=r), kind='array-key')
            text = '\n'.join(['From Coq Require Import List NArith Bool.', 'From GIV.Lib Require Import Regex Str.',
                              'From GIV.Model Require Import C07T C06K.', 'Import ListNotations.', 'Local Open Scope N_scope.',
                              'Definition cases : list (N * carray * str) := [%s].' % ';\n'.join(items),
                              "Definition bad := Eval vm_compute in map (fun c => fst (fst c)) (filter (fun c => let '(_, a, k) := c in",
                              '  negb (str_eqb (key_carray a) k)) cases).', 'Print bad.'])
            rc, out = coq_eval('C06K_keys', text)
            if rc != 0:
                ck.tie_broken('correspondence', 'key case file does not evaluate:\n' + out[-1500:])
            else:
                badk = parse_nlist(parse_defs(out)['bad'])
                if badk:
                    ck.tie_broken('correspondence', 'serialize_type gives another key than Model.C06K.key_carray for %d arrays' % len(badk),
                                  dict(array=rows[badk[0]], key=lines[badk[0]]))
            ck.extra['array_keys_compared'] = len(rows)
    return ck.finish(level='proof',
                     rule='seeded GIR documents of 3-16 entries over every element kind and attribute combination the '
                          'generator knows (see harness/girgen.py), compiled by the real g-ir-compiler (exit status, '
                          'silence, determinism), decoded from the bytes by the Coq decoder (vm_compute) and compared '
                          'line by line with the API walk and with the description derived from the GIR')


if __name__ == '__main__':
    sys.exit(main(os.environ.get('VERIF_TIER', 'quick'), int(os.environ.get('VERIF_SEED', '1'))))
