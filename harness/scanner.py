"""Run the Python scanner pipeline of /repo without the C lexer: a stub
`giscanner._giscanner` module, synthetic SourceSymbol trees, the real
GtkDocCommentBlockParser -> Transformer -> MainTransformer -> IntrospectablePass ->
GIRWriter chain."""
import io
import os
import sys
import types
import xml.etree.ElementTree as ET

REPO = os.environ.get('GIV_REPO', '/repo')
if REPO not in sys.path:
    sys.path.insert(0, REPO)
if 'giscanner._giscanner' not in sys.modules:
    _m = types.ModuleType('giscanner._giscanner')

    class SourceScanner(object):
        pass
    _m.SourceScanner = SourceScanner
    sys.modules['giscanner._giscanner'] = _m
os.environ['GI_SCANNER_DISABLE_CACHE'] = '1'

from giscanner import ast, message  # noqa: E402
from giscanner.sourcescanner import *  # noqa: E402,F401,F403
from giscanner.sourcescanner import SourceSymbol  # noqa: E402
from giscanner.transformer import Transformer  # noqa: E402
from giscanner.maintransformer import MainTransformer  # noqa: E402
from giscanner.introspectablepass import IntrospectablePass  # noqa: E402
from giscanner.girwriter import GIRWriter  # noqa: E402
from giscanner.annotationparser import GtkDocCommentBlockParser  # noqa: E402
import giscanner.transformer as _T  # noqa: E402

STUBGIR = os.path.join(os.path.dirname(os.path.abspath(__file__)), 'stubgir')
_T.GIR_DIR = '/nonexistent'
_T.DATADIR = '/nonexistent'

NS = {'c': 'http://www.gtk.org/introspection/c/1.0', 'glib': 'http://www.gtk.org/introspection/glib/1.0',
      'core': 'http://www.gtk.org/introspection/core/1.0'}
CORE = '{%s}' % NS['core']
CNS = '{%s}' % NS['c']
GLIB = '{%s}' % NS['glib']


class FT(object):
    """stand-in for the lexer's SourceType"""

    def __init__(s, type, name=None, base_type=None, child_list=(), type_qualifier=0, is_bitfield=False,
                 function_specifier=0, storage_class_specifier=0):
        s.type = type
        s.name = name
        s.base_type = base_type
        s.child_list = list(child_list)
        s.type_qualifier = type_qualifier
        s.is_bitfield = is_bitfield
        s.function_specifier = function_specifier
        s.storage_class_specifier = storage_class_specifier


class FS(object):
    """stand-in for the lexer's SourceSymbol payload"""

    def __init__(s, type, ident, base_type=None, const_int=None, const_string=None, const_double=None,
                 const_boolean=None, source_filename='/src/foo.h', line=1, private=False, const_int_is_unsigned=False):
        s.type = type
        s.ident = ident
        s.base_type = base_type
        s.const_int = const_int
        s.const_string = const_string
        s.const_double = const_double
        s.const_boolean = const_boolean
        s.source_filename = source_filename
        s.line = line
        s.private = private
        s.const_int_is_unsigned = const_int_is_unsigned


def sym(fs):
    return SourceSymbol(None, fs)


VOID = FT(CTYPE_VOID)


def td(name, q=0):
    return FT(CTYPE_TYPEDEF, name, type_qualifier=q)


def ptr(t, q=0):
    return FT(CTYPE_POINTER, base_type=t, type_qualifier=q)


def basic(name, q=0):
    return FT(CTYPE_BASIC_TYPE, name, type_qualifier=q)


def param(name, t):
    return FS(CSYMBOL_TYPE_OBJECT, name, base_type=t)


def func(name, ret, params, line=1, fn='/src/foo.h'):
    return FS(CSYMBOL_TYPE_FUNCTION, name, base_type=FT(CTYPE_FUNCTION, base_type=ret, child_list=params),
              line=line, source_filename=fn)


def cbtypedef(name, ret, params, line=1, fn='/src/foo.h'):
    return FS(CSYMBOL_TYPE_TYPEDEF, name, base_type=ptr(FT(CTYPE_FUNCTION, base_type=ret, child_list=params)),
              line=line, source_filename=fn)


def enum_typedef(name, members, bitfield=False, line=1, fn='/src/foo.h', tag=None):
    """members: list of (ident, value, private)"""
    kids = [FS(CSYMBOL_TYPE_OBJECT, i, const_int=v, private=p, source_filename=fn, line=line + k + 1)
            for k, (i, v, p) in enumerate(members)]
    return FS(CSYMBOL_TYPE_TYPEDEF, name, base_type=FT(CTYPE_ENUM, tag or name, child_list=kids, is_bitfield=bitfield),
              line=line, source_filename=fn)


def const(ident, base=None, line=1, fn='/src/foo.h', **kw):
    return FS(CSYMBOL_TYPE_CONST, ident, base_type=base, line=line, source_filename=fn, **kw)


class Result(object):
    pass


def run(symbols, comments=(), nsname='Foo', version='1.0', identifier_prefixes=None, symbol_prefixes=None,
        accept_unprefixed=False, passes=True, warnings=True, dump=None, includes=(), shared_libraries=None, c_includes=(),
        packages=(), include_paths=None):
    """comments: list of (text, filename, lineno). Returns Result with .xml, .log, .warning_count, .root"""
    message.MessageLogger._instance = None
    ns = ast.Namespace(nsname, version, identifier_prefixes=identifier_prefixes, symbol_prefixes=symbol_prefixes)
    out = io.StringIO()
    logger = message.MessageLogger.get(namespace=ns, output=out)
    logger.enable_warnings(warnings)
    if shared_libraries is not None:
        ns.shared_libraries = list(shared_libraries)
    for c in c_includes:
        ns.c_includes.append(c)
    for pk in packages:
        ns.exported_packages.append(pk)
    tr = Transformer(ns, accept_unprefixed=accept_unprefixed)
    if includes:
        tr.set_include_paths(list(include_paths) if include_paths else [STUBGIR])
    for inc in includes:
        tr.register_include(ast.Include(inc, '1.0' if inc in ('Mid', 'Base', 'FooExt', 'Dep', 'Nib') else '2.0') if isinstance(inc, str) else inc)
    blocks = GtkDocCommentBlockParser().parse_comment_blocks(list(comments))
    tr.parse([sym(s) if not isinstance(s, SourceSymbol) else s for s in symbols])
    if dump is not None:
        from giscanner.gdumpparser import GDumpParser
        gp = GDumpParser(tr)
        gp._execute_binary_get_tree = lambda: dump
        gp.init_parse()
        gp.parse()
    if passes:
        MainTransformer(tr, blocks).transform()
        IntrospectablePass(tr, blocks).validate()
    r = Result()
    r.namespace = ns
    r.transformer = tr
    r.xml = GIRWriter(ns, ['/src']).get_xml()
    r.log = out.getvalue()
    r.warning_count = logger.get_warning_count()
    r.root = ET.fromstring(r.xml)
    return r


def gir_ns(root):
    return root.find(CORE + 'namespace')
