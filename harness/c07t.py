"""C07, type sub-language: giscanner/girwriter.py:_write_type and giscanner/girparser.py:_parse_type_simple against Model/C07T.v."""
import random
import xml.etree.ElementTree as ET

from common import coq_eval, parse_defs, parse_nlist, cstr, clist, cbool, copt

CORE = '{http://www.gtk.org/introspection/core/1.0}'
CNS = '{http://www.gtk.org/introspection/c/1.0}'
GLIBNS = '{http://www.gtk.org/introspection/glib/1.0}'
NSNAME = 'Foo'
FUNDS = ['gint', 'utf8', 'gpointer', 'guint8', 'gboolean', 'filename', 'GType', 'gdouble', 'none']
GINAMES = ['Foo.Bar', 'Foo.Baz', 'GLib.Variant', 'GObject.Object', 'FooExt.Thing', 'Fo.Bar', 'Foo.utf8', 'Foo.gint', 'Gio.File']
CTYPES = [None, 'gint', 'gchar*', 'FooBar*', 'const GList*', 'gpointer', 'GHashTable*', 'guint8*']
KINDS = [None, None, 'GLib.Array', 'GLib.ByteArray', 'GLib.PtrArray']
NPARAMS = 4


def gen_ty(rng, depth, top=True):
    r = rng.random()
    ct = rng.choice(CTYPES)
    if depth > 0 and r < 0.3:
        size = rng.choice([None, None, 0, 1, 7, 10, 255, 4096])
        ln = rng.choice([None, None, 0, 1, 3]) if top else None
        return ('array', rng.choice(KINDS), ct, rng.random() < 0.6, size, ln, gen_ty(rng, depth - 1, False))
    if depth > 0 and r < 0.45:
        return ('list', rng.choice(['GLib.List', 'GLib.SList']), ct, gen_ty(rng, depth - 1, False))
    if depth > 0 and r < 0.6:
        return ('map', ct, gen_ty(rng, depth - 1, False), gen_ty(rng, depth - 1, False))
    if r < 0.62 and top:
        return ('varargs',)
    if r < 0.8:
        return ('fund', rng.choice(FUNDS), ct)
    if r < 0.95:
        return ('named', rng.choice(GINAMES), ct)
    return ('unres', ct)


def build(t, ast):
    k = t[0]
    if k == 'varargs':
        return ast.Varargs()
    if k == 'array':
        a = ast.Array(t[1], build(t[6], ast), ctype=t[2])
        a.zeroterminated = t[3]
        a.size = t[4]
        a.length_param_name = None if t[5] is None else 'p%d' % t[5]
        return a
    if k == 'list':
        return ast.List(t[1], build(t[3], ast), ctype=t[2])
    if k == 'map':
        return ast.Map(build(t[2], ast), build(t[3], ast), ctype=t[1])
    if k == 'fund':
        return ast.Type(target_fundamental=t[1], ctype=t[2])
    if k == 'named':
        return ast.Type(target_giname=t[1], ctype=t[2])
    return ast.Type(ctype=t[1]) if t[1] is not None else ast.TypeUnknown()


def unbuild(o, ast, params):
    if isinstance(o, ast.Varargs):
        return ('varargs',)
    if isinstance(o, ast.Array):
        ln = None if o.length_param_name is None else [p.argname for p in params].index(o.length_param_name)
        return ('array', None if o.array_type == ast.Array.C else o.array_type, o.ctype, bool(o.zeroterminated), o.size, ln,
                unbuild(o.element_type, ast, params))
    if isinstance(o, ast.List):
        return ('list', o.name, o.ctype, unbuild(o.element_type, ast, params))
    if isinstance(o, ast.Map):
        return ('map', o.ctype, unbuild(o.key_type, ast, params), unbuild(o.value_type, ast, params))
    if o.target_fundamental:
        return ('fund', o.target_fundamental, o.ctype)
    if o.target_giname:
        return ('named', o.target_giname, o.ctype)
    return ('unres', o.ctype)


def named_leaves(t):
    k = t[0]
    if k == 'array':
        return named_leaves(t[6])
    if k == 'list':
        return named_leaves(t[3])
    if k == 'map':
        return named_leaves(t[2]) + named_leaves(t[3])
    if k == 'named':
        return [t[1]]
    if k == 'fund':
        return ['<' + t[1] + '>']
    return ['-']


def coq_ty(t):
    k = t[0]
    if k == 'varargs':
        return 'AVarargs'
    if k == 'array':
        return '(AArray %s %s %s %s %s %s)' % (copt(t[1], cstr), copt(t[2], cstr), cbool(t[3]), copt(t[4], lambda n: '%d' % n),
                                               copt(t[5], lambda n: '%d' % n), coq_ty(t[6]))
    if k == 'list':
        return '(AList %s %s %s)' % (cstr(t[1]), copt(t[2], cstr), coq_ty(t[3]))
    if k == 'map':
        return '(AMap %s %s %s)' % (copt(t[1], cstr), coq_ty(t[2]), coq_ty(t[3]))
    if k == 'fund':
        return '(AFund %s %s)' % (cstr(t[1]), copt(t[2], cstr))
    if k == 'named':
        return '(ANamed %s %s)' % (cstr(t[1]), copt(t[2], cstr))
    return '(AUnresolved %s)' % copt(t[1], cstr)


def qname(tag):
    for ns, p in ((CORE, ''), (CNS, 'c:'), (GLIBNS, 'glib:')):
        if tag.startswith(ns):
            return p + tag[len(ns):]
    return tag


def coq_xt(el):
    return '(XT %s %s %s)' % (cstr(qname(el.tag)), clist(['(%s, %s)' % (cstr(qname(k)), cstr(v)) for k, v in el.attrib.items()]),
                              clist([coq_xt(c) for c in el]))


def gen_xml(rng, depth):
    """elements the reader may meet in a file that this writer did not write"""
    tag = rng.choice(['type', 'type', 'array', 'varargs', 'callback', 'doc'])
    attrs = {}
    if rng.random() < 0.8:
        attrs['name'] = rng.choice(FUNDS + ['Bar', 'GLib.List', 'GLib.SList', 'GLib.HashTable', 'GLib.Array', 'GLib.PtrArray', 'Other.Thing', 'Weird'])
    if rng.random() < 0.6:
        attrs[CNS + 'type'] = rng.choice([c for c in CTYPES if c])
    if tag == 'array':
        for k_, vals in (('zero-terminated', ['0', '1', 'x', '']), ('fixed-size', ['3', '0', '', '12', 'x']), ('length', ['0', '2', '1'])):
            if rng.random() < 0.5:
                attrs[k_] = rng.choice(vals)
    el = ET.Element(CORE + tag, attrs)
    if depth > 0:
        for _ in range(rng.choice([0, 1, 1, 2, 3])):
            el.append(gen_xml(rng, depth - 1))
    return el


def type_codec(ck, tier, seed):
    from giscanner import ast
    from giscanner.girwriter import GIRWriter
    from giscanner.girparser import GIRParser
    rng = random.Random(seed * 7 + 3)
    n = 300 if tier == 'quick' else 5000
    ns = ast.Namespace(NSNAME, '1.0')
    writer = GIRWriter(ns)
    writer._namespace = ns      # set only while the namespace is being written
    fn = ast.Function('f', ast.Return(ast.TYPE_NONE), [ast.Parameter('p%d' % i, ast.TYPE_INT) for i in range(NPARAMS)], False, 'foo_f')
    reader = GIRParser()
    reader._namespace = ns

    def write(o):
        before = len(writer.get_xml())
        writer._write_type(o, parent=fn)
        frag = writer.get_xml()[before:]
        root = ET.fromstring('<repository xmlns="http://www.gtk.org/introspection/core/1.0" xmlns:c="http://www.gtk.org/introspection/c/1.0" '
                             'xmlns:glib="http://www.gtk.org/introspection/glib/1.0">%s</repository>' % frag)
        return frag, root

    def read(root):
        o = reader._parse_type_simple(root[0])
        reader._parse_type_array_length(fn.parameters, root, o)
        return o
    items = []
    cases = []
    for i in range(n):
        t = gen_ty(rng, rng.choice([0, 1, 2, 3]))
        case = dict(type=t, namespace=NSNAME)
        try:
            frag, root = write(build(t, ast))
            o2 = read(root)
            frag2, _ = write(o2)
        except Exception as e:     # noqa
            ck.failing_input('the GIR writer or reader raises %s on a type' % type(e).__name__, case, detail=repr(e))
            continue
        ck.count_case(case, nontrivial=t[0] in ('array', 'list', 'map'), kind='type:' + t[0])
        if frag2 != frag:
            ck.failing_input('a type written to GIR, read back and written again is not the same XML', case, detail=dict(written=frag, rewritten=frag2))
        # a type of ANOTHER namespace is read back as that type (the own namespace's prefix is the only one the writer may drop)
        l1, l2 = named_leaves(t), named_leaves(unbuild(o2, ast, fn.parameters))
        for a_, b_ in zip(l1, l2):
            if '.' in a_ and not a_.startswith(NSNAME + '.') and a_ != b_:
                ck.failing_input('a type of another namespace, written to GIR and read back, names another definition', case,
                                 detail=dict(written_type=a_, read_back=b_, xml=frag))
                break
        items.append('(%d, %s, %s, Some %s)' % (len(cases), coq_ty(t), coq_xt(root[0]), coq_ty(unbuild(o2, ast, fn.parameters))))
        cases.append(case)
    # elements of other origin: the reader's answer, or that it raises
    ritems = []
    rcases = []
    for i in range(n // 2):
        el = gen_xml(rng, rng.choice([0, 1, 2]))
        root = ET.Element(CORE + 'parameter')
        root.append(el)
        try:
            o = reader._parse_type_simple(el)
            if isinstance(o, ast.Array) and el.get('length') is not None:
                reader._parse_type_array_length(fn.parameters, root, o)
            got = 'Some %s' % coq_ty(unbuild(o, ast, fn.parameters))
        except (AssertionError, KeyError, ValueError):
            got = 'None'
        except Exception as e:     # noqa
            ck.failing_input('the GIR reader raises %s on a type element' % type(e).__name__, dict(element=ET.tostring(el).decode()), detail=repr(e))
            continue
        ck.count_case(dict(element=ET.tostring(el).decode()), kind='type-element')
        ritems.append('(%d, %s, %s)' % (len(rcases), coq_xt(el), got))
        rcases.append(ET.tostring(el).decode())
    if not ck.models_ok:
        return
    head = ['From Coq Require Import List NArith Bool.', 'From GIV.Lib Require Import Regex Str.', 'From GIV.Model Require Import C07T.',
            'Import ListNotations.', 'Local Open Scope N_scope.', 'Definition ns : str := %s.' % cstr(NSNAME)]
    per = 150
    bad_w, bad_r, bad_x = [], [], []
    for s0 in range(0, len(items), per):
        text = '\n'.join(head + [
            'Definition cases : list (N * aty * xt * option aty) := [%s].' % ';\n'.join(items[s0:s0 + per]),
            "Definition bad_w := Eval vm_compute in map (fun c => fst (fst (fst c))) (filter (fun c => let '(_, t, x, _) := c in negb (xt_eqb (write_ty ns t) x)) cases).",
            "Definition bad_r := Eval vm_compute in map (fun c => fst (fst (fst c))) (filter (fun c => let '(_, _, x, o) := c in negb (oaty_eqb (read_ty ns x) o)) cases).",
            'Print bad_w.', 'Print bad_r.'])
        rc, out = coq_eval('C07T_cases_%d' % (s0 // per), text)
        if rc != 0:
            ck.tie_broken('correspondence', 'type case file does not evaluate:\n' + out[-2000:])
            return
        d = parse_defs(out)
        bad_w += parse_nlist(d['bad_w'])
        bad_r += parse_nlist(d['bad_r'])
    for s0 in range(0, len(ritems), per):
        text = '\n'.join(head + [
            'Definition cases : list (N * xt * option aty) := [%s].' % ';\n'.join(ritems[s0:s0 + per]),
            "Definition bad_x := Eval vm_compute in map (fun c => fst (fst c)) (filter (fun c => let '(_, x, o) := c in negb (oaty_eqb (read_ty ns x) o)) cases).",
            'Print bad_x.'])
        rc, out = coq_eval('C07T_elems_%d' % (s0 // per), text)
        if rc != 0:
            ck.tie_broken('correspondence', 'type element case file does not evaluate:\n' + out[-2000:])
            return
        bad_x += parse_nlist(parse_defs(out)['bad_x'])
    if bad_w:
        ck.tie_broken('correspondence', 'GIRWriter._write_type differs from Model.C07T.write_ty on %d types' % len(bad_w), cases[bad_w[0]])
    if bad_r:
        ck.tie_broken('correspondence', 'GIRParser._parse_type_simple differs from Model.C07T.read_ty on %d written types' % len(bad_r), cases[bad_r[0]])
    if bad_x:
        ck.tie_broken('correspondence', 'GIRParser._parse_type_simple differs from Model.C07T.read_ty on %d elements' % len(bad_x),
                      dict(element=rcases[bad_x[0]]))
    ck.extra['types_validated_against_impl'] = len(items) + len(ritems)
