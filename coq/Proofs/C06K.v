From Coq Require Import List NArith Bool Lia.
From GIV.Lib Require Import Regex Str.
From GIV.Model Require Import C07T C06K.
From GIV.Proofs Require Import C07T.
Import ListNotations.
Local Open Scope N_scope.

Lemma first_sep (c : N) : forall a b x y, ~ In c a -> ~ In c b -> a ++ c :: x = b ++ c :: y -> a = b /\ x = y.
Proof.
  induction a as [|d a IH]; intros b x y Ha Hb E; destruct b as [|e b]; simpl in E.
  - injection E as E. split; [reflexivity|exact E].
  - injection E as E _. exfalso. apply Hb. left. symmetry. exact E.
  - injection E as E _. exfalso. apply Ha. left. exact E.
  - injection E as -> E. destruct (IH b x y) as [-> ->]; [intro H; apply Ha; right; exact H|intro H; apply Hb; right; exact H|exact E|].
    split; reflexivity.
Qed.

Lemma last_sep (c : N) a b x y : ~ In c x -> ~ In c y -> a ++ c :: x = b ++ c :: y -> a = b /\ x = y.
Proof.
  intros Hx Hy E. apply (f_equal (@rev N)) in E. rewrite !rev_app_distr in E. simpl in E. rewrite <- !app_assoc in E. simpl in E.
  destruct (first_sep c (rev x) (rev y) (rev a) (rev b)) as [E1 E2];
    [rewrite <- in_rev; exact Hx|rewrite <- in_rev; exact Hy|exact E|].
  apply (f_equal (@rev N)) in E1, E2. rewrite !rev_involutive in E1, E2. split; assumption.
Qed.

Lemma digit_range x : is_digit x = true -> 48 <= x <= 57.
Proof. unfold is_digit. intro H. apply andb_true_iff in H as [H1 H2]. apply N.leb_le in H1, H2. split; assumption. Qed.

Lemma dec_chars n x : In x (dec n) -> 48 <= x <= 57.
Proof.
  destruct (dec_spec n) as (_ & Hd & _). intro H. rewrite forallb_forall in Hd. apply digit_range. apply Hd. exact H.
Qed.

Lemma dec_inj a b : dec a = dec b -> a = b.
Proof. intro E. apply (f_equal undec) in E. rewrite !undec_dec in E. injection E as E. exact E. Qed.

(* digits, then something that does not begin with a digit *)
Lemma digits_split : forall d1 d2 r1 r2, forallb is_digit d1 = true -> forallb is_digit d2 = true ->
  match r1 with [] => True | c :: _ => is_digit c = false end ->
  match r2 with [] => True | c :: _ => is_digit c = false end ->
  d1 ++ r1 = d2 ++ r2 -> d1 = d2 /\ r1 = r2.
Proof.
  induction d1 as [|c d1 IH]; intros d2 r1 r2 H1 H2 N1 N2 E; destruct d2 as [|e d2]; simpl in *.
  - split; [reflexivity|exact E].
  - subst r1. apply andb_true_iff in H2 as [He _]. rewrite He in N1. discriminate.
  - subst r2. apply andb_true_iff in H1 as [Hc _]. rewrite Hc in N2. discriminate.
  - injection E as -> E. apply andb_true_iff in H1 as [_ H1]. apply andb_true_iff in H2 as [_ H2].
    destruct (IH d2 r1 r2 H1 H2 N1 N2 E) as [-> ->]. split; reflexivity.
Qed.

Lemma dec_digits n : forallb is_digit (dec n) = true.
Proof. destruct (dec_spec n) as (_ & Hd & _). exact Hd. Qed.

Lemma num_tail la lb (r1 r2 : str) :
  match r1 with [] => True | c :: _ => is_digit c = false end ->
  match r2 with [] => True | c :: _ => is_digit c = false end ->
  dec la ++ r1 = dec lb ++ r2 -> la = lb /\ r1 = r2.
Proof.
  intros N1 N2 E. destruct (digits_split _ _ _ _ (dec_digits la) (dec_digits lb) N1 N2 E) as [Ed Er].
  split; [apply dec_inj; exact Ed|exact Er].
Qed.

Lemma dims_no (c : N) a : (c = 91 \/ c = 93) -> ~ In c (key_dims a).
Proof.
  intros Hc Hin. unfold key_dims in Hin.
  assert (Hd : forall n, ~ In c (dec n)) by (intros n H; apply dec_chars in H; destruct Hc; subst c; lia).
  assert (Hk : ~ In c k_length /\ ~ In c k_fixed /\ ~ In c k_zero /\ ~ In c [44])
    by (destruct Hc; subst c; repeat split; simpl; intuition discriminate).
  destruct Hk as (K1 & K2 & K3 & K4).
  destruct (ka_has_len a), (ka_has_size a), (ka_zero a); repeat (apply in_app_or in Hin as [Hin|Hin]);
    try (apply (Hd _ Hin)); try contradiction; simpl in Hin; try tauto.
Qed.

Theorem array_key_sound a b : key_carray a = key_carray b ->
  ka_elem a = ka_elem b /\ blob_carray true a = blob_carray true b.
Proof.
  unfold key_carray. intro E.
  assert (Hs : forall x, ~ In 91 (key_dims x ++ [93] ++ (if ka_ptr x then [42] else []))).
  { intros x H. apply in_app_or in H as [H|H]; [exact (dims_no 91 x (or_introl eq_refl) H)|].
    destruct (ka_ptr x); simpl in H; intuition discriminate. }
  destruct (last_sep 91 _ _ _ _ (Hs a) (Hs b) E) as [Ee Et]. split; [exact Ee|].
  destruct (first_sep 93 _ _ _ _ (dims_no 93 a (or_intror eq_refl)) (dims_no 93 b (or_intror eq_refl)) Et) as [Ed Ep].
  assert (Hp : ka_ptr a = ka_ptr b) by (destruct (ka_ptr a), (ka_ptr b); try reflexivity; discriminate).
  unfold blob_carray. rewrite Hp. unfold key_dims in Ed.
  destruct a as [ea hla la hsa sa za pa], b as [eb hlb lb hsb sb zb pb]. cbn [ka_has_len ka_len ka_has_size ka_size ka_zero ka_ptr] in *.
  assert (Zn : forall z : bool, match (if z then [44] ++ k_zero else []) with [] => True | c :: _ => is_digit c = false end)
    by (intros [|]; [reflexivity|exact I]).
  assert (Zn' : forall z : bool, match (if z then [] ++ k_zero else []) with [] => True | c :: _ => is_digit c = false end)
    by (intros [|]; [reflexivity|exact I]).
  destruct hla, hlb.
  - (* both have a length *)
    rewrite <- !app_assoc in Ed. apply app_inv_head in Ed.
    destruct (num_tail la lb _ _ (Zn za) (Zn zb) Ed) as [-> Ez].
    assert (za = zb) by (destruct za, zb; try reflexivity; discriminate). subst. rewrite !andb_false_r. reflexivity.
  - exfalso. destruct hsb, zb; simpl in Ed; discriminate.
  - exfalso. destruct hsa, za; simpl in Ed; discriminate.
  - destruct hsa, hsb.
    + rewrite <- !app_assoc in Ed. apply app_inv_head in Ed.
      destruct (num_tail sa sb _ _ (Zn' za) (Zn' zb) Ed) as [-> Ez].
      assert (za = zb) by (destruct za, zb; try reflexivity; discriminate). subst. reflexivity.
    + exfalso. destruct zb; simpl in Ed; discriminate.
    + exfalso. destruct za; simpl in Ed; discriminate.
    + assert (za = zb) by (destruct za, zb; try reflexivity; discriminate). subst. reflexivity.
Qed.

(* the code as found: the same key, another blob *)
Theorem array_key_refuted_before_fix : exists a b,
  key_carray a = key_carray b /\ blob_carray false a <> blob_carray false b.
Proof.
  exists {| ka_elem := [103;105;110;116;51;50]; ka_has_len := true; ka_len := 1; ka_has_size := true; ka_size := 4; ka_zero := false; ka_ptr := true |},
         {| ka_elem := [103;105;110;116;51;50]; ka_has_len := true; ka_len := 1; ka_has_size := false; ka_size := 0; ka_zero := false; ka_ptr := true |}.
  split; [vm_compute; reflexivity|vm_compute; discriminate].
Qed.
