From Coq Require Import List Arith NArith Bool Lia.
From GIV.Lib Require Import Regex Str Backtrack BtBounds.
From GIV.Gen Require Import AnnNames UnicodeRe BlockRegex.
From GIV.Model Require Import C02 C10 C10B C11B.
Import ListNotations.

(* C11 over the block-level model (Model/C10B.v): every diagnostic of the parse phase names a line of the comment, quotes that
   source line and keeps the caret within it.  The bounds come from Lib/BtBounds (captures of the backtracking matcher lie within
   the subject) and from an invariant of the annotation character loop. *)


(* ---- captures lie within the subject *)
Lemma lookup_in id cs se : Backtrack.lookup id cs = Some se -> In (id, se) cs.
Proof.
  induction cs as [|[i e] t IH]; simpl; [discriminate|].
  destruct (Nat.eqb i id) eqn:E; intro H.
  - injection H as <-. apply Nat.eqb_eq in E. subst. left. reflexivity.
  - right. apply IH. exact H.
Qed.

Lemma gspan_bounds r x cs id : bmatch r x = Some cs -> gstart id cs <= gend id cs /\ gend id cs <= length x.
Proof.
  intro H. apply bm_caps_in_bounds in H. unfold gstart, gend, gspan.
  destruct (Backtrack.lookup id cs) as [se|] eqn:E; simpl; [|lia].
  apply lookup_in in E. rewrite Forall_forall in H. apply H in E. simpl in E. exact E.
Qed.

Lemma slice_length x a b : a <= b -> b <= length x -> length (slice x a b) = b - a.
Proof. intros. unfold slice. rewrite firstn_length, skipn_length. lia. Qed.

Lemma gtext_length r x cs id : bmatch r x = Some cs -> length (gtext id x cs) = gend id cs - gstart id cs.
Proof. intro H. destruct (gspan_bounds r x cs id H). unfold gtext. apply slice_length; assumption. Qed.

(* ---- what a well-placed diagnostic is: it names line ln and, when the bounds [b] of the call hold and it quotes, it quotes q
   with the caret inside *)
Definition dok (b : Prop) (ln : nat) (q : str) (d : diag) : Prop :=
  dg_line d = ln /\
  (b -> (dg_quoted d = None /\ dg_col d = None) \/ (dg_quoted d = Some q /\ exists c, dg_col d = Some c /\ c <= length q)).

Lemma dok_mkd (b : Prop) e code ln col q : (b -> col <= length q) -> dok b ln q (mkd e code ln col q).
Proof. intro H. split; [reflexivity|]. intro Hb. right. split; [reflexivity|]. exists col. split; [reflexivity|auto]. Qed.
Lemma dok_mkd0 b e code ln q : dok b ln q (mkd0 e code ln).
Proof. split; [reflexivity|]. intro. left. split; reflexivity. Qed.

Lemma find_index_lt c x : forall i r, find_index c x i = Some r -> i <= r < i + length x.
Proof.
  induction x as [|d t IH]; simpl; intros i r H; [discriminate|].
  destruct (N.eqb d c); [injection H as <-; lia|]. apply IH in H. lia.
Qed.

Lemma opts_list_ok (b : Prop) ln q column o :
  (b -> forall x, o = Some x -> column + length x <= S (length q)) ->
  Forall (dok b ln q) (snd (opts_list_d ln q column o)).
Proof.
  intro H. unfold opts_list_d. destruct o as [x|]; [|constructor].
  destruct x as [|c t] eqn:Ex; [constructor|]. rewrite <- Ex in *. clear Ex.
  destruct (find_index 61 x 0) as [r|] eqn:E; cbn [snd]; [|constructor].
  constructor; [|constructor]. apply dok_mkd. intro Hb. apply find_index_lt in E. specialize (H Hb _ eq_refl). lia.
Qed.

(* ---- str.lower keeps the length of anything that comes out pure ASCII *)
Definition is_ascii (c : N) : bool := N.ltb c 128.
Lemma lower_table_fact :
  forallb (fun e => Nat.eqb (length (snd e)) 1 || negb (forallb is_ascii (snd e))) py_lower_table = true.
Proof. vm_compute. reflexivity. Qed.
Lemma assoc_n_in {A} c (t : list (N * A)) v : assoc_n c t = Some v -> In (c, v) t.
Proof.
  induction t as [|[k w] r IH]; simpl; [discriminate|]. destruct (N.eqb_spec k c); intro H.
  - injection H as <-. subst. left. reflexivity.
  - right. auto.
Qed.
Lemma lower_char_ascii c : forallb is_ascii (py_lower_char c) = true -> length (py_lower_char c) = 1.
Proof.
  unfold py_lower_char. destruct (N.ltb c 128); [reflexivity|].
  destruct (assoc_n c py_lower_table) as [l|] eqn:E; [|reflexivity].
  intro H. apply assoc_n_in in E. pose proof lower_table_fact as F. rewrite forallb_forall in F. apply F in E. simpl in E.
  rewrite H in E. simpl in E. rewrite orb_false_r in E. apply Nat.eqb_eq in E. exact E.
Qed.
Lemma lower_ascii_length x : forallb is_ascii (py_lower x) = true -> length (py_lower x) = length x.
Proof.
  induction x as [|c t IH]; [reflexivity|]. unfold py_lower in *. cbn [flat_map]. rewrite forallb_app, app_length.
  intro H. apply andb_true_iff in H as [H1 H2]. rewrite (lower_char_ascii c H1), (IH H2). reflexivity.
Qed.
Lemma list_annotations_ascii : forallb (forallb is_ascii) list_annotations = true.
Proof. vm_compute. reflexivity. Qed.
Lemma in_list_ascii name : existsb (str_eqb name) list_annotations = true -> forallb is_ascii name = true.
Proof.
  intro H. apply existsb_exists in H as [a [Ha He]]. apply str_eqb_eq in He. subst a.
  pose proof list_annotations_ascii as F. rewrite forallb_forall in F. apply F. exact Ha.
Qed.

(* ---- lengths through strip / split1 / replace *)
Lemma lstrip_le x : length (lstrip x) <= length x.
Proof. induction x as [|c t IH]; simpl; [lia|]. destruct (is_space c); simpl; lia. Qed.
Lemma strip_le x : length (strip x) <= length x.
Proof. unfold strip. rewrite rev_length. etransitivity; [apply lstrip_le|]. rewrite rev_length. apply lstrip_le. Qed.
Lemma split1_len c : forall x cur a o, split1 c x cur = (a, o) ->
  match o with Some r => length cur + length x = length a + 1 + length r | None => length a = length cur + length x end.
Proof.
  induction x as [|d t IH]; simpl; intros cur a o H.
  - injection H as <- <-. rewrite rev_length. lia.
  - destruct (N.eqb d c).
    + injection H as <- <-. rewrite rev_length. lia.
    + apply IH in H. destruct o; simpl in *; lia.
Qed.
Lemma replace_char_len a b x : length (replace_char a b x) = length x.
Proof. apply map_length. Qed.

(* ---- _parse_annotation *)
Lemma finish_ok (b : Prop) ln q column name rest ds :
  Forall (dok b ln q) ds ->
  (b -> existsb (str_eqb name) list_annotations = true -> forall x, rest = Some x -> column + length name + 1 + length x <= length q) ->
  Forall (dok b ln q) (snd (finish_annotation ln q column name rest ds)).
Proof.
  intros Hds H. unfold finish_annotation.
  destruct (existsb (str_eqb name) list_annotations) eqn:El.
  - destruct (opts_list_d ln q (column + length name + 2) rest) as [l dl] eqn:Eo. cbn [snd].
    apply Forall_app. split; [exact Hds|].
    change dl with (snd (l, dl)). rewrite <- Eo. apply opts_list_ok. intros Hb x Hx. specialize (H Hb eq_refl x Hx). lia.
  - destruct (existsb (str_eqb name) dict_annotations); cbn [snd]; exact Hds.
Qed.

Lemma inout_alt_len : length ann_inout_alt = 6 /\ length ann_inout = 5 /\ forallb is_ascii ann_inout_alt = true
  /\ existsb (str_eqb ann_attributes) list_annotations = false.
Proof. vm_compute. auto. Qed.

Lemma parse_annotation_ok (b : Prop) ln q column annotation :
  (b -> column + length annotation + 2 <= length q) ->
  Forall (dok b ln q) (snd (parse_annotation_d ln q column annotation)).
Proof.
  intro H. unfold parse_annotation_d.
  destruct (split1 sp (replace_char 62 rpar (replace_char 60 lpar annotation)) []) as [n0 rest] eqn:Es.
  apply split1_len in Es. rewrite !replace_char_len in Es. cbn [length] in Es.
  destruct (str_eqb (py_lower n0) ann_inout_alt) eqn:E1.
  - apply str_eqb_eq in E1. apply finish_ok.
    + constructor; [|constructor]. apply dok_mkd. intro Hb. specialize (H Hb). lia.
    + intros Hb _ x Hx. subst rest. specialize (H Hb).
      destruct inout_alt_len as [L6 [L5 [La _]]].
      assert (length n0 = 6). { rewrite <- (lower_ascii_length n0); rewrite E1; [exact L6|exact La]. }
      rewrite L5. lia.
  - destruct (str_eqb (py_lower n0) ann_attribute) eqn:E2.
    + destruct (opts_list_d ln q column rest) as [l dl] eqn:Eo.
      assert (Hdl : Forall (dok b ln q) dl).
      { change dl with (snd (l, dl)). rewrite <- Eo. apply opts_list_ok. intros Hb x Hx. subst rest. specialize (H Hb). lia. }
      assert (Hd23 : Forall (dok b ln q) (mkd false 23 ln column q :: dl)).
      { constructor; [|exact Hdl]. apply dok_mkd. intro Hb. specialize (H Hb). lia. }
      assert (Hfin : forall r, Forall (dok b ln q) (snd (finish_annotation ln q column ann_attributes r (mkd false 23 ln column q :: dl)))).
      { intro r. apply finish_ok; [exact Hd23|]. intros _ Hc. destruct inout_alt_len as [_ [_ [_ Hn]]]. rewrite Hn in Hc. discriminate. }
      destruct l as [|a [|a2 [|a3 l']]]; try apply Hfin; cbn [snd];
        (apply Forall_app; split; [exact Hd23|]; constructor; [|constructor]; apply dok_mkd; intro Hb; specialize (H Hb); lia).
    + apply finish_ok; [constructor|]. intros Hb Hin x Hx. subst rest. specialize (H Hb).
      rewrite (lower_ascii_length n0 (in_list_ascii _ Hin)). lia.
Qed.


Definition pinv (i : nat) (st : pas) : Prop :=
  pa_end st <= i /\ (pa_level st = 0 -> pa_buf st = []) /\ (pa_level st <> 0 -> pa_start st + 1 + length (pa_buf st) <= i).

#[local] Arguments is_space : simpl never.
#[local] Arguments strip : simpl never.
#[local] Arguments parse_annotation_d : simpl never.
#[local] Arguments has_key : simpl never.
#[local] Arguments ann_set : simpl never.

Lemma pa_loop_ok (b : Prop) popt ln q column : forall x i st,
  (b -> column + i + length x <= length q) ->
  pinv i st ->
  Forall (dok b ln q) (pa_diags st) ->
  match pa_loop popt ln q column x i st with
  | PAok st' => Forall (dok b ln q) (pa_diags st') /\ pa_end st' <= i + length x
  | PAfail ds => Forall (dok b ln q) ds
  end.
Proof.
  induction x as [|c t IH]; intros i st Hb [He [Hb0 Hb1]] Hd.
  - simpl. split; [exact Hd|lia].
  - assert (Hcol : b -> column + i <= length q) by (intro B; specialize (Hb B); simpl in Hb; clear - Hb; lia).
    assert (Hb' : b -> column + S i + length t <= length q) by (intro B; specialize (Hb B); simpl in Hb; clear - Hb; lia).
    assert (Hfail : forall code, Forall (dok b ln q) (pa_diags st ++ [mkd true code ln (column + i) q])).
    { intro code. apply Forall_app. split; [exact Hd|]. constructor; [|constructor]. apply dok_mkd. exact Hcol. }
    cbn [pa_loop length].
    replace (i + S (length t)) with (S i + length t) by lia.
    destruct (N.eqb c lpar) eqn:Elp.
    { destruct (match pa_prev st with Some p => N.eqb p lpar | None => false end); [apply Hfail|].
      apply IH; [exact Hb'| |exact Hd]. unfold pinv; cbn. split; [lia|]. split; [discriminate|]. intros _.
      destruct (pa_level st) as [|l] eqn:El.
      - cbn. rewrite (Hb0 eq_refl). simpl. lia.
      - cbn. assert (pa_start st + 1 + length (pa_buf st) <= i) by (apply Hb1; discriminate). simpl. lia. }
    destruct (N.eqb c rpar) eqn:Erp.
    { destruct (match pa_prev st with Some p => N.eqb p lpar | None => false end); [apply Hfail|].
      destruct (pa_level st) as [|[|l]] eqn:El; [apply Hfail| |].
      - (* closing at level 1 *)
        assert (Hbuf : pa_start st + 1 + length (pa_buf st) <= i) by (apply Hb1; discriminate).
        destruct popt.
        + destruct (parse_annotation_d ln q (column + pa_start st) (strip (rev (pa_buf st)))) as [r ds] eqn:Ep.
          assert (Hds : Forall (dok b ln q) ds).
          { change ds with (snd (r, ds)). rewrite <- Ep. apply parse_annotation_ok. intro B. specialize (Hb B). simpl in Hb.
            pose proof (strip_le (rev (pa_buf st))) as Hs. rewrite rev_length in Hs. lia. }
          destruct r as [[name v]|].
          * apply IH; [exact Hb'| |].
            -- unfold pinv; cbn. split; [lia|]. split; [reflexivity|]. intro H. exfalso. apply H. reflexivity.
            -- cbn. apply Forall_app. split; [exact Hd|]. apply Forall_app. split; [exact Hds|].
               destruct (has_key (pa_anns st) name); [|constructor]. constructor; [|constructor]. apply dok_mkd. exact Hcol.
          * apply IH; [exact Hb'| |].
            -- unfold pinv; cbn. split; [lia|]. split; [reflexivity|]. intro H. exfalso. apply H. reflexivity.
            -- cbn. apply Forall_app. split; [exact Hd|exact Hds].
        + apply IH; [exact Hb'| |exact Hd]. unfold pinv; cbn. split; [lia|]. split; [reflexivity|]. intro H. exfalso. apply H. reflexivity.
      - apply IH; [exact Hb'| |exact Hd]. unfold pinv; cbn. split; [lia|]. split; [discriminate|]. intros _.
        assert (pa_start st + 1 + length (pa_buf st) <= i) by (apply Hb1; discriminate). simpl. lia. }
    destruct (is_space c) eqn:Esp.
    { apply IH; [exact Hb'| |exact Hd]. unfold pinv; cbn. split; [lia|]. split.
      - intro H0. rewrite H0. cbn. apply Hb0. exact H0.
      - intro Hn. destruct (pa_level st) as [|l] eqn:El; [exfalso; apply Hn; reflexivity|]. cbn.
        assert (pa_start st + 1 + length (pa_buf st) <= i) by (apply Hb1; discriminate). simpl. lia. }
    destruct (pa_level st) as [|l] eqn:El.
    { split; [exact Hd|lia]. }
    apply IH; [exact Hb'| |exact Hd]. unfold pinv; cbn. split; [lia|]. split; [discriminate|]. intros _.
    assert (pa_start st + 1 + length (pa_buf st) <= i) by (apply Hb1; discriminate). simpl. lia.
Qed.

(* _parse_annotations / _parse_fields *)
Lemma parse_annotations_ok (b : Prop) popt ln q column fields existing :
  (b -> column + length fields <= length q) ->
  let r := parse_annotations_d popt ln q column fields existing in
  Forall (dok b ln q) (po_diags r) /\ po_end r <= length fields.
Proof.
  intros Hb. unfold parse_annotations_d.
  match goal with |- context [pa_loop popt ln q column fields 0 ?s] => set (st0 := s) end.
  pose proof (pa_loop_ok b popt ln q column fields 0 st0) as H.
  destruct (pa_loop popt ln q column fields 0 st0) as [st|ds].
  - destruct H as [H1 H2]; [intro B; specialize (Hb B); lia| |constructor|].
    { unfold pinv, st0. cbn. split; [lia|]. split; [reflexivity|]. intro Hn. exfalso. apply Hn. reflexivity. }
    destruct (pa_level st); cbn; [split; [exact H1|lia]|]. split; [|lia].
    apply Forall_app. split; [exact H1|]. constructor; [|constructor]. apply dok_mkd. intro B. specialize (Hb B). lia.
  - cbn. split; [|lia]. apply H; [intro B; specialize (Hb B); lia| |constructor].
    unfold pinv, st0. cbn. split; [lia|]. split; [reflexivity|]. intro Hn. exfalso. apply Hn. reflexivity.
Qed.

Lemma parse_fields_ok (b : Prop) popt vd ln q column fields existing :
  (b -> column + length fields <= length q) ->
  Forall (dok b ln q) (po_diags (fst (parse_fields_d popt vd ln q column fields existing))).
Proof.
  intro Hb. unfold parse_fields_d.
  destruct (parse_annotations_ok b popt ln q column fields existing Hb) as [H1 H2].
  set (r := parse_annotations_d popt ln q column fields existing) in *.
  destruct (po_success r); [|exact H1].
  destruct (strip (skipn (po_end r) fields)) as [|c t]; [exact H1|].
  destruct (vd && Nat.ltb 0 (po_end r))%bool; [|exact H1].
  destruct (N.eqb c colon); [exact H1|]. cbn.
  apply Forall_app. split; [exact H1|]. constructor; [|constructor]. apply dok_mkd. intro B. specialize (Hb B). lia.
Qed.


#[local] Arguments is_space : simpl never.
#[local] Arguments strip : simpl never.
#[local] Arguments parse_annotation_d : simpl never.
#[local] Arguments parse_annotations_d : simpl never.
#[local] Arguments parse_fields_d : simpl never.
#[local] Arguments has_key : simpl never.
#[local] Arguments ann_set : simpl never.
#[local] Arguments bmatch : simpl never.
#[local] Arguments py_lower : simpl never.
#[local] Arguments part_set : simpl never.
#[local] Arguments part_get : simpl never.

Definition cx_ok (cx : lctx) : Prop := cx_line cx = skipn (cx_co cx) (cx_orig cx) /\ cx_co cx <= length (cx_orig cx).
Definition ext (b : Prop) (cx : lctx) (st st' : lst) : Prop :=
  exists new, l_diags st' = l_diags st ++ new /\ Forall (dok b (cx_ln cx) (cx_orig cx)) new.

Lemma dok_weaken (b : Prop) ln q d : dok b ln q d -> dok False ln q d.
Proof. intros [H _]. split; [exact H|]. intros []. Qed.
Lemma dok_true (b : Prop) ln q d : dok True ln q d -> dok b ln q d.
Proof. intros [H1 H2]. split; [exact H1|]. intros _. apply H2. exact I. Qed.

Lemma cx_len cx : cx_ok cx -> cx_co cx + length (cx_line cx) = length (cx_orig cx).
Proof. intros [H1 H2]. rewrite H1, skipn_length. lia. Qed.

Lemma cap_bound cx r cs id : cx_ok cx -> bmatch r (cx_line cx) = Some cs ->
  gstart id cs <= gend id cs /\ cx_co cx + gend id cs <= length (cx_orig cx).
Proof. intros Hc Hm. destruct (gspan_bounds _ _ _ id Hm). pose proof (cx_len cx Hc). lia. Qed.

Lemma field_bound cx r cs id : cx_ok cx -> bmatch r (cx_line cx) = Some cs ->
  cx_co cx + gstart id cs + length (gtext id (cx_line cx) cs) <= length (cx_orig cx).
Proof. intros Hc Hm. destruct (cap_bound cx r cs id Hc Hm). rewrite (gtext_length _ _ _ id Hm). lia. Qed.

Lemma part_with_fields_ok (b : Prop) p ln q column fields :
  (b -> column + length fields <= length q) -> Forall (dok b ln q) (snd (part_with_fields p ln q column fields)).
Proof.
  intro H. unfold part_with_fields. destruct fields as [|c t] eqn:Ef; [constructor|]. rewrite <- Ef in *. clear Ef.
  pose proof (parse_fields_ok b true true ln q column fields None H) as Hp.
  destruct (parse_fields_d true true ln q column fields None) as [r d]. cbn [fst] in Hp.
  destruct (po_success r); exact Hp.
Qed.

(* ---- the identifier: fields and delimiter lie within the text behind the asterisk *)
Definition ident_ok (line : str) (idn : ident) : Prop :=
  (forall f, id_fields idn = Some f -> id_fstart idn + length f <= length line) /\ id_dstart idn <= length line.

Lemma ident4_ok r line cs sep g1 g2 gd gf : bmatch r line = Some cs -> ident_ok line (ident4 line cs sep g1 g2 gd gf).
Proof.
  intro H. unfold ident_ok, ident4. cbn. split.
  - intros f Hf. injection Hf as <-. rewrite (gtext_length _ _ _ gf H). destruct (gspan_bounds _ _ _ gf H). lia.
  - destruct (gspan_bounds _ _ _ gd H). lia.
Qed.

Lemma match_ident_ok line idn : match_ident line = Some idn -> ident_ok line idn.
Proof.
  unfold match_ident.
  destruct (bmatch re_section line) as [c1|] eqn:E1.
  { intro H. injection H as <-. split; cbn; [discriminate|lia]. }
  destruct (bmatch re_property line) as [c2|] eqn:E2.
  { intro H. injection H as <-. eapply ident4_ok. exact E2. }
  destruct (bmatch re_signal line) as [c3|] eqn:E3.
  { intro H. injection H as <-. eapply ident4_ok. exact E3. }
  destruct (bmatch re_action line) as [c4|] eqn:E4.
  { intro H. injection H as <-. split; cbn; [discriminate|lia]. }
  destruct (bmatch re_field line) as [c5|] eqn:E5.
  { intro H. injection H as <-. eapply ident4_ok. exact E5. }
  destruct (bmatch re_symbol line) as [c6|] eqn:E6; [|discriminate].
  intro H. injection H as <-. split; cbn.
  - intros f Hf. injection Hf as <-. rewrite (gtext_length _ _ _ g_symbol_fields E6). destruct (gspan_bounds _ _ _ g_symbol_fields E6). lia.
  - destruct (gspan_bounds _ _ _ g_symbol_delimiter E6). lia.
Qed.

Ltac fa1 tac := first [apply Forall_nil | (constructor; [tac | apply Forall_nil])].
Ltac ext_done := eexists; split; [cbn; rewrite <- ?app_assoc; reflexivity|].

Lemma step_ident_ok cx cb ca bl st : cx_ok cx -> ext True cx st (step_ident cx cb ca bl st).
Proof.
  intro Hc. pose proof (cx_len cx Hc) as Hl. unfold step_ident, ext.
  assert (H8 : forall ds, Forall (dok True (cx_ln cx) (cx_orig cx)) ds ->
               Forall (dok True (cx_ln cx) (cx_orig cx)) (ds ++ (if l_warned st then [] else [mkd true 8 (cx_ln cx) (cx_co cx) (cx_orig cx)]))).
  { intros ds Hds. apply Forall_app. split; [exact Hds|]. destruct (l_warned st); fa1 ltac:(apply dok_mkd; intros _; lia). }
  destruct (match_ident (cx_line cx)) as [idn|] eqn:Ei.
  2:{ ext_done. apply (H8 []). constructor. }
  destruct (match_ident_ok _ _ Ei) as [Hf Hd].
  destruct (id_fields idn) as [[|fc ft]|] eqn:Ef; try (ext_done; constructor).
  specialize (Hf _ eq_refl).
  assert (Hb : True -> cx_co cx + id_fstart idn + length (fc :: ft) <= length (cx_orig cx)) by (intros _; lia).
  destruct (parse_annotations_ok True true (cx_ln cx) (cx_orig cx) (cx_co cx + id_fstart idn) (fc :: ft) None Hb) as [Hp _].
  set (r := parse_annotations_d true (cx_ln cx) (cx_orig cx) (cx_co cx + id_fstart idn) (fc :: ft) None) in *.
  destruct (po_success r).
  - destruct (nonempty (strip (skipn (po_end r) (fc :: ft)))).
    + ext_done. apply H8. exact Hp.
    + ext_done. apply Forall_app. split; [exact Hp|].
      destruct (id_delim idn) as [[|? ?]|]; destruct (po_anns r);
        first [apply Forall_nil | (constructor; [apply dok_mkd; intros _; lia | constructor])].
  - ext_done. exact Hp.
Qed.

Lemma step_param_ok cx cs b st : cx_ok cx -> bmatch re_parameter (cx_line cx) = Some cs -> ext True cx st (step_param cx cs b st).
Proof.
  intros Hc Hm. unfold step_param, ext.
  pose proof (field_bound cx _ cs g_parameter_fields Hc Hm) as Hfb.
  destruct (cap_bound cx _ cs g_parameter_parameter_name Hc Hm) as [Hn1 Hn2].
  assert (Hmark : forall e code, dok True (cx_ln cx) (cx_orig cx)
                    (mkd e code (cx_ln cx) (gstart g_parameter_parameter_name cs + cx_co cx) (cx_orig cx))).
  { intros. apply dok_mkd. intros _. lia. }
  assert (H9 : Forall (dok True (cx_ln cx) (cx_orig cx))
                 (match l_part st with Some PIdent | Some PParams => [] | _ => [mkd false 9 (cx_ln cx) (gstart g_parameter_parameter_name cs + cx_co cx) (cx_orig cx)] end)).
  { destruct (l_part st) as [[| | |]|]; fa1 ltac:(apply Hmark). }
  assert (Hpf : forall p, Forall (dok True (cx_ln cx) (cx_orig cx))
                 (snd (part_with_fields p (cx_ln cx) (cx_orig cx) (cx_co cx + gstart g_parameter_fields cs) (gtext g_parameter_fields (cx_line cx) cs)))).
  { intro p. apply part_with_fields_ok. intros _. exact Hfb. }
  destruct (str_eqb (py_lower (gtext g_parameter_parameter_name (cx_line cx) cs)) tag_returns).
  - specialize (Hpf (new_part tag_returns (cx_ln cx))).
    destruct (part_with_fields (new_part tag_returns (cx_ln cx)) (cx_ln cx) (cx_orig cx) (cx_co cx + gstart g_parameter_fields cs)
                (gtext g_parameter_fields (cx_line cx) cs)) as [tag ds]. cbn [snd] in Hpf.
    ext_done. apply Forall_app. split; [exact H9|]. apply Forall_app. split; [|exact Hpf].
    destruct (l_rseen st); fa1 ltac:(apply dok_mkd0).
  - match goal with |- context [part_with_fields (new_part ?n _)] => set (pn := n) end.
    specialize (Hpf (new_part pn (cx_ln cx))).
    destruct (part_with_fields (new_part pn (cx_ln cx)) (cx_ln cx) (cx_orig cx) (cx_co cx + gstart g_parameter_fields cs)
                (gtext g_parameter_fields (cx_line cx) cs)) as [p ds]. cbn [snd] in Hpf.
    ext_done. apply Forall_app. split; [exact H9|]. apply Forall_app. split.
    { match goal with |- Forall _ (if ?c then _ else _) => destruct c end; fa1 ltac:(apply Hmark). }
    apply Forall_app. split; [|exact Hpf].
    match goal with |- Forall _ (if ?c then _ else _) => destruct c end; fa1 ltac:(apply Hmark).
Qed.

Lemma step_cont_ok cx b st : cx_ok cx -> ext True cx st (step_cont cx b st).
Proof.
  intro Hc. pose proof (cx_len cx Hc) as Hl. unfold step_cont, ext.
  set (line := if is_empty_line (cx_line cx) then cx_line cx else rstrip (cx_line cx)).
  assert (Hlen : length line <= length (cx_line cx)).
  { unfold line. destruct (is_empty_line (cx_line cx)); [lia|]. unfold rstrip. rewrite rev_length.
    etransitivity; [apply lstrip_le|]. rewrite rev_length. lia. }
  assert (Hb : True -> cx_co cx + length line <= length (cx_orig cx)) by (intros _; lia).
  assert (Hupd : forall l k,
    Forall (dok True (cx_ln cx) (cx_orig cx))
      (snd (match part_get l k with
            | None => (l, [])
            | Some p =>
                if truthy (pt_desc p) then (part_set l (part_with p (pt_anns p) (pt_apos p) (add_line (pt_desc p) line) (pt_value p)), [])
                else
                  let '(r, d) := parse_fields_d true true (cx_ln cx) (cx_orig cx) (cx_co cx) line (Some (pt_anns p, pt_apos p)) in
                  if po_success r && po_changed r then (part_set l (part_with p (po_anns r) (po_apos r) (Some d) (pt_value p)), po_diags r)
                  else (part_set l (part_with p (pt_anns p) (pt_apos p) (add_line (pt_desc p) line) (pt_value p)), po_diags r)
            end))).
  { intros l k. destruct (part_get l k) as [p|]; [|constructor]. destruct (truthy (pt_desc p)); [constructor|].
    pose proof (parse_fields_ok True true true (cx_ln cx) (cx_orig cx) (cx_co cx) line (Some (pt_anns p, pt_apos p)) Hb) as Hp.
    destruct (parse_fields_d true true (cx_ln cx) (cx_orig cx) (cx_co cx) line (Some (pt_anns p, pt_apos p))) as [r d]. cbn [fst] in Hp.
    destruct (po_success r && po_changed r)%bool; exact Hp. }
  assert (Hid : exists new,
    l_diags (let try_anns := (negb (truthy (bk_desc b)) && match l_part st with Some PIdent => true | _ => false end)%bool in
             let r := parse_annotations_d true (cx_ln cx) (cx_orig cx) (cx_co cx) line (Some (bk_anns b, bk_apos b)) in
             if (try_anns && po_success r && po_changed r)%bool then
               add_diags (set_blk st (blk_with b (po_anns r) (po_apos r) (bk_params b) (bk_desc b) (bk_tags b))) (po_diags r)
             else
               add_diags (set_blk st (blk_with b (bk_anns b) (bk_apos b) (bk_params b) (add_line (bk_desc b) line) (bk_tags b)))
                         (if try_anns then po_diags r else [])) = l_diags st ++ new
    /\ Forall (dok True (cx_ln cx) (cx_orig cx)) new).
  { cbv zeta. destruct (parse_annotations_ok True true (cx_ln cx) (cx_orig cx) (cx_co cx) line (Some (bk_anns b, bk_apos b)) Hb) as [Hp _].
    set (r := parse_annotations_d true (cx_ln cx) (cx_orig cx) (cx_co cx) line (Some (bk_anns b, bk_apos b))) in *.
    destruct (negb (truthy (bk_desc b)) && match l_part st with Some PIdent => true | _ => false end)%bool; cbn [andb].
    - destruct (po_success r && po_changed r)%bool; (eexists; split; [cbn; reflexivity|exact Hp]).
    - eexists; split; [cbn; reflexivity|constructor]. }
  destruct (l_part st) as [[| | |]|] eqn:Ep; try exact Hid.
  - destruct (l_cur st) as [|k|k].
    + exists []. split; [rewrite app_nil_r; reflexivity|constructor].
    + specialize (Hupd (bk_params b) k). match goal with |- context [let '(_, _) := ?e in _] => destruct e as [ps ds] end.
      cbn [snd] in Hupd. eexists; split; [cbn; reflexivity|exact Hupd].
    + specialize (Hupd (bk_tags b) k). match goal with |- context [let '(_, _) := ?e in _] => destruct e as [ps ds] end.
      cbn [snd] in Hupd. eexists; split; [cbn; reflexivity|exact Hupd].
  - destruct (l_cur st) as [|k|k].
    + exists []. split; [rewrite app_nil_r; reflexivity|constructor].
    + specialize (Hupd (bk_params b) k). match goal with |- context [let '(_, _) := ?e in _] => destruct e as [ps ds] end.
      cbn [snd] in Hupd. eexists; split; [cbn; reflexivity|exact Hupd].
    + specialize (Hupd (bk_tags b) k). match goal with |- context [let '(_, _) := ?e in _] => destruct e as [ps ds] end.
      cbn [snd] in Hupd. eexists; split; [cbn; reflexivity|exact Hupd].
Qed.

Definition has13 (ds : list diag) : Prop := exists d, In d ds /\ dg_code d = 13.
Lemma dok_false_q ln q q' d : dok False ln q d -> dok False ln q' d.
Proof. intros [H _]. split; [exact H|]. intros []. Qed.
Lemma Forall_dok_false_q ln q q' ds : Forall (dok False ln q) ds -> Forall (dok False ln q') ds.
Proof. apply Forall_impl. intro d. apply dok_false_q. Qed.

Lemma attributes_transform_ok ln q marker : forall raws acc, Forall (dok False ln q) (snd (attributes_transform ln q marker raws acc)).
Proof.
  induction raws as [|a t IH]; intro acc; cbn [attributes_transform]; [constructor|].
  pose proof (opts_list_ok False ln q marker (Some a)) as Ho.
  destruct (opts_list_d ln q marker (Some a)) as [opts dl]. cbn [snd] in Ho.
  assert (Hdl : Forall (dok False ln q) dl) by (apply Ho; intros []).
  destruct opts as [|o [|o2 [|o3 l]]]; cbn [snd]; try exact Hdl.
  - specialize (IH (acc ++ sp :: o)). destruct (attributes_transform ln q marker t (acc ++ sp :: o)) as [r ds]. cbn [snd] in *.
    apply Forall_app. split; assumption.
  - specialize (IH (acc ++ sp :: o ++ [61%N] ++ o2)). destruct (attributes_transform ln q marker t (acc ++ sp :: o ++ [61%N] ++ o2)) as [r ds].
    cbn [snd] in *. apply Forall_app. split; assumption.
Qed.

Lemma step_deprecated_tag_ok cx cs b st :
  exists new, l_diags (step_deprecated_tag cx cs b st) = l_diags st ++ new
              /\ Forall (dok False (cx_ln cx) (cx_orig cx)) new /\ has13 new.
Proof.
  unfold step_deprecated_tag.
  set (ln := cx_ln cx). set (orig := cx_orig cx). set (line := cx_line cx).
  set (marker := gstart g_tag_tag_name cs + cx_co cx).
  set (d13 := mkd false 13 ln marker orig).
  assert (H13 : dok False ln orig d13) by (apply dok_mkd; intros []).
  assert (Hhas : forall rest, has13 (d13 :: rest)) by (intro rest; exists d13; split; [left; reflexivity|reflexivity]).
  assert (Hmk : forall e code, dok False ln orig (mkd e code ln marker orig)) by (intros; apply dok_mkd; intros []).
  assert (Hpa : forall q col a, Forall (dok False ln orig) (snd (parse_annotation_d ln q col a))).
  { intros q col a. apply (Forall_dok_false_q ln q). apply parse_annotation_ok. intros []. }
  destruct (str_eqb (py_lower (gtext g_tag_tag_name line cs)) tag_attributes).
  - pose proof (parse_fields_ok False false false ln line marker (strip (gtext g_tag_fields line cs)) None) as Hpf.
    destruct (parse_fields_d false false ln line marker (strip (gtext g_tag_fields line cs)) None) as [r dd]. cbn [fst] in Hpf.
    assert (Hr : Forall (dok False ln orig) (po_diags r)) by (apply (Forall_dok_false_q ln line); apply Hpf; intros []).
    destruct (po_success r).
    2:{ eexists. split; [cbn; reflexivity|]. split; [constructor; assumption|apply Hhas]. }
    pose proof (attributes_transform_ok ln line marker (po_raws r) []) as Hat.
    destruct (attributes_transform ln line marker (po_raws r) []) as [tr dt]. cbn [snd] in Hat.
    apply (Forall_dok_false_q ln line orig) in Hat.
    destruct tr as [[|tc tt]|].
    + eexists. split; [cbn; reflexivity|]. split; [|apply Hhas]. constructor; [exact H13|]. apply Forall_app; split; assumption.
    + match goal with |- context [parse_annotation_d ?a ?q ?c ?x] => pose proof (Hpa q c x) as Hp; destruct (parse_annotation_d a q c x) as [pa da] end.
      cbn [snd] in Hp.
      destruct pa as [[nm v]|].
      * match goal with |- context [if ?c then _ else _] => destruct c end.
        -- eexists. split; [cbn; reflexivity|]. split; [|apply Hhas]. constructor; [exact H13|].
           repeat (apply Forall_app; split; try assumption). constructor; [apply Hmk|constructor].
        -- eexists. split; [cbn; reflexivity|]. split; [|apply Hhas]. constructor; [exact H13|].
           repeat (apply Forall_app; split; try assumption).
      * eexists. split; [cbn; reflexivity|]. split; [|apply Hhas]. constructor; [exact H13|].
        repeat (apply Forall_app; split; try assumption).
    + eexists. split; [cbn; reflexivity|]. split; [|apply Hhas]. constructor; [exact H13|].
      repeat (apply Forall_app; split; try assumption). constructor; [apply Hmk|constructor].
  - match goal with |- context [parse_annotation_d ?a ?q ?c ?x] => pose proof (Hpa q c x) as Hp; destruct (parse_annotation_d a q c x) as [pa da] end.
    cbn [snd] in Hp.
    destruct pa as [[nm v]|]; (eexists; split; [cbn; reflexivity|]; split; [constructor; assumption|apply Hhas]).
Qed.

Lemma plain_tag_part_ok ln q fcol tlow tfields :
  (True -> fcol + length tfields <= length q) -> Forall (dok True ln q) (snd (fst (plain_tag_part ln q fcol tlow tfields))).
Proof.
  intro Hfld. unfold plain_tag_part. destruct tfields as [|fc ft] eqn:Ef; [constructor|]. rewrite <- Ef in *. clear Ef.
  pose proof (parse_fields_ok True true true ln q fcol tfields None Hfld) as Hp.
  destruct (parse_fields_d true true ln q fcol tfields None) as [r d]. cbn [fst] in Hp.
  assert (H20 : Forall (dok True ln q) (po_diags r ++ match po_anns r with [] => [] | _ => [mkd0 true 20 ln] end)).
  { apply Forall_app. split; [exact Hp|]. destruct (po_anns r); fa1 ltac:(apply dok_mkd0). }
  destruct (po_success r); [|exact Hp].
  repeat match goal with
         | |- context [match bmatch ?rr ?dd with _ => _ end] => destruct (bmatch rr dd)
         | |- context [if ?c then _ else _] => destruct c
         end; exact H20.
Qed.

Lemma step_tag_ok cx cs b st : cx_ok cx -> bmatch re_tag (cx_line cx) = Some cs ->
  ext True cx st (step_tag cx cs b st) \/
  (exists new, l_diags (step_tag cx cs b st) = l_diags st ++ new /\ Forall (dok False (cx_ln cx) (cx_orig cx)) new /\ has13 new).
Proof.
  intros Hc Hm. unfold step_tag.
  match goal with |- context [step_deprecated_tag cx cs b ?s] => set (st1 := s) end.
  destruct (existsb (str_eqb (py_lower (gtext g_tag_tag_name (cx_line cx) cs))) deprecated_ann_tags).
  { right. apply (step_deprecated_tag_ok cx cs b st1). }
  left. unfold ext.
  pose proof (field_bound cx _ cs g_tag_fields Hc Hm) as Hfb.
  destruct (cap_bound cx _ cs g_tag_tag_name Hc Hm) as [Hn1 Hn2].
  assert (Hmark : forall e code, dok True (cx_ln cx) (cx_orig cx) (mkd e code (cx_ln cx) (gstart g_tag_tag_name cs + cx_co cx) (cx_orig cx))).
  { intros. apply dok_mkd. intros _. lia. }
  destruct (str_eqb (py_lower (gtext g_tag_tag_name (cx_line cx) cs)) tag_description).
  { eexists. split; [cbn; reflexivity|]. constructor; [apply Hmark|constructor]. }
  match goal with |- context [if ?e then [] else [mkd false 17 _ _ _]] => set (expected := e) end.
  assert (H17 : Forall (dok True (cx_ln cx) (cx_orig cx))
                  (if expected then [] else [mkd false 17 (cx_ln cx) (gstart g_tag_tag_name cs + cx_co cx) (cx_orig cx)])).
  { destruct expected; fa1 ltac:(apply Hmark). }
  assert (Hfld : True -> cx_co cx + gstart g_tag_fields cs + length (gtext g_tag_fields (cx_line cx) cs) <= length (cx_orig cx)) by (intros _; exact Hfb).
  destruct (existsb (str_eqb (py_lower (gtext g_tag_tag_name (cx_line cx) cs))) return_tag_names).
  - pose proof (part_with_fields_ok True (new_part tag_returns (cx_ln cx)) (cx_ln cx) (cx_orig cx) (cx_co cx + gstart g_tag_fields cs)
                  (gtext g_tag_fields (cx_line cx) cs) Hfld) as Hpf.
    destruct (part_with_fields (new_part tag_returns (cx_ln cx)) (cx_ln cx) (cx_orig cx) (cx_co cx + gstart g_tag_fields cs)
                (gtext g_tag_fields (cx_line cx) cs)) as [tag ds]. cbn [snd] in Hpf.
    eexists. split; [cbn; reflexivity|]. apply Forall_app. split; [exact H17|]. apply Forall_app. split; [|exact Hpf].
    destruct (l_rseen st); fa1 ltac:(apply dok_mkd0).
  - pose proof (plain_tag_part_ok (cx_ln cx) (cx_orig cx) (cx_co cx + gstart g_tag_fields cs)
                  (py_lower (gtext g_tag_tag_name (cx_line cx) cs)) (gtext g_tag_fields (cx_line cx) cs) Hfld) as Htri.
    destruct (plain_tag_part (cx_ln cx) (cx_orig cx) (cx_co cx + gstart g_tag_fields cs)
                (py_lower (gtext g_tag_tag_name (cx_line cx) cs)) (gtext g_tag_fields (cx_line cx) cs)) as [[tag ds] exc]. cbn [fst snd] in Htri.
    eexists. split; [cbn; reflexivity|]. apply Forall_app. split; [exact H17|]. apply Forall_app. split; [|exact Htri].
    match goal with |- Forall _ (if ?c then _ else _) => destruct c end; fa1 ltac:(apply Hmark).
Qed.


#[local] Arguments bmatch : simpl never.
#[local] Arguments step_ident : simpl never.
#[local] Arguments step_param : simpl never.
#[local] Arguments step_tag : simpl never.
#[local] Arguments step_cont : simpl never.

Lemma has13_app_r a b : has13 b -> has13 (a ++ b).
Proof. intros [d [Hi Hc]]. exists d. split; [apply in_or_app; right; exact Hi|exact Hc]. Qed.

Lemma step_ok cb ca bl ln line0 st :
  exists new, l_diags (step cb ca bl ln line0 st) = l_diags st ++ new /\
    (Forall (dok True ln line0) new \/ (Forall (dok False ln line0) new /\ has13 new)).
Proof.
  unfold step.
  set (bi := match bmatch re_indent line0 with Some cs => gtext g_indent_indentation line0 cs | None => [] end).
  set (exc0 := match bmatch re_indent line0 with Some _ => false | None => true end).
  set (pre := match bmatch re_asterisk line0 with
              | Some cs => (gend 0 cs, if nonempty (gtext g_asterisk_comment line0 cs) then [mkd true 6 ln (gstart g_asterisk_comment cs) line0] else [])
              | None => (0, [])
              end).
  assert (Hpre : fst pre <= length line0 /\ Forall (dok True ln line0) (snd pre)).
  { unfold pre. destruct (bmatch re_asterisk line0) as [cs|] eqn:Ea; cbn [fst snd]; [|split; [lia|constructor]].
    destruct (gspan_bounds _ _ _ 0 Ea). destruct (gspan_bounds _ _ _ g_asterisk_comment Ea). split; [lia|].
    destruct (nonempty (gtext g_asterisk_comment line0 cs)); fa1 ltac:(apply dok_mkd; intros _; lia). }
  destruct pre as [co d6]. cbn [fst snd] in Hpre. destruct Hpre as [Hco Hd6].
  match goal with |- context [step_cont ?c _ _] => set (cx := c) end.
  match goal with |- context [step_cont cx _ ?s] => set (st1 := s) end.
  assert (Hcx : cx_ok cx) by (split; [reflexivity|exact Hco]).
  assert (Hst1 : l_diags st1 = l_diags st ++ d6) by reflexivity.
  assert (Hgood : forall st', ext True cx st1 st' ->
            exists new, l_diags st' = l_diags st ++ new /\
              (Forall (dok True ln line0) new \/ (Forall (dok False ln line0) new /\ has13 new))).
  { intros st' [new [He Hf]]. exists (d6 ++ new). rewrite He, Hst1, app_assoc. split; [reflexivity|]. left.
    apply Forall_app. split; [exact Hd6|exact Hf]. }
  change (l_blk st1) with (l_blk st).
  destruct (l_blk st) as [b|] eqn:Eb.
  2:{ apply Hgood. apply step_ident_ok. exact Hcx. }
  destruct (bmatch re_parameter (skipn co line0)) as [cs|] eqn:Ep.
  { apply Hgood. apply step_param_ok; [exact Hcx|exact Ep]. }
  match goal with |- context [if ?c then _ else _] => destruct c end.
  { exists d6. split; [exact Hst1|]. left. exact Hd6. }
  assert (Hcont : exists new, l_diags (step_cont cx b st1) = l_diags st ++ new /\
              (Forall (dok True ln line0) new \/ (Forall (dok False ln line0) new /\ has13 new))).
  { apply Hgood. apply step_cont_ok. exact Hcx. }
  destruct (bmatch re_tag (skipn co line0)) as [cs|] eqn:Et; [|exact Hcont].
  match goal with |- context [if ?c then _ else _] => destruct c end; [|exact Hcont].
  destruct (step_tag_ok cx cs b st1 Hcx Et) as [H|[new [He [Hf H13]]]]; [apply Hgood; exact H|].
  exists (d6 ++ new). rewrite He, Hst1, app_assoc. split; [reflexivity|]. right. split.
  - apply Forall_app. split; [|exact Hf]. eapply Forall_impl; [|exact Hd6]. intro d. apply dok_weaken.
  - apply has13_app_r. exact H13.
Qed.

Lemma placed_mono base lines all all' d : (forall x, In x all -> In x all') -> placed base lines all d -> placed base lines all' d.
Proof.
  intros Hi [k [Hk [Hl H]]]. exists k. split; [exact Hk|]. split; [exact Hl|].
  destruct H as [H|[d' [H1 H2]]]; [left; exact H|right]. exists d'. split; [apply Hi; exact H1|exact H2].
Qed.

Lemma run_lines_ok cb ca bl : forall lines ln st,
  exists new, l_diags (run_lines cb ca bl ln lines st) = l_diags st ++ new /\ Forall (placed (S ln) lines new) new.
Proof.
  induction lines as [|l t IH]; intros ln st; cbn [run_lines].
  - exists []. split; [rewrite app_nil_r; reflexivity|constructor].
  - destruct (step_ok cb ca bl (S ln) l st) as [n1 [E1 H1]].
    destruct (IH (S ln) (step cb ca bl (S ln) l st)) as [n2 [E2 H2]].
    exists (n1 ++ n2). rewrite E2, E1, app_assoc. split; [reflexivity|].
    apply Forall_app. split.
    + assert (Hline : Forall (fun d => dg_line d = S ln) n1).
      { destruct H1 as [H1|[H1 _]]; (eapply Forall_impl; [|exact H1]); intros d [Hd _]; exact Hd. }
      apply Forall_forall. intros d Hd. rewrite Forall_forall in Hline. exists 0. cbn [length nth]. split; [lia|]. split; [rewrite (Hline d Hd); lia|].
      destruct H1 as [H1|[_ [d' [Hi Hc]]]].
      * left. rewrite Forall_forall in H1. destruct (H1 d Hd) as [_ Hq]. specialize (Hq I). exact Hq.
      * right. exists d'. split; [apply in_or_app; left; exact Hi|]. split; [exact Hc|]. rewrite (Hline d Hd), (Hline d' Hi). reflexivity.
    + apply Forall_forall. intros d Hd. rewrite Forall_forall in H2. destruct (H2 d Hd) as [k [Hk [Hl H]]].
      exists (S k). cbn [length nth]. split; [lia|]. split; [lia|].
      destruct H as [H|[d' [Hi Hc]]]; [left; exact H|right]. exists d'. split; [apply in_or_app; right; exact Hi|exact Hc].
Qed.

Lemma split_breaks_aux_nonempty : forall x cur a, split_breaks_aux x cur a <> [].
Proof.
  induction x as [|c t IH]; intros cur a; cbn [split_breaks_aux]; [discriminate|].
  destruct (N.eqb c 13); [discriminate|]. destruct (N.eqb c 10); [|apply IH]. destruct a; [apply IH|discriminate].
Qed.
Lemma nth_removelast {A} (d : A) : forall l k, k < length (removelast l) -> nth k (removelast l) d = nth k l d.
Proof.
  induction l as [|a t IH]; intros k Hk; [reflexivity|]. destruct t as [|b t']; [cbn in Hk; lia|].
  change (removelast (a :: b :: t')) with (a :: removelast (b :: t')) in *. destruct k as [|k]; [reflexivity|].
  cbn [nth]. apply IH. cbn [length] in Hk. lia.
Qed.
Lemma removelast_length {A} (l : list A) : length (removelast l) = length l - 1.
Proof.
  induction l as [|a t IH]; [reflexivity|]. destruct t as [|b t']; [reflexivity|].
  change (removelast (a :: b :: t')) with (a :: removelast (b :: t')). cbn [length] in *. lia.
Qed.
Lemma last_nth {A} (d : A) : forall l, l <> [] -> last l d = nth (length l - 1) l d.
Proof.
  induction l as [|a t IH]; intro H; [contradiction|]. destruct t as [|b t']; [reflexivity|].
  change (last (a :: b :: t') d) with (last (b :: t') d). rewrite IH by discriminate. cbn [length nth]. replace (S (S (length t')) - 1) with (S (length t')) by lia.
  cbn [nth]. replace (S (length t') - 1) with (length t') by lia. reflexivity.
Qed.

Lemma placed_here base lines all e code ln col q k :
  k < length lines -> ln = base + k -> q = nth k lines [] -> col <= length q -> placed base lines all (mkd e code ln col q).
Proof.
  intros Hk -> -> Hc. exists k. split; [exact Hk|]. split; [reflexivity|]. left. right. split; [reflexivity|]. exists col. split; [reflexivity|exact Hc].
Qed.

(* C11: in a comment whose opening and closing tokens stand alone on their lines, every diagnostic of the parse phase names a line
   of the comment, quotes exactly that source line and keeps its caret within it - or stands on a line that carries a deprecated
   tag-style annotation (reported as such by diagnostic 13 on the same line), for which the line number alone is claimed *)
Theorem parse_block_diagnostics_placed comment lineno :
  let lines := split_breaks comment in
  let o := parse_block comment lineno in
  (forall cs, bmatch re_start (hd [] lines) = Some cs -> nonempty (gtext g_start_comment (hd [] lines) cs) = false) ->
  (forall ce, bmatch re_end (last (tl lines) []) = Some ce -> nonempty (gtext g_end_comment (last (tl lines) []) ce) = false) ->
  Forall (placed lineno lines (o_diags o)) (o_diags o).
Proof.
  intros lines o Hs He. unfold o, parse_block. fold lines.
  destruct lines as [|first rest] eqn:El.
  { exfalso. unfold lines, split_breaks in El. eapply split_breaks_aux_nonempty. exact El. }
  cbn [hd tl length] in *.
  destruct (bmatch re_start first) as [cs|] eqn:Es; [|constructor].
  destruct (gspan_bounds _ _ _ g_start_code Es) as [_ Hcode].
  destruct rest as [|r1 rest'] eqn:Er.
  { cbn. constructor; [|constructor]. apply (placed_here lineno [first] _ true 1 lineno _ first 0); cbn; try reflexivity; lia. }
  rewrite <- Er in *. assert (Hrest : rest <> []) by (rewrite Er; discriminate).
  replace (Nat.eqb (S (length rest)) 1) with false by (rewrite Er; reflexivity).
  rewrite (Hs cs eq_refl). cbn [app].
  set (d2 := if nonempty (gtext g_start_code first cs) then [mkd false 2 lineno (gend g_start_code cs) first] else []).
  assert (Hd2 : forall all, Forall (placed lineno (first :: rest) all) d2).
  { intro all. unfold d2. destruct (nonempty (gtext g_start_code first cs)); fa1 ltac:(apply (placed_here lineno (first :: rest) all false 2 lineno _ first 0); cbn; try reflexivity; lia). }
  destruct (bmatch re_end (last rest [])) as [ce|] eqn:Ee.
  2:{ cbn [o_diags]. rewrite app_nil_r. apply Hd2. }
  rewrite (He ce eq_refl). rewrite !app_nil_r.
  destruct (gspan_bounds _ _ _ g_end_code Ee) as [_ Hcode2].
  set (d4 := if nonempty (gtext g_end_code (last rest []) ce) then [mkd false 4 (lineno + S (length rest) - 1) (gend g_end_code ce) (last rest [])] else []).
  assert (Hd4 : forall all, Forall (placed lineno (first :: rest) all) d4).
  { intro all. unfold d4. destruct (nonempty (gtext g_end_code (last rest []) ce)); [|constructor]. constructor; [|constructor].
    apply (placed_here lineno (first :: rest) all false 4 _ _ _ (length rest)).
    - cbn [length]. apply Nat.lt_succ_diag_r.
    - rewrite Nat.add_succ_r. cbn. rewrite Nat.sub_0_r. reflexivity.
    - clear - Hrest. destruct rest as [|x xs]; [contradiction|]. rewrite last_nth by discriminate. cbn [length].
      replace (S (length xs) - 1) with (length xs) by (clear; lia). reflexivity.
    - exact Hcode2. }
  match goal with |- context [run_lines ?a ?b ?c ?d ?e ?s] => destruct (run_lines_ok a b c e d s) as [new [Hn Hp]]; set (st := run_lines a b c d e s) in * end.
  cbn [l_diags] in Hn.
  assert (Hall : Forall (placed lineno (first :: rest) (l_diags st)) (l_diags st)).
  { rewrite Hn. apply Forall_app. split; [apply Forall_app; split; [apply Hd2|apply Hd4]|].
    apply Forall_forall. intros d Hd. rewrite Forall_forall in Hp. destruct (Hp d Hd) as [k [Hk [Hl H]]].
    exists (S k). rewrite removelast_length in Hk. cbn [length]. split; [lia|]. split; [lia|]. cbn [nth].
    destruct H as [H|[d' [Hi Hc]]].
    - left. rewrite nth_removelast in H by (rewrite removelast_length; exact Hk). exact H.
    - right. exists d'. split; [apply in_or_app; right; exact Hi|exact Hc]. }
  destruct (l_blk st); cbn [o_diags]; exact Hall.
Qed.
