From Coq Require Import List NArith Bool Lia.
From GIV.Gen Require Import BlobLayout.
Import ListNotations.
Local Open Scope N_scope.

(* ------------------------------------------------------------ bit fields of a blob seen as one little-endian integer *)
Definition getbits (x o w : N) : N := N.land (N.shiftr x o) (N.ones w).
Definition setbits (x o w v : N) : N :=
  N.lor (N.ldiff x (N.shiftl (N.ones w) o)) (N.shiftl (N.land v (N.ones w)) o).

Lemma ones_bit w n : N.testbit (N.ones w) n = (n <? w).
Proof.
  destruct (N.ltb_spec n w) as [H|H].
  - apply N.ones_spec_low. exact H.
  - apply N.ones_spec_high. exact H.
Qed.

Lemma shl_bit a o n : N.testbit (N.shiftl a o) n = if n <? o then false else N.testbit a (n - o).
Proof.
  destruct (N.ltb_spec n o) as [H|H].
  - apply N.shiftl_spec_low. exact H.
  - apply N.shiftl_spec_high'. exact H.
Qed.

Lemma setbits_bit x o w v n :
  N.testbit (setbits x o w v) n =
  if (o <=? n) && (n <? o + w) then N.testbit v (n - o) else N.testbit x n.
Proof.
  unfold setbits. rewrite N.lor_spec, N.ldiff_spec, !shl_bit, N.land_spec, !ones_bit.
  destruct (N.ltb_spec n o) as [H1|H1].
  - assert (E : (o <=? n) = false) by (apply N.leb_gt; exact H1). rewrite E. simpl.
    rewrite andb_true_r, orb_false_r. reflexivity.
  - assert (E : (o <=? n) = true) by (apply N.leb_le; exact H1). rewrite E. simpl.
    destruct (N.ltb_spec (n - o) w) as [H2|H2].
    + assert (E2 : (n <? o + w) = true) by (apply N.ltb_lt; lia). rewrite E2. simpl.
      rewrite andb_false_r, andb_true_r. reflexivity.
    + assert (E2 : (n <? o + w) = false) by (apply N.ltb_ge; lia). rewrite E2. simpl.
      rewrite andb_true_r, andb_false_r, orb_false_r. reflexivity.
Qed.

Lemma getbits_bit x o w n : N.testbit (getbits x o w) n = N.testbit x (n + o) && (n <? w).
Proof. unfold getbits. rewrite N.land_spec, N.shiftr_spec', ones_bit. reflexivity. Qed.

(* writing a member and reading it back gives the value (truncated to the member's width) *)
Theorem get_set_same x o w v : getbits (setbits x o w v) o w = N.land v (N.ones w).
Proof.
  apply N.bits_inj. intro n. rewrite getbits_bit, setbits_bit, N.land_spec, ones_bit.
  destruct (N.ltb_spec n w) as [H|H].
  - assert (E : ((o <=? n + o) && (n + o <? o + w)) = true).
    { apply andb_true_iff. split; [apply N.leb_le; lia|apply N.ltb_lt; lia]. }
    rewrite E. replace (n + o - o) with n by lia. rewrite andb_true_r. reflexivity.
  - rewrite !andb_false_r. reflexivity.
Qed.

(* ... and leaves every member that does not overlap it untouched *)
Theorem get_set_other x o w v o2 w2 : (o2 + w2 <= o \/ o + w <= o2) ->
  getbits (setbits x o w v) o2 w2 = getbits x o2 w2.
Proof.
  intro Hd. apply N.bits_inj. intro n. rewrite !getbits_bit, setbits_bit.
  destruct (N.ltb_spec n w2) as [H|H]; [|rewrite !andb_false_r; reflexivity].
  assert (E : ((o <=? n + o2) && (n + o2 <? o + w)) = false).
  { apply andb_false_iff. destruct Hd as [Hd|Hd]; [left; apply N.leb_gt; lia|right; apply N.ltb_ge; lia]. }
  rewrite E. reflexivity.
Qed.

(* encoding a whole blob: members one after the other *)
Fixpoint encode (fields : list (N * N)) (values : list N) (x : N) : N :=
  match fields, values with
  | (o, w) :: ft, v :: vt => encode ft vt (setbits x o w v)
  | _, _ => x
  end.

Fixpoint disjoint_from (f : N * N) (l : list (N * N)) : Prop :=
  match l with
  | [] => True
  | g :: t => (fst g + snd g <= fst f \/ fst f + snd f <= fst g) /\ disjoint_from f t
  end.
Fixpoint pairwise_disjoint (l : list (N * N)) : Prop :=
  match l with [] => True | f :: t => disjoint_from f t /\ pairwise_disjoint t end.

Lemma encode_keeps fields : forall values x o w, disjoint_from (o, w) fields ->
  getbits (encode fields values x) o w = getbits x o w.
Proof.
  induction fields as [|[o1 w1] ft IH]; intros values x o w Hd; simpl; [reflexivity|].
  destruct values as [|v vt]; [reflexivity|]. simpl in Hd. destruct Hd as [H1 H2].
  rewrite IH by exact H2. apply get_set_other. simpl in H1. lia.
Qed.

(* decode (encode blob) = blob, member by member, for any list of non-overlapping members
   whose values fit their widths: the format's "16-bit limits" are these width hypotheses *)
Theorem blob_roundtrip fields : forall values x, pairwise_disjoint fields ->
  length values = length fields ->
  Forall2 (fun f v => v < 2 ^ snd f) fields values ->
  map (fun f => getbits (encode fields values x) (fst f) (snd f)) fields = values.
Proof.
  induction fields as [|[o w] ft IH]; intros values x Hp Hl Hfit; destruct values as [|v vt]; try discriminate; [reflexivity|].
  simpl in Hp. destruct Hp as [Hd Hp]. inversion Hfit as [|? ? ? ? Hv Hrest]; subst. simpl.
  f_equal.
  - rewrite encode_keeps by exact Hd. rewrite get_set_same. simpl in Hv.
    rewrite N.land_ones. apply N.mod_small. exact Hv.
  - apply IH; [exact Hp|simpl in Hl; lia|exact Hrest].
Qed.

(* ------------------------------------------------------------ the layout regenerated from gitypelib-internal.h is well formed *)
Definition member_inside (sizes : list N) (m : N * N * N) : bool :=
  let '(si, o, w) := m in o + w <=? 8 * nth (N.to_nat si) sizes 0.
(* members of the same struct do not overlap (ArrayTypeDimension is a union of two 16-bit
   members and is excluded) *)
Definition union_struct : N := 10.
Fixpoint no_overlap (l : list (N * N * N)) : bool :=
  match l with
  | [] => true
  | (si, o, w) :: t =>
      forallb (fun m => let '(sj, o2, w2) := m in
                        negb (si =? sj) || (si =? union_struct) || (o2 + w2 <=? o) || (o + w <=? o2)) t
      && no_overlap t
  end.

Theorem layout_wellformed :
  forallb (member_inside blob_sizes) all_scalar_members = true /\ no_overlap all_scalar_members = true /\
  forallb (fun sz => sz mod 4 =? 0)
          [Header_size; DirEntry_size; ArgBlob_size; SignatureBlob_size; FunctionBlob_size; CallbackBlob_size;
           SignalBlob_size; VFuncBlob_size; PropertyBlob_size; FieldBlob_size; ValueBlob_size; ConstantBlob_size;
           AttributeBlob_size; EnumBlob_size; StructBlob_size; UnionBlob_size; ObjectBlob_size; InterfaceBlob_size;
           ArrayTypeBlob_size; InterfaceTypeBlob_size; ParamTypeBlob_size; ErrorTypeBlob_size] = true.
Proof. vm_compute. repeat split. Qed.

(* blobs whose sizes are multiples of 4, laid one after the other from an aligned start, all
   start aligned *)
Theorem offsets_aligned sizes : forall start, start mod 4 = 0 -> Forall (fun sz => sz mod 4 = 0) sizes ->
  Forall (fun off => off mod 4 = 0)
         (fst (fold_left (fun acc sz => (fst acc ++ [snd acc], snd acc + sz)) sizes ([], start))) /\
  snd (fold_left (fun acc sz => (fst acc ++ [snd acc], snd acc + sz)) sizes ([], start)) mod 4 = 0.
Proof.
  assert (H : forall sizes acc start, start mod 4 = 0 -> Forall (fun off => off mod 4 = 0) acc ->
            Forall (fun sz => sz mod 4 = 0) sizes ->
            Forall (fun off => off mod 4 = 0)
              (fst (fold_left (fun acc sz => (fst acc ++ [snd acc], snd acc + sz)) sizes (acc, start))) /\
            snd (fold_left (fun acc sz => (fst acc ++ [snd acc], snd acc + sz)) sizes (acc, start)) mod 4 = 0).
  { induction sizes0 as [|sz t IH]; intros acc start Hs Ha Hf; simpl; [split; assumption|].
    inversion Hf; subst. apply IH.
    - rewrite N.add_mod by lia. rewrite Hs, H1. reflexivity.
    - simpl. apply Forall_app. split; [exact Ha|constructor; [exact Hs|constructor]].
    - assumption. }
  intros start Hs Hf. apply H; [exact Hs|constructor|exact Hf].
Qed.
