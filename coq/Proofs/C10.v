From Coq Require Import List Arith NArith Bool String Ascii Lia.
From GIV.Lib Require Import Regex Str.
From GIV.Gen Require Import AnnNames.
From GIV.Model Require Import C02 C10.
Import ListNotations.
Local Open Scope N_scope.

(* ---------------------------------------------------------------- characters *)
Definition plain (c : N) : bool := negb (N.eqb c lpar) && negb (N.eqb c rpar).      (* not a parenthesis *)
Definition solid (c : N) : bool := plain c && negb (is_space c).                    (* neither parenthesis nor blank *)

Lemma lpar_not_space : is_space lpar = false. Proof. vm_compute. reflexivity. Qed.
Lemma rpar_not_space : is_space rpar = false. Proof. vm_compute. reflexivity. Qed.

(* ---------------------------------------------------------------- the loop inside one group *)
(* characters without parentheses, read at nesting level 1, are collected verbatim *)
Lemma ploop_body body : forall rest i buf prev st_start st_end groups,
  forallb plain body = true ->
  (body = [] -> match prev with Some p => N.eqb p lpar | None => false end = false) ->
  exists prev',
    ploop (body ++ rest) i {| ps_level := 1; ps_buf := buf; ps_prev := prev; ps_start := st_start; ps_end := st_end; ps_groups := groups |}
    = ploop rest (i + List.length body)
            {| ps_level := 1; ps_buf := rev body ++ buf; ps_prev := prev'; ps_start := st_start; ps_end := st_end; ps_groups := groups |}
    /\ match prev' with Some p => N.eqb p lpar | None => false end = false.
Proof.
  induction body as [|c t IH]; intros rest i buf prev ss se groups Hp He.
  - exists prev. cbn. rewrite Nat.add_0_r. split; [reflexivity | apply He; reflexivity].
  - cbn [forallb] in Hp. apply andb_true_iff in Hp. destruct Hp as [Hc Ht].
    unfold plain in Hc. apply andb_true_iff in Hc. destruct Hc as [Hl Hr].
    apply negb_true_iff in Hl, Hr.
    cbn [app ploop]. unfold pstep. rewrite Hl, Hr.
    cbn [ps_prev ps_level ps_buf ps_start ps_end ps_groups].
    destruct (is_space c) eqn:Sp.
    + cbn [Nat.ltb Nat.leb].
      destruct (IH rest (S i) (c :: buf) (Some c) ss se groups Ht) as [p' [E Hp']].
      { intros _. exact Hl. }
      exists p'. rewrite E. split; [|exact Hp']. cbn [List.length rev]. rewrite <- app_assoc. cbn [app].
      replace (i + S (List.length t))%nat with (S i + List.length t)%nat by lia. reflexivity.
    + destruct (IH rest (S i) (c :: buf) (Some c) ss se groups Ht) as [p' [E Hp']].
      { intros _. exact Hl. }
      exists p'. rewrite E. split; [|exact Hp']. cbn [List.length rev]. rewrite <- app_assoc. cbn [app].
      replace (i + S (List.length t))%nat with (S i + List.length t)%nat by lia. reflexivity.
Qed.

(* blanks outside parentheses are skipped *)
Lemma ploop_blanks ws : forall rest i prev st_start st_end groups,
  forallb is_space ws = true ->
  exists prev',
    ploop (ws ++ rest) i {| ps_level := 0; ps_buf := []; ps_prev := prev; ps_start := st_start; ps_end := st_end; ps_groups := groups |}
    = ploop rest (i + List.length ws)
            {| ps_level := 0; ps_buf := []; ps_prev := prev'; ps_start := st_start; ps_end := st_end; ps_groups := groups |}
    /\ (match prev with Some p => N.eqb p lpar | None => false end = false ->
        match prev' with Some p => N.eqb p lpar | None => false end = false).
Proof.
  induction ws as [|c t IH]; intros rest i prev ss se groups H.
  - exists prev. cbn. rewrite Nat.add_0_r. split; [reflexivity | auto].
  - cbn [forallb] in H. apply andb_true_iff in H. destruct H as [Hc Ht].
    assert (Hl : N.eqb c lpar = false).
    { destruct (N.eqb c lpar) eqn:E; [|reflexivity]. apply N.eqb_eq in E. rewrite E, lpar_not_space in Hc. discriminate. }
    assert (Hr : N.eqb c rpar = false).
    { destruct (N.eqb c rpar) eqn:E; [|reflexivity]. apply N.eqb_eq in E. rewrite E, rpar_not_space in Hc. discriminate. }
    cbn [app ploop]. unfold pstep. rewrite Hl, Hr, Hc. cbn [ps_level ps_buf ps_prev ps_start ps_end ps_groups Nat.ltb Nat.leb].
    destruct (IH rest (S i) (Some c) ss se groups Ht) as [p' [E Hp']].
    exists p'. rewrite E. split.
    + cbn [List.length]. replace (S i + List.length t)%nat with (i + S (List.length t))%nat by lia. reflexivity.
    + intros _. apply Hp'. exact Hl.
Qed.

(* one group "(body)" read from outside: its stripped body is appended to the groups *)
Lemma ploop_group body : forall rest i prev st_start st_end groups,
  forallb plain body = true -> body <> [] ->
  match prev with Some p => N.eqb p lpar | None => false end = false ->
  ploop (lpar :: body ++ rpar :: rest) i
        {| ps_level := 0; ps_buf := []; ps_prev := prev; ps_start := st_start; ps_end := st_end; ps_groups := groups |}
  = ploop rest (i + S (S (List.length body)))
          {| ps_level := 0; ps_buf := []; ps_prev := Some rpar; ps_start := i; ps_end := (i + S (S (List.length body)))%nat;
             ps_groups := groups ++ [strip body] |}.
Proof.
  intros rest i prev ss se groups Hp Hne Hprev.
  cbn [ploop]. unfold pstep at 1. rewrite N.eqb_refl. cbn [ps_prev]. rewrite Hprev.
  cbn [ps_level ps_buf ps_start ps_end ps_groups Nat.ltb Nat.leb Nat.eqb].
  destruct (ploop_body body (rpar :: rest) (S i) [] (Some lpar) i se groups Hp) as [p' [E Hp']].
  { intros F. contradiction. }
  rewrite E. cbn [ploop]. unfold pstep at 1.
  assert (R : N.eqb rpar lpar = false) by reflexivity. rewrite R, N.eqb_refl. cbn [ps_prev]. rewrite Hp'.
  cbn [ps_level ps_buf ps_start ps_end ps_groups]. rewrite app_nil_r, rev_involutive.
  replace (S (S i + List.length body)) with (i + S (S (List.length body)))%nat by lia.
  replace (S (S i + List.length body) ) with (i + S (S (List.length body)))%nat by lia.
  reflexivity.
Qed.

(* ---------------------------------------------------------------- a whole annotation field *)
(* items: (blanks before the group, body of the group) *)
Definition render_groups (items : list (str * str)) : str :=
  flat_map (fun wb => fst wb ++ lpar :: snd wb ++ [rpar]) items.

Lemma ploop_groups items : forall rest i prev st_start st_end groups,
  Forall (fun wb => forallb is_space (fst wb) = true /\ forallb plain (snd wb) = true /\ snd wb <> []) items ->
  match prev with Some p => N.eqb p lpar | None => false end = false ->
  exists prev' st_start' st_end',
    ploop (render_groups items ++ rest) i
          {| ps_level := 0; ps_buf := []; ps_prev := prev; ps_start := st_start; ps_end := st_end; ps_groups := groups |}
    = ploop rest (i + List.length (render_groups items))
            {| ps_level := 0; ps_buf := []; ps_prev := prev'; ps_start := st_start'; ps_end := st_end';
               ps_groups := groups ++ map (fun wb => strip (snd wb)) items |}
    /\ match prev' with Some p => N.eqb p lpar | None => false end = false
    /\ (items <> [] -> st_end' = (i + List.length (render_groups items))%nat) /\ (items = [] -> st_end' = st_end).
Proof.
  induction items as [|[w b] t IH]; intros rest i prev ss se groups H Hprev.
  - exists prev, ss, se. cbn. rewrite Nat.add_0_r, app_nil_r. repeat split; auto. intros F; congruence.
  - inversion H as [|x y [Hw [Hb Hne]] Ht]; subst. cbn [fst snd] in *.
    cbn [render_groups flat_map fst snd]. fold (render_groups t).
    rewrite <- !app_assoc. cbn [app].
    destruct (ploop_blanks w (lpar :: (b ++ [rpar]) ++ render_groups t ++ rest) i prev ss se groups Hw) as [p1 [E1 Hp1]].
    rewrite E1. rewrite <- app_assoc. cbn [app].
    rewrite (ploop_group b (render_groups t ++ rest) (i + List.length w) p1 ss se groups Hb Hne (Hp1 Hprev)).
    destruct (IH rest (i + List.length w + S (S (List.length b)))%nat (Some rpar) (i + List.length w)%nat
                 (i + List.length w + S (S (List.length b)))%nat (groups ++ [strip b]) Ht eq_refl) as [p2 [s2 [e2 [E2 [Hp2 [He2 He2']]]]]].
    exists p2, s2, e2. rewrite E2. split; [|split; [exact Hp2|split]].
    + rewrite <- app_assoc. cbn [map app fst snd].
      replace (i + List.length (w ++ lpar :: (b ++ [rpar]) ++ render_groups t))%nat
        with (i + List.length w + S (S (List.length b)) + List.length (render_groups t))%nat; [reflexivity|].
      rewrite !app_length. cbn [List.length]. rewrite !app_length. cbn [List.length]. lia.
    + intros _. destruct t as [|x t'].
      * rewrite (He2' eq_refl). cbn [render_groups flat_map]. rewrite !app_length. cbn [List.length]. rewrite !app_length. cbn. lia.
      * rewrite He2 by discriminate. rewrite !app_length. cbn [List.length]. rewrite !app_length. cbn [List.length]. lia.
    + intros F. discriminate.
Qed.

(* layout independence of the annotation field: whatever blanks stand before, between and after
   the parenthesised groups, the groups recovered are the stripped bodies, in order *)
Theorem parse_groups_layout items tail :
  Forall (fun wb => forallb is_space (fst wb) = true /\ forallb plain (snd wb) = true /\ snd wb <> []) items ->
  forallb is_space tail = true ->
  exists e, parse_groups (render_groups items ++ tail) = GOk (map (fun wb => strip (snd wb)) items) e
            /\ (items <> [] -> e = List.length (render_groups items)).
Proof.
  intros H Ht. unfold parse_groups, ps0.
  destruct (ploop_groups items tail 0 None 0%nat 0%nat [] H eq_refl) as [p [s1 [e1 [E [Hp [He _]]]]]].
  rewrite E.
  destruct (ploop_blanks tail [] (0 + List.length (render_groups items)) p s1 e1 ([] ++ map (fun wb => strip (snd wb)) items) Ht) as [p' [E' _]].
  rewrite app_nil_r in E'. rewrite E'. cbn [ploop ps_level ps_groups ps_end app].
  exists e1. split; [reflexivity|]. intros Hne. rewrite (He Hne). reflexivity.
Qed.

(* ---------------------------------------------------------------- options *)
Lemma split_sp_join opts : forall cur,
  Forall (fun o => forallb (fun c => negb (N.eqb c sp)) o = true) opts -> opts <> [] ->
  split_sp (join_sp opts) cur = match opts with
                                | o :: t => (rev cur ++ o) :: t
                                | [] => []
                                end.
Proof.
  induction opts as [|o t IH]; intros cur H Hne; [congruence|].
  inversion H as [|x y Ho Ht]; subst.
  assert (G : forall o' cur' rest, forallb (fun c => negb (N.eqb c sp)) o' = true ->
                split_sp (o' ++ rest) cur' = split_sp rest (rev o' ++ cur')).
  { induction o' as [|c r IHo]; intros cur' rest Hc; [reflexivity|]. cbn in Hc. apply andb_true_iff in Hc. destruct Hc as [Hc Hr].
    apply negb_true_iff in Hc. cbn [app split_sp]. rewrite Hc. rewrite IHo by exact Hr. cbn [rev]. rewrite <- app_assoc. reflexivity. }
  destruct t as [|o2 t'].
  - cbn [join_sp]. rewrite <- (app_nil_r o) at 1. rewrite G by exact Ho. cbn. rewrite rev_app_distr, rev_involutive. reflexivity.
  - cbn [join_sp]. rewrite G by exact Ho. cbn [split_sp]. rewrite N.eqb_refl.
    rewrite rev_app_distr, rev_involutive. f_equal.
    change (match o2 :: t' with [] => [] | [x] => x | x :: (_ :: _) as t0 => x ++ sp :: join_sp t0 end) with (join_sp (o2 :: t')).
    rewrite IH by (assumption || discriminate). reflexivity.
Qed.

Definition opt_ok (o : str) : bool := negb (match o with [] => true | _ => false end) && forallb (fun c => solid c && negb (N.eqb c 61) && negb (N.eqb c 60) && negb (N.eqb c 62)) o.

Lemma solid_not_sp c : solid c = true -> N.eqb c sp = false.
Proof.
  unfold solid. intros H. apply andb_true_iff in H. destruct H as [_ H]. apply negb_true_iff in H.
  destruct (N.eqb c sp) eqn:E; [|reflexivity]. apply N.eqb_eq in E. subst. vm_compute in H. discriminate.
Qed.

Lemma opt_ok_no_sp o : opt_ok o = true -> forallb (fun c => negb (N.eqb c sp)) o = true.
Proof.
  unfold opt_ok. intros H. apply andb_true_iff in H. destruct H as [_ H].
  apply forallb_forall. intros c Hc. rewrite forallb_forall in H. specialize (H c Hc).
  apply andb_true_iff in H. destruct H as [H _]. apply andb_true_iff in H. destruct H as [H _]. apply andb_true_iff in H. destruct H as [H _].
  rewrite (solid_not_sp c H). reflexivity.
Qed.

Lemma join_sp_no_eq opts : Forall (fun o => opt_ok o = true) opts -> existsb (N.eqb 61) (join_sp opts) = false.
Proof.
  induction opts as [|o t IH]; intros H; [reflexivity|]. inversion H as [|x y Ho Ht]; subst.
  assert (G : existsb (N.eqb 61) o = false).
  { unfold opt_ok in Ho. apply andb_true_iff in Ho. destruct Ho as [_ Ho].
    destruct (existsb (N.eqb 61) o) eqn:X; [|reflexivity]. exfalso.
    apply existsb_exists in X. destruct X as [x [Hin Hx]]. apply N.eqb_eq in Hx. subst x.
    rewrite forallb_forall in Ho. specialize (Ho 61 Hin). vm_compute in Ho. discriminate. }
  destruct t as [|o2 t']; [exact G|].
  cbn [join_sp]. rewrite existsb_app. rewrite G. cbn. apply IH. exact Ht.
Qed.

(* a list annotation's options come back as written *)
Theorem options_list_roundtrip opts :
  Forall (fun o => opt_ok o = true) opts -> opts <> [] ->
  parse_options_list (Some (join_sp opts)) = (opts, false).
Proof.
  intros H Hne. unfold parse_options_list.
  destruct (join_sp opts) as [|c r] eqn:J.
  - exfalso. destruct opts as [|o t]; [congruence|]. inversion H as [|x y Ho _]; subst.
    unfold opt_ok in Ho. apply andb_true_iff in Ho. destruct Ho as [Ho _]. destruct o; [discriminate|].
    destruct t; cbn in J; discriminate.
  - rewrite <- J. rewrite join_sp_no_eq by exact H.
    rewrite split_sp_join.
    + destruct opts; [congruence|]. reflexivity.
    + eapply Forall_impl; [|exact H]. intros a Ha. apply opt_ok_no_sp. exact Ha.
    + exact Hne.
Qed.

(* ---------------------------------------------------------------- one annotation *)
Definition name_char (c : N) : bool :=
  solid c && negb (N.eqb c 61) && negb (N.eqb c 60) && negb (N.eqb c 62) && N.eqb (ascii_lower c) c.
Definition list_name_ok (n : str) : Prop :=
  n <> [] /\ forallb name_char n = true /\ existsb (str_eqb n) dict_annotations = false /\ existsb (str_eqb n) list_annotations = true.

Definition body_of (n : str) (opts : list str) : str := match opts with [] => n | _ => n ++ sp :: join_sp opts end.

Lemma split1_nosep c x : forall cur rest, forallb (fun d => negb (N.eqb d c)) x = true ->
  split1 c (x ++ c :: rest) cur = (rev cur ++ x, Some rest) /\ split1 c x cur = (rev cur ++ x, None).
Proof.
  induction x as [|d t IH]; intros cur rest H.
  - cbn. rewrite N.eqb_refl, app_nil_r. split; reflexivity.
  - cbn [forallb] in H. apply andb_true_iff in H. destruct H as [Hd Ht]. apply negb_true_iff in Hd.
    cbn [app split1]. rewrite Hd. destruct (IH (d :: cur) rest Ht) as [A B]. rewrite A, B. cbn [rev]. rewrite <- app_assoc. split; reflexivity.
Qed.

Lemma map_id_on {A} (f : A -> A) l : Forall (fun x => f x = x) l -> map f l = l.
Proof. induction 1; cbn; [reflexivity|]. congruence. Qed.

Lemma space_is_space : is_space sp = true. Proof. vm_compute. reflexivity. Qed.

Lemma solid_facts c : solid c = true -> plain c = true /\ is_space c = false /\ N.eqb c sp = false.
Proof.
  unfold solid. intros H. apply andb_true_iff in H. destruct H as [P Q]. apply negb_true_iff in Q.
  split; [exact P|]. split; [exact Q|].
  destruct (N.eqb c sp) eqn:E; [|reflexivity]. apply N.eqb_eq in E. rewrite E, space_is_space in Q. discriminate.
Qed.

Lemma name_char_facts c : name_char c = true ->
  N.eqb c sp = false /\ N.eqb c 60 = false /\ N.eqb c 62 = false /\ ascii_lower c = c /\ plain c = true /\ is_space c = false.
Proof.
  unfold name_char. intros H.
  apply andb_true_iff in H. destruct H as [H H5]. apply andb_true_iff in H. destruct H as [H H4].
  apply andb_true_iff in H. destruct H as [H H3]. apply andb_true_iff in H. destruct H as [H H2].
  apply negb_true_iff in H2, H3, H4. apply N.eqb_eq in H5.
  destruct (solid_facts c H) as [P [Q R]]. repeat split; assumption.
Qed.

Lemma opt_char_facts c : (solid c && negb (N.eqb c 61) && negb (N.eqb c 60) && negb (N.eqb c 62)) = true ->
  N.eqb c 60 = false /\ N.eqb c 62 = false /\ plain c = true /\ is_space c = false.
Proof.
  intros H. apply andb_true_iff in H. destruct H as [H H4]. apply andb_true_iff in H. destruct H as [H H3].
  apply andb_true_iff in H. destruct H as [H H2]. apply negb_true_iff in H2, H3, H4.
  destruct (solid_facts c H) as [P [Q R]]. repeat split; assumption.
Qed.

Definition angle_free (x : str) : Prop := Forall (fun c => (if N.eqb c 60 then lpar else if N.eqb c 62 then rpar else c) = c) x.

Lemma angle_free_name n : forallb name_char n = true -> angle_free n.
Proof.
  intros H. apply Forall_forall. intros c Hc. rewrite forallb_forall in H. destruct (name_char_facts c (H c Hc)) as [_ [A [B _]]].
  rewrite A, B. reflexivity.
Qed.
Lemma angle_free_opt o : opt_ok o = true -> angle_free o.
Proof.
  unfold opt_ok. intros H. apply andb_true_iff in H. destruct H as [_ H]. apply Forall_forall. intros c Hc.
  rewrite forallb_forall in H. destruct (opt_char_facts c (H c Hc)) as [A [B _]]. rewrite A, B. reflexivity.
Qed.
Lemma angle_free_join opts : Forall (fun o => opt_ok o = true) opts -> angle_free (join_sp opts).
Proof.
  induction opts as [|o t IH]; intros H; [constructor|]. inversion H as [|x y Ho Ht]; subst.
  destruct t as [|o2 t']; [apply angle_free_opt; exact Ho|].
  cbn [join_sp]. apply Forall_app. split; [apply angle_free_opt; exact Ho|]. constructor; [reflexivity|]. apply IH. exact Ht.
Qed.

Theorem list_annotation_roundtrip n opts :
  list_name_ok n -> Forall (fun o => opt_ok o = true) opts ->
  parse_annotation (body_of n opts) = (n, AList opts, false).
Proof.
  intros [Hne [Hn [Hd Hl]]] Ho. unfold parse_annotation.
  assert (Hsp : forallb (fun d => negb (N.eqb d sp)) n = true).
  { apply forallb_forall. intros c Hc. rewrite forallb_forall in Hn. destruct (name_char_facts c (Hn c Hc)) as [A _]. rewrite A. reflexivity. }
  assert (Hlow : map ascii_lower n = n).
  { apply map_id_on. apply Forall_forall. intros c Hc. rewrite forallb_forall in Hn. destruct (name_char_facts c (Hn c Hc)) as [_ [_ [_ [A _]]]]. exact A. }
  destruct opts as [|o t].
  - cbn [body_of]. rewrite (map_id_on _ n (angle_free_name n Hn)).
    destruct (split1_nosep sp n [] [] Hsp) as [_ B]. rewrite B. cbn [rev app]. rewrite Hlow, Hd, Hl. reflexivity.
  - cbn [body_of].
    assert (AF : angle_free (n ++ sp :: join_sp (o :: t))).
    { apply Forall_app. split; [apply angle_free_name; exact Hn|]. constructor; [reflexivity|]. apply angle_free_join. exact Ho. }
    rewrite (map_id_on _ _ AF).
    destruct (split1_nosep sp n [] (join_sp (o :: t)) Hsp) as [A _]. rewrite A. cbn [rev app]. rewrite Hlow, Hd, Hl.
    rewrite options_list_roundtrip by (assumption || discriminate). reflexivity.
Qed.

(* ---------------------------------------------------------------- a serialized annotation field *)
Lemma lstrip_solid c t : is_space c = false -> lstrip (c :: t) = c :: t.
Proof. intros H. cbn [lstrip]. rewrite H. reflexivity. Qed.

Lemma strip_solid_ends x : x <> [] ->
  (forall c t, x = c :: t -> is_space c = false) -> (forall c t, rev x = c :: t -> is_space c = false) -> strip x = x.
Proof.
  intros Hne Hf Hl. unfold strip. destruct x as [|c t]; [congruence|].
  rewrite (lstrip_solid c t (Hf c t eq_refl)).
  destruct (rev (c :: t)) as [|d u] eqn:R; [apply (f_equal (@List.length _)) in R; rewrite rev_length in R; discriminate|].
  rewrite (lstrip_solid d u (Hl d u eq_refl)). rewrite <- R. apply rev_involutive.
Qed.

Lemma last_of_join opts : Forall (fun o => opt_ok o = true) opts -> opts <> [] -> forall d u, rev (join_sp opts) = d :: u -> is_space d = false.
Proof.
  induction opts as [|o t IH]; intros H Hne d u R; [congruence|]. inversion H as [|x y Ho Ht]; subst.
  destruct t as [|o2 t'].
  - cbn [join_sp] in R. unfold opt_ok in Ho. apply andb_true_iff in Ho. destruct Ho as [_ Ho]. rewrite forallb_forall in Ho.
    assert (In d o). { apply in_rev. rewrite R. left. reflexivity. }
    destruct (opt_char_facts d (Ho d H0)) as [_ [_ [_ A]]]. exact A.
  - change (join_sp (o :: o2 :: t')) with (o ++ sp :: join_sp (o2 :: t')) in R.
    rewrite rev_app_distr in R. cbn [rev] in R. rewrite <- app_assoc in R.
    destruct (rev (join_sp (o2 :: t'))) as [|e v] eqn:R2.
    + exfalso. apply (f_equal (@List.length _)) in R2. rewrite rev_length in R2.
      inversion Ht as [|x y Ho2 _]; subst. unfold opt_ok in Ho2. apply andb_true_iff in Ho2. destruct Ho2 as [Ho2 _].
      destruct o2; [discriminate|]. destruct t'; cbn in R2; [discriminate|]. rewrite app_length in R2. cbn in R2. lia.
    + cbn [app] in R. inversion R; subst. apply (IH Ht ltac:(discriminate) d v). reflexivity.
Qed.

Lemma body_plain n opts : list_name_ok n -> Forall (fun o => opt_ok o = true) opts -> forallb plain (body_of n opts) = true /\ body_of n opts <> [] /\ strip (body_of n opts) = body_of n opts.
Proof.
  intros [Hne [Hn _]] Ho.
  assert (Pn : forallb plain n = true).
  { apply forallb_forall. intros c Hc. rewrite forallb_forall in Hn. destruct (name_char_facts c (Hn c Hc)) as [_ [_ [_ [_ [A _]]]]]. exact A. }
  assert (Pj : forallb plain (join_sp opts) = true).
  { clear -Ho. induction opts as [|o t IH]; [reflexivity|]. inversion Ho as [|x y H1 H2]; subst.
    assert (Po : forallb plain o = true).
    { unfold opt_ok in H1. apply andb_true_iff in H1. destruct H1 as [_ H1]. apply forallb_forall. intros c Hc. rewrite forallb_forall in H1.
      destruct (opt_char_facts c (H1 c Hc)) as [_ [_ [A _]]]. exact A. }
    destruct t as [|o2 t']; [exact Po|]. cbn [join_sp]. rewrite forallb_app, Po. cbn. apply IH. exact H2. }
  assert (Fn : forall c t, n = c :: t -> is_space c = false).
  { intros c t E. rewrite forallb_forall in Hn. destruct (name_char_facts c (Hn c ltac:(rewrite E; left; reflexivity))) as [_ [_ [_ [_ [_ A]]]]]. exact A. }
  destruct opts as [|o t].
  - cbn [body_of]. split; [exact Pn|]. split; [exact Hne|]. apply strip_solid_ends; [exact Hne | exact Fn |].
    intros c t E. rewrite forallb_forall in Hn. assert (In c n) by (apply in_rev; rewrite E; left; reflexivity).
    destruct (name_char_facts c (Hn c H)) as [_ [_ [_ [_ [_ A]]]]]. exact A.
  - cbn [body_of]. split; [rewrite forallb_app, Pn; cbn [forallb]; rewrite Pj; reflexivity|].
    split; [destruct n; [congruence|discriminate]|].
    apply strip_solid_ends.
    + destruct n; [congruence|discriminate].
    + intros c u E. destruct n as [|c0 n']; [congruence|]. cbn in E. inversion E; subst. apply (Fn c n' eq_refl).
    + intros c u E. rewrite rev_app_distr in E. cbn [rev] in E. rewrite <- app_assoc in E.
      destruct (rev (join_sp (o :: t))) as [|d v] eqn:R.
      * exfalso. apply (f_equal (@List.length _)) in R. rewrite rev_length in R. inversion Ho as [|x y H1 _]; subst.
        unfold opt_ok in H1. apply andb_true_iff in H1. destruct H1 as [H1 _]. destruct o; [discriminate|].
        destruct t; cbn in R; [discriminate|]. rewrite app_length in R. cbn in R. lia.
      * cbn in E. inversion E; subst. apply (last_of_join (o :: t) Ho ltac:(discriminate) c v R).
Qed.

Definition items_of (bodies : list str) : list (str * str) :=
  match bodies with [] => [] | b :: t => ([], b) :: map (fun x => ([sp], x)) t end.

Lemma join_sp_cons x l : join_sp (x :: l) = x ++ flat_map (fun y => sp :: y) l.
Proof.
  revert x. induction l as [|y t IH]; intros x; [cbn; rewrite app_nil_r; reflexivity|].
  change (join_sp (x :: y :: t)) with (x ++ sp :: join_sp (y :: t)). rewrite IH. reflexivity.
Qed.

Lemma serialize_as_groups bodies :
  join_sp (map (fun b => lpar :: b ++ [rpar]) bodies) = render_groups (items_of bodies).
Proof.
  destruct bodies as [|b t]; [reflexivity|]. cbn [map]. rewrite join_sp_cons.
  cbn [items_of render_groups flat_map fst snd app]. f_equal. f_equal.
  induction t as [|b2 t IH]; [reflexivity|]. cbn [map flat_map fst snd app]. rewrite IH. reflexivity.
Qed.

(* distinct names: the ordered dictionary is the list itself *)
Lemma ann_set_fresh d k v : ~ In k (map fst d) -> ann_set d k v = d ++ [(k, v)].
Proof.
  induction d as [|[a b] t IH]; intros H; [reflexivity|]. cbn.
  destruct (str_eqb a k) eqn:E; [apply str_eqb_eq in E; subst; exfalso; apply H; left; reflexivity|].
  rewrite IH; [reflexivity|]. intros F. apply H. right. exact F.
Qed.

Definition wf_ann (a : str * list str) : Prop := list_name_ok (fst a) /\ Forall (fun o => opt_ok o = true) (snd a).

Lemma annotations_of_bodies anns : forall acc,
  Forall wf_ann anns -> NoDup (map fst acc ++ map fst anns) ->
  fold_left (fun d g => let '(n, v, _) := parse_annotation g in ann_set d n v) (map (fun a => body_of (fst a) (snd a)) anns) acc
  = acc ++ map (fun a => (fst a, AList (snd a))) anns.
Proof.
  induction anns as [|[n o] t IH]; intros acc H N; [cbn; rewrite app_nil_r; reflexivity|].
  inversion H as [|x y [Hn Ho] Ht]; subst. cbn [map fold_left fst snd] in *.
  rewrite (list_annotation_roundtrip n o Hn Ho).
  rewrite ann_set_fresh.
  - rewrite IH; [rewrite <- app_assoc; reflexivity | exact Ht |].
    rewrite map_app. cbn [map fst]. rewrite <- app_assoc. exact N.
  - intros F. apply NoDup_remove_2 in N. apply N. apply in_or_app. left. exact F.
Qed.

(* what the writer serializes for list annotations with distinct names is read back as the same
   annotations, with an empty description and no complaint *)
Theorem fields_roundtrip anns :
  Forall wf_ann anns -> NoDup (map fst anns) ->
  parse_fields (serialize_annotations (map (fun a => (fst a, AList (snd a))) anns))
  = Some (map (fun a => (fst a, AList (snd a))) anns, [], false).
Proof.
  intros H N.
  assert (S : serialize_annotations (map (fun a => (fst a, AList (snd a))) anns)
              = render_groups (items_of (map (fun a => body_of (fst a) (snd a)) anns))).
  { unfold serialize_annotations. rewrite map_map. rewrite <- serialize_as_groups. rewrite map_map. f_equal.
    apply map_ext. intros [n o]. unfold serialize_annotation. cbn [fst snd serialize_value body_of].
    destruct o as [|o1 t]; [reflexivity|]. cbn. rewrite <- app_assoc. reflexivity. }
  unfold parse_fields. rewrite S. rewrite <- (app_nil_r (render_groups _)).
  set (bodies := map (fun a => body_of (fst a) (snd a)) anns).
  assert (HI : Forall (fun wb => forallb is_space (fst wb) = true /\ forallb plain (snd wb) = true /\ snd wb <> []) (items_of bodies)).
  { assert (HB : Forall (fun b => forallb plain b = true /\ b <> []) bodies).
    { unfold bodies. apply Forall_forall. intros b Hb. apply in_map_iff in Hb. destruct Hb as [[n o] [<- Hin]].
      rewrite Forall_forall in H. destruct (H _ Hin) as [Hn Ho]. destruct (body_plain n o Hn Ho) as [A [B _]]. split; assumption. }
    destruct bodies as [|b t]; [constructor|]. inversion HB as [|x y [A B] HT]; subst. cbn [items_of]. constructor; [repeat split; assumption|].
    apply Forall_forall. intros wb Hwb. apply in_map_iff in Hwb. destruct Hwb as [x [<- Hx]]. rewrite Forall_forall in HT. destruct (HT x Hx) as [C D].
    repeat split; try assumption. }
  destruct (parse_groups_layout (items_of bodies) [] HI eq_refl) as [e [E He]]. rewrite E.
  match type of E with _ = GOk ?m _ => assert (G : m = bodies) end.
  { assert (HS : Forall (fun b => strip b = b) bodies).
    { unfold bodies. apply Forall_forall. intros b Hb. apply in_map_iff in Hb. destruct Hb as [[n o] [<- Hin]].
      rewrite Forall_forall in H. destruct (H _ Hin) as [Hn Ho]. destruct (body_plain n o Hn Ho) as [_ [_ C]]. exact C. }
    destruct bodies as [|b t]; [reflexivity|]. inversion HS as [|x y A B]; subst. cbn [items_of map snd]. rewrite A. f_equal.
    rewrite map_map. cbn [snd]. apply map_id_on. exact B. }
  rewrite G. unfold annotations_of, bodies. rewrite (annotations_of_bodies anns [] H); [|cbn; exact N]. cbn [app].
  destruct anns as [|a t].
  - cbn. rewrite skipn_nil. reflexivity.
  - rewrite He by (unfold bodies; cbn; discriminate). rewrite app_nil_r, skipn_all. cbn. reflexivity.
Qed.

(* ---------------------------------------------------------------- where errors are reported *)
Lemma ploop_fail_index x : forall i st e j, ploop x i st = PFail e j -> (i <= j < i + List.length x)%nat.
Proof.
  induction x as [|c t IH]; intros i st e j H; [discriminate|].
  cbn [ploop] in H. destruct (pstep st i c) as [st'|st'|e' j'] eqn:P.
  - apply IH in H. cbn [List.length]. lia.
  - discriminate.
  - inversion H; subst. cbn [List.length].
    assert (j = i).
    { unfold pstep in P.
      repeat match type of P with
             | (if ?b then _ else _) = _ => destruct b
             | (match ?l with O => _ | S _ => _ end) = _ => destruct l
             end; try discriminate; inversion P; reflexivity. }
    lia.
Qed.

(* an error of the annotation field is reported at a character of that field *)
Theorem error_index_in_field fields e idx :
  parse_groups fields = GErr e idx -> fields <> [] -> (idx < List.length fields)%nat.
Proof.
  unfold parse_groups. intros H Hne.
  destruct (ploop fields 0 ps0) as [st|st|e' j] eqn:P.
  - destruct (ps_level st); [discriminate|]. inversion H; subst. destruct fields; [congruence|]. cbn [List.length]. lia.
  - discriminate.
  - inversion H; subst. apply ploop_fail_index in P. lia.
Qed.

(* ---------------------------------------------------------------- descriptions *)
(* a description: begins with something that is neither blank nor parenthesis, does not end in a blank *)
Definition desc_ok (d : str) : bool :=
  match d, rev d with
  | c :: _, l :: _ => solid c && negb (is_space l)
  | _, _ => false
  end.

Lemma lstrip_blanks ws x : forallb is_space ws = true -> lstrip (ws ++ x) = lstrip x.
Proof.
  induction ws as [|c t IH]; intros H; [reflexivity|].
  cbn [forallb] in H. apply andb_true_iff in H. destruct H as [Hc Ht]. cbn [app lstrip]. rewrite Hc. exact (IH Ht).
Qed.

Lemma desc_ok_inv d : desc_ok d = true ->
  exists c t l u, d = c :: t /\ rev d = l :: u /\ solid c = true /\ is_space l = false.
Proof.
  unfold desc_ok. destruct d as [|c t]; [discriminate|]. destruct (rev (c :: t)) as [|l u] eqn:R; [discriminate|].
  intros H. apply andb_true_iff in H. destruct H as [A B]. apply negb_true_iff in B.
  exists c, t, l, u. repeat split; assumption.
Qed.

Lemma strip_blanks_desc ws d : forallb is_space ws = true -> desc_ok d = true -> strip (ws ++ d) = d.
Proof.
  intros Hw Hd. destruct (desc_ok_inv d Hd) as [c [t [l [u [E [R [Hc Hl]]]]]]].
  destruct (solid_facts c Hc) as [_ [Hs _]].
  unfold strip. rewrite (lstrip_blanks ws d Hw). rewrite E at 1. rewrite (lstrip_solid c t Hs). rewrite <- E, R.
  rewrite (lstrip_solid l u Hl). rewrite <- R. apply rev_involutive.
Qed.

(* after the groups (and blanks), a character that is neither blank nor parenthesis ends the annotation part *)
Lemma parse_groups_break items ws c rest :
  Forall (fun wb => forallb is_space (fst wb) = true /\ forallb plain (snd wb) = true /\ snd wb <> []) items ->
  forallb is_space ws = true -> solid c = true ->
  exists e, parse_groups (render_groups items ++ ws ++ c :: rest) = GOk (map (fun wb => strip (snd wb)) items) e
            /\ (items <> [] -> e = List.length (render_groups items)) /\ (items = [] -> e = 0%nat).
Proof.
  intros H Hw Hc. unfold parse_groups, ps0.
  destruct (ploop_groups items (ws ++ c :: rest) 0 None 0%nat 0%nat [] H eq_refl) as [p [s1 [e1 [E [Hp [He He0]]]]]].
  rewrite E.
  destruct (ploop_blanks ws (c :: rest) (0 + List.length (render_groups items)) p s1 e1 ([] ++ map (fun wb => strip (snd wb)) items) Hw) as [p' [E' _]].
  rewrite E'. cbn [ploop]. unfold pstep.
  destruct (solid_facts c Hc) as [Hpl [Hs _]]. unfold plain in Hpl. apply andb_true_iff in Hpl. destruct Hpl as [A B].
  apply negb_true_iff in A. apply negb_true_iff in B. rewrite A, B, Hs. cbn [ps_level ps_groups ps_end app].
  exists e1. split; [reflexivity|]. split; [intros Hne; rewrite (He Hne); reflexivity | intros H0; exact (He0 H0)].
Qed.

(* a field without annotations is its description, a leading colon included *)
Theorem description_only ws d :
  forallb is_space ws = true -> desc_ok d = true -> parse_fields (ws ++ d) = Some ([], d, false).
Proof.
  intros Hw Hd. destruct (desc_ok_inv d Hd) as [c [t [l [u [E [R [Hc Hl]]]]]]].
  unfold parse_fields. rewrite E.
  destruct (parse_groups_break [] ws c t (Forall_nil _) Hw Hc) as [e [G [_ He]]]. cbn [render_groups flat_map app] in G.
  rewrite G, (He eq_refl). cbn [skipn map]. rewrite <- E. rewrite (strip_blanks_desc ws d Hw Hd). rewrite E. reflexivity.
Qed.

(* annotations, the separating colon, the description: the annotations are read back and the
   description is what follows the colon *)
Theorem fields_with_description anns d :
  Forall wf_ann anns -> NoDup (map fst anns) -> anns <> [] -> desc_ok d = true ->
  parse_fields (serialize_annotations (map (fun a => (fst a, AList (snd a))) anns) ++ 58 :: sp :: d)
  = Some (map (fun a => (fst a, AList (snd a))) anns, sp :: d, false).
Proof.
  intros H N Hne Hd.
  assert (S : serialize_annotations (map (fun a => (fst a, AList (snd a))) anns)
              = render_groups (items_of (map (fun a => body_of (fst a) (snd a)) anns))).
  { unfold serialize_annotations. rewrite map_map. rewrite <- serialize_as_groups. rewrite map_map. f_equal.
    apply map_ext. intros [n o]. unfold serialize_annotation. cbn [fst snd serialize_value body_of].
    destruct o as [|o1 t]; [reflexivity|]. cbn. rewrite <- app_assoc. reflexivity. }
  unfold parse_fields. rewrite S.
  set (bodies := map (fun a => body_of (fst a) (snd a)) anns).
  assert (HI : Forall (fun wb => forallb is_space (fst wb) = true /\ forallb plain (snd wb) = true /\ snd wb <> []) (items_of bodies)).
  { assert (HB : Forall (fun b => forallb plain b = true /\ b <> []) bodies).
    { unfold bodies. apply Forall_forall. intros b Hb. apply in_map_iff in Hb. destruct Hb as [[n o] [<- Hin]].
      rewrite Forall_forall in H. destruct (H _ Hin) as [Hn Ho]. destruct (body_plain n o Hn Ho) as [A [B _]]. split; assumption. }
    destruct bodies as [|b t]; [constructor|]. inversion HB as [|x y [A B] HT]; subst. cbn [items_of]. constructor; [repeat split; assumption|].
    apply Forall_forall. intros wb Hwb. apply in_map_iff in Hwb. destruct Hwb as [x [<- Hx]]. rewrite Forall_forall in HT. destruct (HT x Hx) as [C D].
    repeat split; try assumption. }
  assert (Hcolon : solid 58 = true) by (vm_compute; reflexivity).
  destruct (parse_groups_break (items_of bodies) [] 58 (sp :: d) HI eq_refl Hcolon) as [e [E [He _]]]. cbn [app] in E. rewrite E.
  match type of E with _ = GOk ?m _ => assert (G : m = bodies) end.
  { assert (HS : Forall (fun b => strip b = b) bodies).
    { unfold bodies. apply Forall_forall. intros b Hb. apply in_map_iff in Hb. destruct Hb as [[n o] [<- Hin]].
      rewrite Forall_forall in H. destruct (H _ Hin) as [Hn Ho]. destruct (body_plain n o Hn Ho) as [_ [_ C]]. exact C. }
    destruct bodies as [|b t]; [reflexivity|]. inversion HS as [|x y A B]; subst. cbn [items_of map snd]. rewrite A. f_equal.
    rewrite map_map. cbn [snd]. apply map_id_on. exact B. }
  rewrite G. unfold annotations_of, bodies. rewrite (annotations_of_bodies anns [] H); [|cbn; exact N]. cbn [app].
  assert (Hb : items_of (map (fun a => body_of (fst a) (snd a)) anns) <> []).
  { destruct anns as [|a t]; [congruence|]. cbn. discriminate. }
  rewrite (He Hb).
  assert (Hsk : forall (x y : str), skipn (List.length x) (x ++ y) = y).
  { intros x y. induction x as [|a x IH]; [reflexivity|exact IH]. }
  rewrite Hsk.
  assert (Hst : strip (58 :: sp :: d) = 58 :: sp :: d).
  { destruct (desc_ok_inv d Hd) as [c [t [l [u [Ed [R [Hc Hl]]]]]]].
    apply strip_solid_ends; [discriminate| |].
    - intros c0 t0 E0. inversion E0; subst. vm_compute. reflexivity.
    - intros c0 t0 E0. cbn [rev] in E0. rewrite R in E0. cbn [app] in E0. inversion E0; subst. exact Hl. }
  rewrite Hst. rewrite N.eqb_refl.
  destruct anns as [|a t]; [congruence|]. unfold bodies.
  cbn [map items_of render_groups flat_map fst snd app List.length Nat.ltb Nat.leb]. reflexivity.
Qed.

(* ---------------------------------------------------------------- key=value options *)
(* one key=value option as written: the key has no blank and no '=', the value no blank (it may contain '=') *)
Definition render_kv (kv : str * option str) : str :=
  match snd kv with Some v => fst kv ++ 61 :: v | None => fst kv end.
Definition nosp (x : str) : bool := forallb (fun c => negb (N.eqb c sp)) x.
Definition kv_ok (kv : str * option str) : bool :=
  negb (match fst kv with [] => true | _ => false end) && nosp (fst kv) && forallb (fun c => negb (N.eqb c 61)) (fst kv)
  && match snd kv with Some v => nosp v | None => true end.

Lemma dict_set_fresh d k v : ~ In k (map fst d) -> dict_set d k v = d ++ [(k, v)].
Proof.
  induction d as [|[a b] t IH]; intros H; [reflexivity|].
  cbn [dict_set]. destruct (str_eqb a k) eqn:E.
  - apply str_eqb_eq in E. subst. exfalso. apply H. left. reflexivity.
  - cbn [app]. f_equal. apply IH. intros F. apply H. right. exact F.
Qed.

Lemma split1_render kv : kv_ok kv = true -> split1 61 (render_kv kv) [] = kv.
Proof.
  destruct kv as [k v]. unfold kv_ok, render_kv. cbn [fst snd]. intros H.
  apply andb_true_iff in H. destruct H as [H _]. apply andb_true_iff in H. destruct H as [_ Hk].
  destruct v as [v|].
  - destruct (split1_nosep 61 k [] v Hk) as [A _]. rewrite A. reflexivity.
  - destruct (split1_nosep 61 k [] [] Hk) as [_ B]. rewrite B. reflexivity.
Qed.

Lemma render_nosp kv : kv_ok kv = true -> forallb (fun c => negb (N.eqb c sp)) (render_kv kv) = true.
Proof.
  destruct kv as [k v]. unfold kv_ok, render_kv, nosp. cbn [fst snd]. intros H.
  apply andb_true_iff in H. destruct H as [H Hv]. apply andb_true_iff in H. destruct H as [H _].
  apply andb_true_iff in H. destruct H as [_ Hk].
  destruct v as [v|]; [|exact Hk].
  rewrite forallb_app. rewrite Hk. cbn [forallb]. rewrite Hv. reflexivity.
Qed.

Lemma fold_dict kvs : forall acc,
  Forall (fun kv => kv_ok kv = true) kvs -> NoDup (map fst acc ++ map fst kvs) ->
  fold_left (fun d p => let '(k, v) := split1 61 p [] in dict_set d k v) (map render_kv kvs) acc = acc ++ kvs.
Proof.
  induction kvs as [|kv t IH]; intros acc H N; [rewrite app_nil_r; reflexivity|].
  inversion H as [|x y Hkv Ht]; subst. cbn [map fold_left]. rewrite (split1_render kv Hkv).
  destruct kv as [k v]. cbn [map fst] in N.
  rewrite dict_set_fresh.
  - rewrite IH; [rewrite <- app_assoc; reflexivity | exact Ht |].
    rewrite map_app. cbn [map fst]. rewrite <- app_assoc. exact N.
  - intros F. apply NoDup_remove_2 in N. apply N. apply in_or_app. left. exact F.
Qed.

(* key=value options come back as written, in order, a value that itself contains '=' included *)
Theorem options_dict_roundtrip kvs :
  Forall (fun kv => kv_ok kv = true) kvs -> NoDup (map fst kvs) -> kvs <> [] ->
  parse_options_dict (Some (join_sp (map render_kv kvs))) = kvs.
Proof.
  intros H N Hne. unfold parse_options_dict.
  destruct (join_sp (map render_kv kvs)) as [|c r] eqn:J.
  - exfalso. destruct kvs as [|[k v] t]; [congruence|]. inversion H as [|x y Hkv _]; subst.
    unfold kv_ok in Hkv. cbn [fst snd] in Hkv. destruct k as [|c0 k']; [discriminate|].
    cbn [map] in J. unfold render_kv at 1 in J. cbn [fst snd] in J. destruct v; destruct t; cbn in J; discriminate.
  - rewrite <- J. rewrite split_sp_join.
    + match goal with |- fold_left _ ?m _ = _ =>
        assert (E : m = map render_kv kvs) by (destruct (map render_kv kvs); reflexivity); rewrite E end.
      rewrite (fold_dict kvs [] H); [reflexivity | exact N].
    + apply Forall_forall. intros p Hp. apply in_map_iff in Hp. destruct Hp as [kv [<- Hin]].
      rewrite Forall_forall in H. apply render_nosp. exact (H kv Hin).
    + destruct kvs; [congruence|discriminate].
Qed.
