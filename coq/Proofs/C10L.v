From Coq Require Import List Arith NArith Bool Lia.
From GIV.Lib Require Import Regex Str Backtrack.
From GIV.Model Require Import C02 C10 C10B C10BSpec.
Import ListNotations.
Local Open Scope N_scope.

(* C10: the three line-ending conventions cut a comment into the same lines *)
Lemma aux_plain rest : forall l cur a, plain_line l -> l <> [] ->
  split_breaks_aux (l ++ rest) cur a = split_breaks_aux rest (rev l ++ cur) false.
Proof.
  induction l as [|c t IH]; intros cur a Hp Hn; [contradiction|].
  apply Forall_cons_iff in Hp as [[H10 H13] Ht].
  cbn [app split_breaks_aux]. apply N.eqb_neq in H10, H13. rewrite H13, H10.
  destruct t as [|d t'].
  - reflexivity.
  - rewrite IH by (try exact Ht; discriminate). cbn [rev]. rewrite <- !app_assoc. reflexivity.
Qed.

Lemma aux_line rest l a : plain_line l -> (l = [] -> a = false \/ True) ->
  split_breaks_aux (l ++ rest) [] a = match l with [] => split_breaks_aux rest [] a | _ => split_breaks_aux rest (rev l) false end.
Proof.
  intros Hp _. destruct l as [|c t]; [reflexivity|]. rewrite aux_plain by (try exact Hp; discriminate). rewrite app_nil_r. reflexivity.
Qed.

Lemma last_line l a : plain_line l -> split_breaks_aux l [] a = [l].
Proof.
  intro Hp. destruct l as [|c t]; [reflexivity|].
  rewrite <- (app_nil_r (c :: t)) at 1. rewrite aux_plain by (try exact Hp; discriminate).
  cbn [split_breaks_aux]. rewrite app_nil_r, rev_involutive. reflexivity.
Qed.

Lemma split_join_lf : forall ls, ls <> [] -> Forall plain_line ls -> split_breaks_aux (join_lines [10] ls) [] false = ls.
Proof.
  induction ls as [|l t IH]; intros Hn Hp; [contradiction|]. apply Forall_cons_iff in Hp as [Hl Ht].
  destruct t as [|l2 t'].
  - cbn [join_lines]. apply last_line. exact Hl.
  - change (join_lines [10] (l :: l2 :: t')) with (l ++ [10] ++ join_lines [10] (l2 :: t')).
    rewrite aux_line by (try exact Hl; auto).
    destruct l as [|c r]; cbn [app split_breaks_aux N.eqb Pos.eqb]; rewrite ?rev_involutive; f_equal; apply IH; (discriminate || exact Ht).
Qed.

Lemma split_join_cr : forall ls a, ls <> [] -> Forall plain_line ls -> split_breaks_aux (join_lines [13] ls) [] a = ls.
Proof.
  induction ls as [|l t IH]; intros a Hn Hp; [contradiction|]. apply Forall_cons_iff in Hp as [Hl Ht].
  destruct t as [|l2 t'].
  - cbn [join_lines]. apply last_line. exact Hl.
  - change (join_lines [13] (l :: l2 :: t')) with (l ++ [13] ++ join_lines [13] (l2 :: t')).
    rewrite aux_line by (try exact Hl; auto).
    destruct l as [|c r]; cbn [app split_breaks_aux N.eqb Pos.eqb]; rewrite ?rev_involutive; f_equal; apply IH; (discriminate || exact Ht).
Qed.

Lemma split_join_crlf : forall ls a, ls <> [] -> Forall plain_line ls -> split_breaks_aux (join_lines [13; 10] ls) [] a = ls.
Proof.
  induction ls as [|l t IH]; intros a Hn Hp; [contradiction|]. apply Forall_cons_iff in Hp as [Hl Ht].
  destruct t as [|l2 t'].
  - cbn [join_lines]. apply last_line. exact Hl.
  - change (join_lines [13; 10] (l :: l2 :: t')) with (l ++ [13; 10] ++ join_lines [13; 10] (l2 :: t')).
    rewrite aux_line by (try exact Hl; auto).
    destruct l as [|c r]; cbn [app split_breaks_aux N.eqb Pos.eqb]; rewrite ?rev_involutive; f_equal; apply IH; (discriminate || exact Ht).
Qed.

Theorem split_breaks_join sep ls : sep_ok sep -> ls <> [] -> Forall plain_line ls -> split_breaks (join_lines sep ls) = ls.
Proof.
  intros [H|[H|H]] Hn Hp; subst sep; unfold split_breaks; [apply split_join_lf|apply split_join_cr|apply split_join_crlf]; assumption.
Qed.

Theorem parse_block_line_endings sep1 sep2 ls lineno : sep_ok sep1 -> sep_ok sep2 -> ls <> [] -> Forall plain_line ls ->
  parse_block (join_lines sep1 ls) lineno = parse_block (join_lines sep2 ls) lineno.
Proof.
  intros H1 H2 Hn Hp. unfold parse_block. rewrite (split_breaks_join sep1 ls H1 Hn Hp), (split_breaks_join sep2 ls H2 Hn Hp). reflexivity.
Qed.
