From Coq Require Import List Arith NArith Bool String Ascii Lia.
From GIV.Lib Require Import Regex Str.
From GIV.Model Require Import C02 C02Spec C16 C04 C04Spec.
Import ListNotations.
Local Open Scope N_scope.

(* ---------------------------------------------------------------- underscore names *)
Lemma to_lower_not_upper c : is_upper (to_lower c) = false.
Proof.
  unfold to_lower, is_upper. destruct (N.leb 65 c && N.leb c 90) eqn:E.
  - apply andb_true_iff in E. destruct E as [A B]. apply N.leb_le in A, B.
    apply andb_false_iff. right. apply N.leb_gt. lia.
  - exact E.
Qed.

Lemma uscore_no_upper name : Forall (fun c => is_upper c = false) (uscore_noprefix name).
Proof. unfold uscore_noprefix. apply Forall_forall. intros c H. apply in_map_iff in H. destruct H as [x [<- _]]. apply to_lower_not_upper. Qed.

Example uscore_examples :
  uscore_noprefix (s "TextBuffer") = s "text_buffer" /\ uscore_noprefix (s "GIOThing") = s "gio_thing"
  /\ uscore_noprefix (s "X2Y") = s "x2_y" /\ uscore_noprefix (s "Rec") = s "rec" /\ uscore_noprefix (s "DBusFoo") = s "dbus_foo".
Proof. vm_compute. repeat split; reflexivity. Qed.

(* ---------------------------------------------------------------- splitting at underscores *)
Lemma join_split_aux x : forall cur, join_us (split_us x cur) = rev cur ++ x.
Proof.
  induction x as [|c r IH]; intros cur; cbn.
  - rewrite app_nil_r. reflexivity.
  - destruct (N.eqb c us) eqn:E.
    + apply N.eqb_eq in E. subst c. specialize (IH []). cbn in IH.
      destruct (split_us r []) as [|y ys] eqn:S.
      * destruct r; cbn in S; [discriminate|]. destruct (N.eqb n us); discriminate.
      * cbn [join_us]. cbn in IH. rewrite IH. reflexivity.
    + rewrite IH. cbn. rewrite <- app_assoc. reflexivity.
Qed.

Lemma join_split x : join_us (split_us x []) = x.
Proof. apply (join_split_aux x []). Qed.

Lemma join_us_app a b : a <> [] -> b <> [] -> join_us (a ++ b) = join_us a ++ us :: join_us b.
Proof.
  induction a as [|x t IH]; intros Ha Hb; [congruence|].
  destruct t as [|y t'].
  - cbn. destruct b; [congruence|]. reflexivity.
  - cbn [app]. change (join_us (x :: y :: (t' ++ b))) with (x ++ us :: join_us (y :: (t' ++ b))).
    change (join_us (x :: y :: t')) with (x ++ us :: join_us (y :: t')).
    change (y :: (t' ++ b)) with ((y :: t') ++ b). rewrite IH by (discriminate || assumption).
    rewrite <- app_assoc. reflexivity.
Qed.

(* ---------------------------------------------------------------- longest type prefix *)
Lemma split_by_type_aux_spec types comps : forall k t suffix,
  split_by_type_aux types comps k = Some (t, suffix) ->
  exists j, (0 < j <= k)%nat /\ uscore_lookup types (join_us (firstn j comps)) None = Some t
            /\ suffix = join_us (skipn j comps)
            /\ forall j', (j < j' <= k)%nat -> uscore_lookup types (join_us (firstn j' comps)) None = None.
Proof.
  induction k as [|k IH]; intros t suffix H; [discriminate|].
  cbn [split_by_type_aux] in H.
  destruct (uscore_lookup types (join_us (firstn (S k) comps)) None) as [t0|] eqn:E.
  - inversion H; subst. exists (S k). split; [lia|]. split; [exact E|]. split; [reflexivity|]. intros j' Hj. lia.
  - destruct (IH t suffix H) as [j [Hj [Hl [Hs Hmax]]]]. exists j. split; [lia|]. split; [exact Hl|]. split; [exact Hs|].
    intros j' Hj'. destruct (Nat.eq_dec j' (S k)) as [->|N]; [exact E|]. apply Hmax. lia.
Qed.

Theorem split_by_type_spec types uscored t suffix :
  split_by_type types uscored = Some (t, suffix) ->
  let comps := split_us uscored [] in
  exists j, (0 < j <= List.length comps)%nat
            /\ uscore_lookup types (join_us (firstn j comps)) None = Some t
            /\ suffix = join_us (skipn j comps)
            /\ (forall j', (j < j' <= List.length comps)%nat -> uscore_lookup types (join_us (firstn j' comps)) None = None)
            /\ ((j < List.length comps)%nat -> uscored = join_us (firstn j comps) ++ us :: suffix)
            /\ (j = List.length comps -> uscored = join_us (firstn j comps) /\ suffix = []).
Proof.
  unfold split_by_type. intros H. cbv zeta in *. set (comps := split_us uscored []) in *.
  destruct (split_by_type_aux_spec types _ _ t suffix H) as [j [Hj [Hl [Hs Hmax]]]].
  exists j. split; [exact Hj|]. split; [exact Hl|]. split; [exact Hs|]. split; [exact Hmax|]. split.
  - intros Hlt. subst suffix. rewrite <- (join_split uscored) at 1. fold comps.
    rewrite <- (firstn_skipn j comps) at 1. apply join_us_app.
    + intros F. apply (f_equal (@List.length _)) in F. rewrite firstn_length_le in F by lia. cbn in F. lia.
    + intros F. apply (f_equal (@List.length _)) in F. rewrite skipn_length in F. cbn in F. lia.
  - intros E. split.
    + rewrite E, firstn_all. symmetry. apply join_split.
    + subst suffix. rewrite E, skipn_all. reflexivity.
Qed.

(* ---------------------------------------------------------------- pairing *)
Lemma as_static_shape types f p : as_static types f = Some p -> exists o n c, p = PStatic o n c.
Proof.
  unfold as_static. destruct (split_by_type types (fn_sub f)) as [[t name]|]; [|discriminate].
  destruct name; [discriminate|]. destruct (t_kind t); intros H; inversion H; eauto.
Qed.

(* a function becomes a method only of the type that is its first parameter (by value or through one
   pointer), which can have methods, and whose prefix followed by an underscore starts the symbol;
   the method name is what follows *)
Theorem method_conditions types f o n :
  fn_ann_method f = false ->
  pair_function types f = PMethod o n ->
  exists depth target, fn_first f = Some (o, depth) /\ (depth <= 1)%nat /\ find_type types o = Some target
                       /\ can_have_methods target = true
                       /\ startswith (uscored_prefix target (fn_sub f) ++ [us]) (fn_sub f) = true
                       /\ n = skipn (S (List.length (uscored_prefix target (fn_sub f)))) (fn_sub f).
Proof.
  intros A. unfold pair_function. destruct (is_type_meta f); [discriminate|].
  destruct (is_constructor types f) as [[origin name]|]; [discriminate|].
  destruct (as_method types f) as [p|] eqn:M.
  - intros ->. unfold as_method in M. destruct (fn_first f) as [[ft depth]|]; [|discriminate].
    destruct (find_type types ft) as [target|] eqn:FT; [|discriminate].
    destruct (can_have_methods target) eqn:CM; [|discriminate]. cbn [negb] in M.
    destruct (Nat.ltb 1 depth) eqn:D; [discriminate|]. rewrite A in M.
    destruct (startswith (uscored_prefix target (fn_sub f)) (fn_sub f)) eqn:S1; [|discriminate]. cbn [negb] in M.
    destruct (startswith (uscored_prefix target (fn_sub f) ++ [us]) (fn_sub f)) eqn:S2; [|discriminate].
    inversion M; subst. exists depth, target. apply find_some in FT as FT'. destruct FT' as [_ FN]. apply str_eqb_eq in FN. subst.
    repeat split; try assumption; try reflexivity. apply Nat.ltb_ge in D. exact D.
  - destruct (as_static types f) as [p|] eqn:St; [|discriminate]. intros ->.
    destruct (as_static_shape types f _ St) as [o' [n' [c E]]]. discriminate.
Qed.

(* a function becomes a constructor only of the type whose underscore name is the longest type
   prefix of its symbol, which can be constructed, and only when it returns that type or - for
   classes - one of its ancestors *)
Theorem constructor_conditions types f o n :
  pair_function types f = PConstructor o n ->
  exists origin rn target,
    split_by_type types (fn_sub f) = Some (origin, n) /\ t_name origin = o /\ can_construct origin = true
    /\ fn_ret f = Some rn /\ find_type types rn = Some target /\ can_construct target = true
    /\ (t_name origin = t_name target \/ (t_kind target = TClass /\ In (t_name target) (t_parents origin))).
Proof.
  unfold pair_function. destruct (is_type_meta f); [discriminate|].
  destruct (is_constructor types f) as [[origin name]|] eqn:C.
  - intros H. inversion H; subst. unfold is_constructor in C.
    destruct (negb (fn_ann_constructor f || guess_constructor (fn_symbol f))); [discriminate|].
    destruct (fn_ret f) as [rn|]; [|discriminate].
    destruct (find_type types rn) as [target|] eqn:FT; [|discriminate].
    destruct (can_construct target) eqn:CT; [|discriminate]. cbn [negb] in C.
    destruct (split_by_type types (fn_sub f)) as [[origin' name']|] eqn:S; [|discriminate].
    destruct (can_construct origin') eqn:CO; [|discriminate]. cbn [negb] in C.
    destruct (negb (fn_ann_constructor f) && match fn_first f with Some (ft, _) => str_eqb ft (t_name origin') | None => false end); [discriminate|].
    exists origin', rn, target.
    destruct (t_kind target) eqn:K.
    + destruct (str_eqb (t_name origin') (t_name target) || existsb (str_eqb (t_name target)) (t_parents origin')) eqn:E; [|discriminate].
      inversion C; subst. repeat split; try assumption; try reflexivity.
      apply orb_true_iff in E. destruct E as [E|E]; [left; apply str_eqb_eq; exact E|].
      right. split; [reflexivity|]. apply existsb_exists in E. destruct E as [x [Hx Hq]]. apply str_eqb_eq in Hq. subst. exact Hx.
    + destruct (str_eqb (t_name origin') (t_name target)) eqn:E; [|discriminate]. inversion C; subst.
      repeat split; try assumption; try reflexivity. left. apply str_eqb_eq. exact E.
    + destruct (str_eqb (t_name origin') (t_name target)) eqn:E; [|discriminate]. inversion C; subst.
      repeat split; try assumption; try reflexivity. left. apply str_eqb_eq. exact E.
    + destruct (str_eqb (t_name origin') (t_name target)) eqn:E; [|discriminate]. inversion C; subst.
      repeat split; try assumption; try reflexivity. left. apply str_eqb_eq. exact E.
    + destruct (str_eqb (t_name origin') (t_name target)) eqn:E; [|discriminate]. inversion C; subst.
      repeat split; try assumption; try reflexivity. left. apply str_eqb_eq. exact E.
  - destruct (as_method types f) as [p|] eqn:M.
    + intros ->. unfold as_method in M. destruct (fn_first f) as [[ft depth]|]; [|discriminate].
      destruct (find_type types ft); [|discriminate]. destruct (negb (can_have_methods t)); [discriminate|].
      destruct (Nat.ltb 1 depth); [discriminate|]. destruct (fn_ann_method f); [discriminate|].
      destruct (negb (startswith (uscored_prefix t (fn_sub f)) (fn_sub f))); [discriminate|].
      destruct (startswith (uscored_prefix t (fn_sub f) ++ [us]) (fn_sub f)); discriminate.
    + destruct (as_static types f) as [p|] eqn:St; [|discriminate]. intros ->.
      destruct (as_static_shape types f _ St) as [o' [n' [c E]]]. discriminate.
Qed.

(* every function is described once: exactly one occurrence of its C identifier carries no
   moved-to, and there is at most one compatibility copy *)
Theorem described_once intro f p :
  List.length (filter (fun o => match snd o with None => true | Some _ => false end) (occurrences intro f p)) = 1%nat
  /\ (List.length (occurrences intro f p) <= 2)%nat.
Proof. destruct p as [n|o n|o n|o n []|o n]; destruct intro; cbn; split; lia. Qed.

(* type-meta functions (get-type) are never paired *)
Theorem get_type_not_paired types f : is_type_meta f = true -> pair_function types f = PTop (fn_sub f).
Proof. intros H. unfold pair_function. rewrite H. reflexivity. Qed.
