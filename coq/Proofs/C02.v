From Coq Require Import List NArith Bool String Ascii Lia.
From GIV.Lib Require Import Regex Str.
From GIV.Gen Require Import TypeNames.
From GIV.Model Require Import C02.
Import ListNotations.
Local Open Scope N_scope.

(* ------------------------------------------------------------ the documented spellings, on the table of the current source *)
Definition documented : list (string * string) :=
  [("int", "gint"); ("unsigned int", "guint"); ("unsigned", "guint"); ("char", "gchar"); ("signed char", "gint8");
   ("unsigned char", "guint8"); ("short", "gshort"); ("unsigned short", "gushort"); ("long", "glong");
   ("unsigned long", "gulong"); ("float", "gfloat"); ("double", "gdouble"); ("_Bool", "gboolean"); ("bool", "gboolean");
   ("char*", "utf8"); ("gchar*", "utf8"); ("void*", "gpointer"); ("void", "none"); ("gconstpointer", "gpointer");
   ("int8_t", "gint8"); ("uint8_t", "guint8"); ("int16_t", "gint16"); ("uint16_t", "guint16"); ("int32_t", "gint32");
   ("uint32_t", "guint32"); ("int64_t", "gint64"); ("uint64_t", "guint64"); ("size_t", "gsize"); ("ssize_t", "gssize");
   ("guchar", "guint8"); ("goffset", "gint64"); ("gunichar2", "guint16"); ("gint", "gint"); ("guint64", "guint64");
   ("gboolean", "gboolean"); ("GType", "GType"); ("gunichar", "gunichar"); ("gsize", "gsize"); ("gdouble", "gdouble");
   ("int*", "gint"); ("gint**", "gint"); ("char**", "utf8")]%string.

Definition maps_to (c g : string) : bool :=
  match type_of_ctype (s c) false with GFund n => str_eqb n (s g) | _ => false end.

Theorem type_table : forallb (fun p => maps_to (fst p) (snd p)) documented = true.
Proof. vm_compute. reflexivity. Qed.

(* a returned char** (and GStrv anywhere) is an array of utf8; as a parameter it stays utf8 *)
Theorem returned_strv :
  type_of_ctype (s "char**") true = GUtf8Array /\ type_of_ctype (s "gchar**") true = GUtf8Array /\
  type_of_ctype (s "GStrv") false = GUtf8Array /\ type_of_ctype (s "char**") false = GFund (s "utf8").
Proof. vm_compute. repeat split. Qed.

(* ------------------------------------------------------------ the C spelling is kept *)
(* c:type is the spelling of the declarator tree itself, for every tree *)
Theorem ctype_kept e nm t :
  p_ctype (mk_param e nm t) = complete_type t true /\ p_raw_ctype (mk_param e nm t) = source_type t true.
Proof. split; reflexivity. Qed.

(* qualifiers never reach the type lookup: the spelling used for lookup has no "const " *)
Lemma source_type_pointer t c p : source_type (CPointer t c) p = source_type t false ++ [star].
Proof. reflexivity. Qed.

(* ------------------------------------------------------------ ownership defaults *)
Theorem transfer_defaults :
  (forall ca, param_transfer DIn ca = TNone) /\
  param_transfer DOut false = TFull /\ param_transfer DInout false = TFull /\
  param_transfer DOut true = TNone /\ param_transfer DInout true = TNone.
Proof. repeat split. Qed.

Theorem return_defaults e :
  (forall n, is_in n basic_gir_types = true -> forall c, return_transfer e (GFund n) c = Some TNone \/ n = s "none") /\
  (forall g, return_basic g true = Some TNone) /\
  return_transfer e (GFund (s "gpointer")) false = Some TNone /\
  return_transfer e (GFund (s "none")) false = Some TNone /\
  return_transfer e (GFund (s "utf8")) false = Some TFull /\
  return_transfer e (GFund (s "utf8")) true = Some TNone.
Proof.
  split; [|split; [|repeat split; vm_compute; reflexivity]].
  - intros n H c. unfold return_transfer. destruct (str_eqb n (s "none")) eqn:E.
    + right. apply str_eqb_eq. exact E.
    + left. unfold return_basic. rewrite H. reflexivity.
  - intros g. unfold return_basic. destruct g; try reflexivity.
    destruct (is_in name basic_gir_types); reflexivity.
Qed.

Theorem untyped_pointer_nullable e nm t :
  type_of_ctype (source_type t true) false = GFund (s "gpointer") -> p_nullable (mk_param e nm t) = true.
Proof. intro H. unfold mk_param. simpl. rewrite H. reflexivity. Qed.

(* ------------------------------------------------------------ callback / user-data / destroy pairing *)
Definition is_callback_class (p : param) : bool :=
  match p.(p_class) with Some KCallback | Some KAsyncReady => true | _ => false end.

(* the callback "in force" at position k of the loop started at index i with [cur] *)
Fixpoint in_force (ps : list param) (i : nat) (cur : option nat) (k : nat) : option nat :=
  match k, ps with
  | O, _ => cur
  | S k', p :: t => in_force t (S i) (if is_callback_class p then Some i else cur) k'
  | S _, [] => cur
  end.

Lemma pair_loop_spec ps : forall i cur u, In u (pair_loop ps i cur) ->
  match u with
  | UDestroy c n =>
      exists k p, nth_error ps k = Some p /\ p.(p_class) = Some KDestroyNotify /\ p.(p_name) = n /\
                  in_force ps i cur k = Some c
  | UClosure c n =>
      exists k p, nth_error ps k = Some p /\ is_any p = true /\ ends_with_data n = true /\ p.(p_name) = n /\
                  is_cb p = false /\ in_force ps i cur k = Some c
  end.
Proof.
  induction ps as [|p t IH]; intros i cur u Hin; simpl in Hin; [contradiction|].
  assert (Hshift : forall cur', (match u with
            | UDestroy c n => exists k q, nth_error t k = Some q /\ p_class q = Some KDestroyNotify /\ p_name q = n /\ in_force t (S i) cur' k = Some c
            | UClosure c n => exists k q, nth_error t k = Some q /\ is_any q = true /\ ends_with_data n = true /\ p_name q = n /\ is_cb q = false /\ in_force t (S i) cur' k = Some c
            end) -> cur' = (if is_callback_class p then Some i else cur) ->
          match u with
          | UDestroy c n => exists k q, nth_error (p :: t) k = Some q /\ p_class q = Some KDestroyNotify /\ p_name q = n /\ in_force (p :: t) i cur k = Some c
          | UClosure c n => exists k q, nth_error (p :: t) k = Some q /\ is_any q = true /\ ends_with_data n = true /\ p_name q = n /\ is_cb q = false /\ in_force (p :: t) i cur k = Some c
          end).
  { intros cur' H Hc. destruct u as [c n|c n].
    - destruct H as (k & q & H1 & H2 & H3 & H4 & H5 & H6). exists (S k), q. simpl. rewrite <- Hc. auto 10.
    - destruct H as (k & q & H1 & H2 & H3 & H4). exists (S k), q. simpl. rewrite <- Hc. auto. }
  unfold is_callback_class in Hshift.
  assert (Hgen : forall cur', cur' = (if is_callback_class p then Some i else cur) -> In u (pair_loop t (S i) cur') ->
            match u with
            | UDestroy c n => exists k q, nth_error (p :: t) k = Some q /\ p_class q = Some KDestroyNotify /\ p_name q = n /\ in_force (p :: t) i cur k = Some c
            | UClosure c n => exists k q, nth_error (p :: t) k = Some q /\ is_any q = true /\ ends_with_data n = true /\ p_name q = n /\ is_cb q = false /\ in_force (p :: t) i cur k = Some c
            end).
  { intros cur' Hc H. apply (Hshift cur'); [apply IH; exact H|exact Hc]. }
  unfold is_callback_class in Hgen.
  (* the closure / no-op branch shared by all classes that are not callbacks or destroy notifies *)
  assert (Hplain : is_cb p = false -> p_class p <> Some KDestroyNotify ->
            In u (match cur with
                  | Some c => if is_any p && ends_with_data (p_name p) then UClosure c (p_name p) :: pair_loop t (S i) cur
                              else pair_loop t (S i) cur
                  | None => pair_loop t (S i) cur
                  end) ->
            (match p_class p with Some KCallback | Some KAsyncReady => False | _ => True end) ->
            match u with
            | UDestroy c n => exists k q, nth_error (p :: t) k = Some q /\ p_class q = Some KDestroyNotify /\ p_name q = n /\ in_force (p :: t) i cur k = Some c
            | UClosure c n => exists k q, nth_error (p :: t) k = Some q /\ is_any q = true /\ ends_with_data n = true /\ p_name q = n /\ is_cb q = false /\ in_force (p :: t) i cur k = Some c
            end).
  { intros Hcb Hnd H Hcls.
    assert (Hcur : cur = (if match p_class p with Some KCallback | Some KAsyncReady => true | _ => false end then Some i else cur)).
    { destruct (p_class p) as [[]|]; try reflexivity; contradiction. }
    destruct cur as [c0|]; [|apply (Hgen None); [exact Hcur|exact H]].
    destruct (is_any p && ends_with_data (p_name p)) eqn:E; [|apply (Hgen (Some c0)); [exact Hcur|exact H]].
    destruct H as [<-|H]; [|apply (Hgen (Some c0)); [exact Hcur|exact H]].
    apply andb_true_iff in E as [E1 E2]. exists O, p. simpl. auto 10. }
  destruct (p_class p) as [[]|] eqn:Ec;
    try (apply Hplain; [unfold is_cb; rewrite Ec; reflexivity|discriminate|exact Hin|exact I]).
  - (* KCallback *) apply (Hgen (Some i)); [reflexivity|exact Hin].
  - (* KDestroyNotify *)
    destruct cur as [c0|].
    + destruct Hin as [<-|Hin].
      * exists O, p. simpl. auto.
      * apply (Hgen (Some c0)); [reflexivity|exact Hin].
    + apply (Hgen None); [reflexivity|exact Hin].
  - (* KAsyncReady *) apply (Hgen (Some i)); [reflexivity|exact Hin].
Qed.

(* the callback in force lies strictly before the position it is in force at *)
Lemma in_force_before ps : forall i cur k c, (forall c0, cur = Some c0 -> (c0 < i)%nat) ->
  in_force ps i cur k = Some c -> (c < i + k)%nat.
Proof.
  induction ps as [|p t IH]; intros i cur k c Hc H; destruct k as [|k']; simpl in H.
  - specialize (Hc c H). lia.
  - specialize (Hc c H). lia.
  - specialize (Hc c H). lia.
  - apply IH in H; [lia|]. intros c0 Hc0. destruct (is_callback_class p); [injection Hc0 as <-; lia|specialize (Hc c0 Hc0); lia].
Qed.

(* ------------------------------------------------------------ GError** *)
Theorem throws_spec ps :
  let '(ps', th) := pass3_throws ps in
  (th = false /\ ps' = ps) \/
  (th = true /\ exists last, ps = ps' ++ [last] /\ last.(p_raw_ctype) = s "GError**").
Proof.
  unfold pass3_throws. destruct (rev ps) as [|last before] eqn:E; [left; auto|].
  destruct (str_eqb (p_raw_ctype last) (s "GError**")) eqn:Es; [|left; auto].
  right. split; [reflexivity|]. exists last. split.
  - rewrite <- (rev_involutive ps), E. simpl. reflexivity.
  - apply str_eqb_eq. exact Es.
Qed.
