From Coq Require Import List Arith NArith Bool Lia.
From GIV.Lib Require Import Regex Str Backtrack BtBounds.
From GIV.Gen Require Import AnnNames UnicodeRe BlockRegex.
From GIV.Model Require Import C02 C10 C10B C10BSpec.
From GIV.Proofs Require Import C11B.
Import ListNotations.

(* C11 over the block-level model: the parser never dereferences a failed match.  First a verified sufficient condition for
   "this pattern matches every subject without a line feed" (decided by vm_compute on the patterns regenerated from the source),
   then the propagation of "no line feed" to every text the three unguarded patterns are applied to. *)

(* ---- a verified sufficient condition for "this pattern matches every string without a line feed":
   ^ skippable* (.* | (.*?)) tail   where everything in front of the .* can match the empty string and everything
   behind it can match the empty string at the end of the subject *)

Definition Kany (k : K) (x : str) (pos : nat) : Prop := forall c, k x pos c <> None.
Definition Kend (k : K) : Prop := forall p c, k [] p c <> None.

Fixpoint skippable (r : bre) : bool :=
  match r with
  | BEps => true
  | BStar _ _ => true
  | BOpt _ _ => true
  | BGroup _ a => skippable a
  | BCat a b => skippable a && skippable b
  | _ => false
  end.

Lemma star_skip ba g k : forall n x pos cs, k x pos cs <> None -> star_fix ba g k n x pos cs <> None.
Proof.
  intros n x pos cs Hk. destruct n as [|n]; cbn [star_fix]; [exact Hk|].
  destruct g.
  - destruct (ba x pos cs _); [discriminate|exact Hk].
  - destruct (k x pos cs); [discriminate|contradiction].
Qed.

Lemma skip_ok : forall r, skippable r = true -> forall k x pos, Kany k x pos -> forall cs, bm r x pos cs k <> None.
Proof.
  induction r as [|c|a IHa b IHb|a IHa b IHb|g a IHa|g a IHa|id a IHa| | |a IHa]; intros Hs k x pos Hk cs; cbn [skippable] in Hs; try discriminate.
  - cbn [bm]. apply Hk.
  - apply andb_true_iff in Hs as [Ha Hb]. cbn [bm]. apply IHa; [exact Ha|]. intro c. apply IHb; [exact Hb|exact Hk].
  - rewrite bm_star_unfold. apply star_skip. apply Hk.
  - cbn [bm]. destruct g.
    + destruct (bm a x pos cs k); [discriminate|apply Hk].
    + destruct (k x pos cs) eqn:E; [discriminate|]. exfalso. apply (Hk cs). exact E.
  - cbn [bm]. apply IHa; [exact Hs|]. intro c. apply Hk.
Qed.

(* what can match the empty string at the very end *)
Fixpoint nullable_end (r : bre) : bool :=
  match r with
  | BEps | BEol => true
  | BStar _ _ | BOpt _ _ => true
  | BGroup _ a => nullable_end a
  | BCat a b => nullable_end a && nullable_end b
  | _ => false
  end.

Lemma null_end_ok : forall r, nullable_end r = true -> forall k, Kend k -> forall pos cs, bm r [] pos cs k <> None.
Proof.
  induction r as [|c|a IHa b IHb|a IHa b IHb|g a IHa|g a IHa|id a IHa| | |a IHa]; intros Hs k Hk pos cs; cbn [nullable_end] in Hs; try discriminate.
  - cbn [bm]. apply Hk.
  - apply andb_true_iff in Hs as [Ha Hb]. cbn [bm]. apply IHa; [exact Ha|]. intros p c. apply IHb; [exact Hb|exact Hk].
  - rewrite bm_star_unfold. apply star_skip. apply Hk.
  - cbn [bm]. destruct g.
    + destruct (bm a [] pos cs k); [discriminate|apply Hk].
    + destruct (k [] pos cs) eqn:E; [discriminate|]. exfalso. apply (Hk pos cs). exact E.
  - cbn [bm]. apply IHa; [exact Hs|]. intros p c. apply Hk.
  - cbn [bm]. apply Hk.
Qed.

(* .* and .*? over a subject without line feeds: the star of a class that contains every character of the subject *)
Lemma star_fix_cls_step c g k n ch t pos cs : cls_mem c ch = true ->
  star_fix (bm (BCls c)) g k (S n) (ch :: t) pos cs =
  if g then match star_fix (bm (BCls c)) g k n t (S pos) cs with Some r => Some r | None => k (ch :: t) pos cs end
  else match k (ch :: t) pos cs with Some r => Some r | None => star_fix (bm (BCls c)) g k n t (S pos) cs end.
Proof.
  intro Hc. assert (Hne : Nat.eqb (S pos) pos = false) by (apply Nat.eqb_neq; lia).
  destruct g; cbn [star_fix bm]; rewrite Hc, Hne; reflexivity.
Qed.

Lemma star_absorb c g k : Kend k -> forall x n pos cs,
  Forall (fun ch => cls_mem c ch = true) x -> length x < n ->
  star_fix (bm (BCls c)) g k n x pos cs <> None.
Proof.
  intros Hk. induction x as [|ch t IH]; intros n pos cs Hx Hn.
  - apply star_skip. apply Hk.
  - destruct n as [|n]; [cbn in Hn; lia|].
    apply Forall_cons_iff in Hx as [Hc Ht]. rewrite (star_fix_cls_step c g k n ch t pos cs Hc).
    assert (Hrec : star_fix (bm (BCls c)) g k n t (S pos) cs <> None) by (apply IH; [exact Ht|cbn in Hn; lia]).
    destruct g.
    + destruct (star_fix (bm (BCls c)) true k n t (S pos) cs); [discriminate|contradiction].
    + destruct (k (ch :: t) pos cs); [discriminate|exact Hrec].
Qed.

Lemma no_lf_cls x : no_lf x -> Forall (fun ch => cls_mem (CNot (CChar 10)) ch = true) x.
Proof. apply Forall_impl. intros ch H. cbn [cls_mem]. apply negb_true_iff. apply N.eqb_neq. exact H. Qed.

(* the shape:  skippable ... ; absorbing star (possibly inside groups) ; nullable-at-end tail *)
Fixpoint absorbing (r : bre) : bool :=
  match r with
  | BStar _ (BCls (CNot (CChar c))) => N.eqb c 10
  | BGroup _ a => absorbing a
  | _ => false
  end.

Lemma absorb_ok : forall r, absorbing r = true -> forall k, Kend k -> forall x pos cs, no_lf x -> bm r x pos cs k <> None.
Proof.
  induction r as [|c|a IHa b IHb|a IHa b IHb|g a IHa|g a IHa|id a IHa| | |a IHa]; intros Hs k Hk x pos cs Hx; cbn [absorbing] in Hs; try discriminate.
  - destruct a as [|c| | | | | | | |]; try discriminate. destruct c as [|c'|l|c'|c1 c2]; try discriminate. destruct c' as [|c''| | |]; try discriminate.
    apply N.eqb_eq in Hs. subst c''. rewrite bm_star_unfold. apply star_absorb; [exact Hk|apply no_lf_cls; exact Hx|lia].
  - cbn [bm]. apply IHa; [exact Hs| |exact Hx]. intros p c. apply Hk.
Qed.

Fixpoint total_tail (r : bre) : bool :=
  match r with
  | BCat a b => (skippable a && total_tail b) || (absorbing a && nullable_end b)
  | _ => false
  end.

Lemma total_tail_ok : forall r, total_tail r = true -> forall k, Kend k -> forall x pos cs, no_lf x -> bm r x pos cs k <> None.
Proof.
  induction r as [|c|a IHa b IHb|a IHa b IHb|g a IHa|g a IHa|id a IHa| | |a IHa]; intros Hs k Hk x pos cs Hx; cbn [total_tail] in Hs; try discriminate.
  apply orb_true_iff in Hs as [Hs|Hs]; apply andb_true_iff in Hs as [H1 H2]; cbn [bm].
  - apply skip_ok; [exact H1|]. intro c. apply IHb; [exact H2|exact Hk|exact Hx].
  - apply absorb_ok; [exact H1| |exact Hx]. intros p c. apply null_end_ok; [exact H2|exact Hk].
Qed.

Definition total_on_lines (r : bre) : bool :=
  match r with BCat BBol r' => total_tail r' | _ => false end.

Theorem total_on_lines_ok r x : total_on_lines r = true -> no_lf x -> bmatch r x <> None.
Proof.
  intros Hs Hx. destruct r as [| |a b| | | | | | |]; try discriminate. destruct a; try discriminate. cbn [total_on_lines] in Hs.
  unfold bmatch, bmatch_at. cbn [bm]. cbn [Nat.eqb]. apply total_tail_ok; [exact Hs| |exact Hx]. intros p c. discriminate.
Qed.

(* the three patterns whose match the parser dereferences without a test *)
Lemma re_indent_total : total_on_lines re_indent = true. Proof. vm_compute. reflexivity. Qed.
Lemma re_tagver_total : total_on_lines re_tagver = true. Proof. vm_compute. reflexivity. Qed.
Lemma re_tagstab_total : total_on_lines re_tagstab = true. Proof. vm_compute. reflexivity. Qed.


#[local] Arguments bmatch : simpl never.
#[local] Arguments parse_annotations_d : simpl never.
#[local] Arguments parse_fields_d : simpl never.
#[local] Arguments parse_annotation_d : simpl never.
#[local] Arguments part_with_fields : simpl never.
#[local] Arguments attributes_transform : simpl never.
#[local] Arguments match_ident : simpl never.
#[local] Arguments py_lower : simpl never.
#[local] Arguments strip : simpl never.
#[local] Arguments part_set : simpl never.
#[local] Arguments part_get : simpl never.
#[local] Arguments ann_set : simpl never.

Ltac brk := repeat match goal with
  | |- context [match ?x with _ => _ end] => destruct x
  | |- context [if ?x then _ else _] => destruct x
  end; try reflexivity.

Lemma step_ident_exc cx cb ca bl st : l_exc (step_ident cx cb ca bl st) = l_exc st.
Proof. unfold step_ident. brk. Qed.
Lemma step_param_exc cx cs b st : l_exc (step_param cx cs b st) = l_exc st.
Proof. unfold step_param. brk. Qed.
Lemma step_deprecated_tag_exc cx cs b st : l_exc (step_deprecated_tag cx cs b st) = l_exc st.
Proof. unfold step_deprecated_tag. brk. Qed.
Lemma step_cont_exc cx b st : l_exc (step_cont cx b st) = l_exc st.
Proof. unfold step_cont. brk. Qed.

(* ---- no line feed survives into the strings the unguarded patterns are applied to *)
Lemma no_lf_skipn n x : no_lf x -> no_lf (skipn n x).
Proof. revert x. induction n as [|n IH]; intros x H; [exact H|]. destruct x as [|c t]; [exact H|]. apply IH. apply Forall_cons_iff in H. apply H. Qed.
Lemma no_lf_firstn n x : no_lf x -> no_lf (firstn n x).
Proof. revert x. induction n as [|n IH]; intros x H; [constructor|]. destruct x as [|c t]; [constructor|]. apply Forall_cons_iff in H as [H1 H2]. constructor; [exact H1|apply IH; exact H2]. Qed.
Lemma no_lf_rev x : no_lf x -> no_lf (rev x).
Proof. intro H. apply Forall_forall. intros c Hc. apply in_rev in Hc. unfold no_lf in H. rewrite Forall_forall in H. apply H. exact Hc. Qed.
Lemma no_lf_lstrip x : no_lf x -> no_lf (lstrip x).
Proof. induction x as [|c t IH]; intro H; [constructor|]. cbn [lstrip]. destruct (is_space c); [|exact H]. apply IH. apply Forall_cons_iff in H. apply H. Qed.
Lemma no_lf_strip x : no_lf x -> no_lf (strip x).
Proof. intro H. unfold strip. apply no_lf_rev, no_lf_lstrip, no_lf_rev, no_lf_lstrip. exact H. Qed.
Lemma no_lf_gtext id x cs : no_lf x -> no_lf (gtext id x cs).
Proof. intro H. unfold gtext, slice. apply no_lf_firstn, no_lf_skipn. exact H. Qed.

Lemma parse_fields_desc_no_lf popt vd ln q column fields existing :
  no_lf fields -> no_lf (snd (parse_fields_d popt vd ln q column fields existing)).
Proof.
  intro H. unfold parse_fields_d. set (r := parse_annotations_d popt ln q column fields existing).
  assert (Hd : no_lf (strip (skipn (po_end r) fields))) by (apply no_lf_strip, no_lf_skipn; exact H).
  destruct (po_success r); [|constructor].
  destruct (strip (skipn (po_end r) fields)) as [|c t] eqn:E; [constructor|].
  destruct (vd && Nat.ltb 0 (po_end r))%bool; [|exact Hd].
  destruct (N.eqb c colon); cbn [snd]; [|exact Hd]. apply Forall_cons_iff in Hd. apply Hd.
Qed.

Lemma plain_tag_part_exc ln q fcol tlow tfields : no_lf tfields -> snd (plain_tag_part ln q fcol tlow tfields) = false.
Proof.
  intro H. unfold plain_tag_part. destruct tfields as [|fc ft] eqn:Ef; [reflexivity|]. rewrite <- Ef in *. clear Ef.
  pose proof (parse_fields_desc_no_lf true true ln q fcol tfields None H) as Hd.
  destruct (parse_fields_d true true ln q fcol tfields None) as [r d]. cbn [snd] in Hd.
  destruct (po_success r); [|reflexivity].
  destruct (str_eqb tlow tag_deprecated || str_eqb tlow tag_since)%bool.
  { pose proof (total_on_lines_ok re_tagver d re_tagver_total Hd) as Hm. destruct (bmatch re_tagver d); [reflexivity|contradiction]. }
  destruct (str_eqb tlow tag_stability); [|reflexivity].
  pose proof (total_on_lines_ok re_tagstab d re_tagstab_total Hd) as Hm. destruct (bmatch re_tagstab d); [reflexivity|contradiction].
Qed.

Lemma step_tag_exc cx cs b st : no_lf (cx_line cx) -> l_exc (step_tag cx cs b st) = l_exc st.
Proof.
  intro H. unfold step_tag.
  match goal with |- context [if ?c then _ else _] => destruct c end; [rewrite step_deprecated_tag_exc; reflexivity|].
  match goal with |- context [if ?c then _ else _] => destruct c end; [reflexivity|].
  match goal with |- context [if existsb ?f return_tag_names then _ else _] => destruct (existsb f return_tag_names) end.
  { match goal with |- context [part_with_fields ?a ?b ?c ?d ?e] => destruct (part_with_fields a b c d e) end. reflexivity. }
  pose proof (plain_tag_part_exc (cx_ln cx) (cx_orig cx) (cx_co cx + gstart g_tag_fields cs)
                (py_lower (gtext g_tag_tag_name (cx_line cx) cs)) (gtext g_tag_fields (cx_line cx) cs)
                (no_lf_gtext _ _ _ H)) as He.
  match goal with |- context [plain_tag_part ?a ?b ?c ?d ?e] => destruct (plain_tag_part a b c d e) as [[tag ds] exc] end.
  cbn [snd] in He. subst exc. cbn [l_exc]. apply orb_false_r.
Qed.

Lemma step_exc cb ca bl ln line0 st : no_lf line0 -> l_exc (step cb ca bl ln line0 st) = l_exc st.
Proof.
  intro H. unfold step.
  pose proof (total_on_lines_ok re_indent line0 re_indent_total H) as Hi.
  destruct (bmatch re_indent line0) as [ci|]; [|contradiction].
  set (pre := match bmatch re_asterisk line0 with Some cs => _ | None => _ end).
  destruct pre as [co d6].
  match goal with |- context [step_cont ?c _ _] => set (cx := c) end.
  assert (Hl : no_lf (cx_line cx)) by (apply no_lf_skipn; exact H).
  cbn [l_blk].
  destruct (l_blk st) as [b|].
  2:{ rewrite step_ident_exc. cbn [l_exc]. apply orb_false_r. }
  destruct (bmatch re_parameter (skipn co line0)).
  { rewrite step_param_exc. cbn [l_exc]. apply orb_false_r. }
  match goal with |- context [if ?c then _ else _] => destruct c end; [cbn [l_exc]; apply orb_false_r|].
  destruct (bmatch re_tag (skipn co line0)).
  - match goal with |- context [if ?c then _ else _] => destruct c end.
    + rewrite step_tag_exc by exact Hl. cbn [l_exc]. apply orb_false_r.
    + rewrite step_cont_exc. cbn [l_exc]. apply orb_false_r.
  - rewrite step_cont_exc. cbn [l_exc]. apply orb_false_r.
Qed.

Lemma run_lines_exc cb ca bl : forall lines ln st, Forall no_lf lines -> l_exc (run_lines cb ca bl ln lines st) = l_exc st.
Proof.
  induction lines as [|l t IH]; intros ln st H; [reflexivity|]. cbn [run_lines].
  apply Forall_cons_iff in H as [H1 H2]. rewrite IH by exact H2. apply step_exc. exact H1.
Qed.

(* the pieces between line breaks contain none *)
Lemma split_breaks_aux_no_lf : forall x cur a, no_lf cur -> Forall no_lf (split_breaks_aux x cur a).
Proof.
  induction x as [|c t IH]; intros cur a Hc; cbn [split_breaks_aux].
  - constructor; [apply no_lf_rev; exact Hc|constructor].
  - destruct (N.eqb c 13) eqn:E13.
    { constructor; [apply no_lf_rev; exact Hc|]. apply IH. constructor. }
    destruct (N.eqb_spec c 10) as [E10|E10].
    { destruct a; [apply IH; exact Hc|]. constructor; [apply no_lf_rev; exact Hc|]. apply IH. constructor. }
    apply IH. constructor; [exact E10|exact Hc].
Qed.
Lemma removelast_Forall {A} (P : A -> Prop) l : Forall P l -> Forall P (removelast l).
Proof.
  induction l as [|a t IH]; intro H; [constructor|]. destruct t as [|b t']; [constructor|].
  change (removelast (a :: b :: t')) with (a :: removelast (b :: t')). apply Forall_cons_iff in H as [H1 H2]. constructor; [exact H1|apply IH; exact H2].
Qed.

(* C11: nowhere does the parser dereference a failed match: the three patterns it applies without a test (INDENTATION_RE,
   TAG_VALUE_VERSION_RE, TAG_VALUE_STABILITY_RE) match every text that reaches them *)
Theorem parse_block_never_raises comment lineno : o_exc (parse_block comment lineno) = false.
Proof.
  unfold parse_block.
  assert (Hl : Forall no_lf (split_breaks comment)) by (apply split_breaks_aux_no_lf; constructor).
  destruct (split_breaks comment) as [|first rest] eqn:El; cbn [hd tl].
  { exfalso. unfold split_breaks in El. eapply split_breaks_aux_nonempty. exact El. }
  destruct (bmatch re_start first) as [cs|]; [|reflexivity].
  destruct (Nat.eqb (length (first :: rest)) 1); [reflexivity|].
  apply Forall_cons_iff in Hl as [Hf Hr].
  set (cmt := gtext g_start_comment first cs).
  assert (Hl1 : Forall no_lf (if nonempty cmt then cmt :: rest else rest)).
  { destruct (nonempty cmt); [|exact Hr]. constructor; [apply no_lf_gtext; exact Hf|exact Hr]. }
  set (lines1 := if nonempty cmt then cmt :: rest else rest) in *.
  destruct (bmatch re_end (last lines1 [])) as [ce|]; [|reflexivity].
  set (cmt2 := gtext g_end_comment (last lines1 []) ce).
  assert (Hlast : no_lf (last lines1 [])).
  { clear - Hl1. induction lines1 as [|a t IH]; [constructor|]. apply Forall_cons_iff in Hl1 as [H1 H2]. destruct t; [exact H1|apply IH; exact H2]. }
  assert (Hl2 : Forall no_lf (if nonempty cmt2 then removelast lines1 ++ [cmt2] else removelast lines1)).
  { destruct (nonempty cmt2); [|apply removelast_Forall; exact Hl1]. apply Forall_app. split; [apply removelast_Forall; exact Hl1|].
    constructor; [apply no_lf_gtext; exact Hlast|constructor]. }
  match goal with |- context [run_lines ?a ?b ?c ?d ?e ?s] => pose proof (run_lines_exc a b c e d s Hl2) as Hx; set (st := run_lines a b c d e s) in * end.
  cbn [l_exc] in Hx.
  destruct (l_blk st); cbn [o_exc]; exact Hx.
Qed.

Lemma unguarded_patterns_total x : no_lf x -> bmatch re_indent x <> None /\ bmatch re_tagver x <> None /\ bmatch re_tagstab x <> None.
Proof.
  intro H. split; [|split]; apply total_on_lines_ok; try exact H; [exact re_indent_total|exact re_tagver_total|exact re_tagstab_total].
Qed.
