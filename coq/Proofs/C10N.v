From Coq Require Import List Arith NArith Bool Lia.
From GIV.Lib Require Import Regex Str Backtrack BtBounds.
From GIV.Gen Require Import AnnNames UnicodeRe BlockRegex.
From GIV.Model Require Import C02 C10 C10B C10BSpec.
From GIV.Proofs Require Import C11B C11E.
Import ListNotations.


(* C10: what the parser recovers does not depend on where a line stands on the page.  First part: every function of the
   annotation machinery computes its result - everything but the diagnostics - without looking at the quoted line and the
   column it is given. *)

Lemma opts_fst ln q c ln' q' c' o : fst (opts_list_d ln q c o) = fst (opts_list_d ln' q' c' o).
Proof. unfold opts_list_d. destruct o as [[|x t]|]; try reflexivity. destruct (find_index 61 (x :: t) 0); reflexivity. Qed.

Lemma finish_fst ln q c ln' q' c' name rest ds ds' :
  fst (finish_annotation ln q c name rest ds) = fst (finish_annotation ln' q' c' name rest ds').
Proof.
  unfold finish_annotation. destruct (existsb (str_eqb name) list_annotations).
  - pose proof (opts_fst ln q (c + length name + 2) ln' q' (c' + length name + 2) rest) as H.
    destruct (opts_list_d ln q _ rest), (opts_list_d ln' q' _ rest). cbn [fst] in *. subst. reflexivity.
  - destruct (existsb (str_eqb name) dict_annotations); reflexivity.
Qed.

Lemma parse_annotation_fst ln q c ln' q' c' a : fst (parse_annotation_d ln q c a) = fst (parse_annotation_d ln' q' c' a).
Proof.
  unfold parse_annotation_d. destruct (split1 sp _ []) as [n0 rest].
  destruct (str_eqb (py_lower n0) ann_inout_alt); [apply finish_fst|].
  destruct (str_eqb (py_lower n0) ann_attribute); [|apply finish_fst].
  pose proof (opts_fst ln q c ln' q' c' rest) as H.
  destruct (opts_list_d ln q c rest) as [l dl], (opts_list_d ln' q' c' rest) as [l' dl']. cbn [fst] in H. subst l'.
  destruct l as [|a1 [|a2 [|a3 l]]]; try reflexivity; apply finish_fst.
Qed.

(* the loop state but for the diagnostics *)
Definition pas_c (st : pas) := (pa_level st, pa_prev st, pa_buf st, pa_start st, pa_end st, pa_anns st, pa_raws st, pa_changed st).

Lemma pa_loop_content popt ln q column ln' q' column' : forall x i st st', pas_c st = pas_c st' ->
  match pa_loop popt ln q column x i st, pa_loop popt ln' q' column' x i st' with
  | PAok a, PAok b => pas_c a = pas_c b
  | PAfail _, PAfail _ => True
  | _, _ => False
  end.
Proof.
  induction x as [|c t IH]; intros i st st' H; [exact H|].
  unfold pas_c in H. injection H as H1 H2 H3 H4 H5 H6 H7 H8.
  cbn [pa_loop]. rewrite <- H1, <- H2, <- H3, <- H4, <- H5, <- H6, <- H7, <- H8.
  destruct (N.eqb c lpar).
  { destruct (match pa_prev st with Some p => N.eqb p lpar | None => false end); [exact I|]. apply IH. reflexivity. }
  destruct (N.eqb c rpar).
  { destruct (match pa_prev st with Some p => N.eqb p lpar | None => false end); [exact I|].
    destruct (pa_level st) as [|[|l]]; [exact I| |apply IH; reflexivity].
    destruct popt; [|apply IH; reflexivity].
    pose proof (parse_annotation_fst ln q (column + pa_start st) ln' q' (column' + pa_start st) (strip (rev (pa_buf st)))) as Hp.
    destruct (parse_annotation_d ln q _ _) as [r ds], (parse_annotation_d ln' q' _ _) as [r' ds']. cbn [fst] in Hp. subst r'.
    destruct r as [[name v]|]; apply IH; reflexivity. }
  destruct (is_space c); [apply IH; reflexivity|].
  destruct (pa_level st) eqn:El; [|apply IH; reflexivity].
  unfold pas_c. rewrite <- H2, <- H3, <- H4, <- H5, <- H6, <- H7, <- H8. rewrite El. rewrite <- H1. reflexivity.
Qed.

Definition po_c (r : pa_out) := (po_success r, po_anns r, po_apos r, po_raws r, po_changed r, po_end r).

Lemma po_c_eq r r' : po_success r = po_success r' -> po_anns r = po_anns r' -> po_apos r = po_apos r' -> po_raws r = po_raws r' ->
  po_changed r = po_changed r' -> po_end r = po_end r' -> po_c r = po_c r'.
Proof. intros H1 H2 H3 H4 H5 H6. unfold po_c. rewrite H1, H2, H3, H4, H5, H6. reflexivity. Qed.

Lemma parse_annotations_content popt ln q column q' column' fields existing :
  po_c (parse_annotations_d popt ln q column fields existing) = po_c (parse_annotations_d popt ln q' column' fields existing).
Proof.
  unfold parse_annotations_d.
  match goal with |- context [pa_loop popt ln q column fields 0 ?s] => set (st0 := s) end.
  pose proof (pa_loop_content popt ln q column ln q' column' fields 0 st0 st0 eq_refl) as H.
  destruct (pa_loop popt ln q column fields 0 st0) as [a|], (pa_loop popt ln q' column' fields 0 st0) as [b|]; try contradiction; [|reflexivity].
  unfold pas_c in H. injection H as H1 H2 H3 H4 H5 H6 H7 H8. rewrite <- H1.
  destruct (pa_level a); [|reflexivity]. apply po_c_eq; cbn; try reflexivity; try assumption.
Qed.

Lemma parse_fields_content popt vd ln q column q' column' fields existing :
  po_c (fst (parse_fields_d popt vd ln q column fields existing)) = po_c (fst (parse_fields_d popt vd ln q' column' fields existing))
  /\ snd (parse_fields_d popt vd ln q column fields existing) = snd (parse_fields_d popt vd ln q' column' fields existing).
Proof.
  unfold parse_fields_d. pose proof (parse_annotations_content popt ln q column q' column' fields existing) as H.
  set (r := parse_annotations_d popt ln q column fields existing) in *. set (r' := parse_annotations_d popt ln q' column' fields existing) in *.
  assert (Hc : po_c r = po_c r') by exact H.
  unfold po_c in H. injection H as H1 H2 H3 H4 H5 H6. rewrite <- H1, <- H6.
  destruct (po_success r) eqn:Es; [|split; [exact Hc|reflexivity]].
  destruct (strip (skipn (po_end r) fields)) as [|c t]; [split; [exact Hc|reflexivity]|].
  destruct (vd && Nat.ltb 0 (po_end r))%bool; [|split; [exact Hc|reflexivity]].
  destruct (N.eqb c colon); [split; [exact Hc|reflexivity]|].
  split; [|reflexivity]. apply po_c_eq; cbn; try assumption; reflexivity.
Qed.

Lemma part_with_fields_fst p ln q column q' column' fields :
  fst (part_with_fields p ln q column fields) = fst (part_with_fields p ln q' column' fields).
Proof.
  unfold part_with_fields. destruct fields as [|c t]; [reflexivity|].
  destruct (parse_fields_content true true ln q column q' column' (c :: t) None) as [H Hd].
  destruct (parse_fields_d true true ln q column (c :: t) None) as [r d], (parse_fields_d true true ln q' column' (c :: t) None) as [r' d'].
  cbn [fst snd] in *. subst d'. unfold po_c in H. injection H as H1 H2 H3 H4 H5 H6. rewrite <- H1.
  destruct (po_success r); [cbn [fst]; rewrite H2, H3; reflexivity|reflexivity].
Qed.

Lemma attributes_transform_fst ln q marker q' marker' : forall raws acc,
  fst (attributes_transform ln q marker raws acc) = fst (attributes_transform ln q' marker' raws acc).
Proof.
  induction raws as [|a t IH]; intro acc; [reflexivity|]. cbn [attributes_transform].
  pose proof (opts_fst ln q marker ln q' marker' (Some a)) as H.
  destruct (opts_list_d ln q marker (Some a)) as [o dl], (opts_list_d ln q' marker' (Some a)) as [o' dl']. cbn [fst] in H. subst o'.
  destruct o as [|o1 [|o2 [|o3 l]]]; try reflexivity.
  - specialize (IH (acc ++ sp :: o1)). destruct (attributes_transform ln q marker t _), (attributes_transform ln q' marker' t _). cbn [fst] in *. exact IH.
  - specialize (IH (acc ++ sp :: o1 ++ [61%N] ++ o2)). destruct (attributes_transform ln q marker t _), (attributes_transform ln q' marker' t _). cbn [fst] in *. exact IH.
Qed.

Lemma plain_tag_part_content ln q fcol q' fcol' tlow tfields :
  fst (fst (plain_tag_part ln q fcol tlow tfields)) = fst (fst (plain_tag_part ln q' fcol' tlow tfields))
  /\ snd (plain_tag_part ln q fcol tlow tfields) = snd (plain_tag_part ln q' fcol' tlow tfields).
Proof.
  unfold plain_tag_part. destruct tfields as [|c t]; [split; reflexivity|].
  destruct (parse_fields_content true true ln q fcol q' fcol' (c :: t) None) as [H Hd].
  destruct (parse_fields_d true true ln q fcol (c :: t) None) as [r d], (parse_fields_d true true ln q' fcol' (c :: t) None) as [r' d'].
  cbn [fst snd] in *. subst d'. unfold po_c in H. injection H as H1 H2 H3 H4 H5 H6. rewrite <- H1.
  destruct (po_success r); [|split; reflexivity].
  destruct (str_eqb tlow tag_deprecated || str_eqb tlow tag_since)%bool; [destruct (bmatch re_tagver d); split; reflexivity|].
  destruct (str_eqb tlow tag_stability); [destruct (bmatch re_tagstab d); split; reflexivity|split; reflexivity].
Qed.


#[local] Arguments parse_annotations_d : simpl never.
#[local] Arguments parse_fields_d : simpl never.
#[local] Arguments parse_annotation_d : simpl never.
#[local] Arguments part_with_fields : simpl never.
#[local] Arguments attributes_transform : simpl never.
#[local] Arguments plain_tag_part : simpl never.
#[local] Arguments match_ident : simpl never.
#[local] Arguments bmatch : simpl never.
#[local] Arguments py_lower : simpl never.
#[local] Arguments strip : simpl never.
#[local] Arguments part_set : simpl never.
#[local] Arguments part_get : simpl never.
#[local] Arguments ann_set : simpl never.
#[local] Arguments ann_get : simpl never.

(* Second part: one step of the line loop computes everything but block.indentation and the diagnostics from the text behind
   the asterisk alone. *)
Lemma lst_c_eq a b : l_blk a = l_blk b -> l_warned a = l_warned b -> l_pindent a = l_pindent b -> l_part a = l_part b ->
  l_cur a = l_cur b -> l_rseen a = l_rseen b -> l_exc a = l_exc b -> lst_c a = lst_c b.
Proof. intros H1 H2 H3 H4 H5 H6 H7. unfold lst_c. rewrite H1, H2, H3, H4, H5, H6, H7. reflexivity. Qed.
Lemma lst_c_inv a b : lst_c a = lst_c b -> l_blk a = l_blk b /\ l_warned a = l_warned b /\ l_pindent a = l_pindent b /\ l_part a = l_part b
  /\ l_cur a = l_cur b /\ l_rseen a = l_rseen b /\ l_exc a = l_exc b.
Proof. unfold lst_c. intro H. injection H as H1 H2 H3 H4 H5 H6 H7. repeat split; assumption. Qed.

Definition cx_same (a b : lctx) : Prop := cx_ln a = cx_ln b /\ cx_line a = cx_line b /\ cx_indent a = cx_indent b.

Ltac leaf := solve [apply lst_c_eq; cbn; try reflexivity; try assumption].

Lemma step_ident_c a b cb ca bl st st' : cx_same a b -> lst_c st = lst_c st' ->
  lst_c (step_ident a cb ca bl st) = lst_c (step_ident b cb ca bl st').
Proof.
  intros [Hln [Hline Hind]] Hs. apply lst_c_inv in Hs as [E1 [E2 [E3 [E4 [E5 [E6 E7]]]]]].
  unfold step_ident. rewrite <- Hln, <- Hline, <- Hind.
  destruct (match_ident (cx_line a)) as [idn|]; [|leaf].
  destruct (id_fields idn) as [[|fc ft]|]; try leaf.
  pose proof (parse_annotations_content true (cx_ln a) (cx_orig a) (cx_co a + id_fstart idn) (cx_orig b) (cx_co b + id_fstart idn) (fc :: ft) None) as H.
  set (r := parse_annotations_d true (cx_ln a) (cx_orig a) (cx_co a + id_fstart idn) (fc :: ft) None) in *.
  set (r' := parse_annotations_d true (cx_ln a) (cx_orig b) (cx_co b + id_fstart idn) (fc :: ft) None) in *.
  unfold po_c in H. injection H as H1 H2 H3 H4 H5 H6. rewrite <- H1, <- H6, <- H2, <- H3.
  destruct (po_success r); [|leaf].
  destruct (nonempty (strip (skipn (po_end r) (fc :: ft)))); leaf.
Qed.

Lemma step_param_c a b cs bk st st' : cx_same a b -> lst_c st = lst_c st' ->
  lst_c (step_param a cs bk st) = lst_c (step_param b cs bk st').
Proof.
  intros [Hln [Hline Hind]] Hs. apply lst_c_inv in Hs as [E1 [E2 [E3 [E4 [E5 [E6 E7]]]]]].
  unfold step_param. rewrite <- Hln, <- Hline, <- Hind.
  destruct (str_eqb (py_lower (gtext g_parameter_parameter_name (cx_line a) cs)) tag_returns).
  - match goal with |- context [part_with_fields ?p ?l (cx_orig a) ?c ?f] =>
      pose proof (part_with_fields_fst p l (cx_orig a) c (cx_orig b) (cx_co b + gstart g_parameter_fields cs) f) as H;
      destruct (part_with_fields p l (cx_orig a) c f) as [t1 d1], (part_with_fields p l (cx_orig b) (cx_co b + gstart g_parameter_fields cs) f) as [t2 d2] end.
    cbn [fst] in H. subst t2. leaf.
  - match goal with |- context [part_with_fields ?p ?l (cx_orig a) ?c ?f] =>
      pose proof (part_with_fields_fst p l (cx_orig a) c (cx_orig b) (cx_co b + gstart g_parameter_fields cs) f) as H;
      destruct (part_with_fields p l (cx_orig a) c f) as [t1 d1], (part_with_fields p l (cx_orig b) (cx_co b + gstart g_parameter_fields cs) f) as [t2 d2] end.
    cbn [fst] in H. subst t2. leaf.
Qed.

Lemma step_deprecated_tag_c a b cs bk st st' : cx_same a b -> lst_c st = lst_c st' ->
  lst_c (step_deprecated_tag a cs bk st) = lst_c (step_deprecated_tag b cs bk st').
Proof.
  intros [Hln [Hline Hind]] Hs. apply lst_c_inv in Hs as [E1 [E2 [E3 [E4 [E5 [E6 E7]]]]]].
  unfold step_deprecated_tag. rewrite <- Hln, <- Hline.
  set (ln := cx_ln a). set (line := cx_line a).
  destruct (str_eqb (py_lower (gtext g_tag_tag_name line cs)) tag_attributes).
  - destruct (parse_fields_content false false ln line (gstart g_tag_tag_name cs + cx_co a) line (gstart g_tag_tag_name cs + cx_co b)
                (strip (gtext g_tag_fields line cs)) None) as [H _].
    destruct (parse_fields_d false false ln line (gstart g_tag_tag_name cs + cx_co a) (strip (gtext g_tag_fields line cs)) None) as [r d],
             (parse_fields_d false false ln line (gstart g_tag_tag_name cs + cx_co b) (strip (gtext g_tag_fields line cs)) None) as [r' d'].
    cbn [fst] in H. unfold po_c in H. injection H as H1 H2 H3 H4 H5 H6. rewrite <- H1, <- H4.
    destruct (po_success r); [|leaf].
    pose proof (attributes_transform_fst ln line (gstart g_tag_tag_name cs + cx_co a) line (gstart g_tag_tag_name cs + cx_co b) (po_raws r) []) as Ht.
    destruct (attributes_transform ln line (gstart g_tag_tag_name cs + cx_co a) (po_raws r) []) as [tr dt],
             (attributes_transform ln line (gstart g_tag_tag_name cs + cx_co b) (po_raws r) []) as [tr' dt']. cbn [fst] in Ht. subst tr'.
    destruct tr as [[|tc tt]|]; try leaf.
    match goal with |- context [parse_annotation_d ln (cx_orig a) ?c ?x] =>
      pose proof (parse_annotation_fst ln (cx_orig a) c ln (cx_orig b) (cx_co b + gstart g_tag_fields cs) x) as Hp;
      destruct (parse_annotation_d ln (cx_orig a) c x) as [pa da], (parse_annotation_d ln (cx_orig b) (cx_co b + gstart g_tag_fields cs) x) as [pa' da'] end.
    cbn [fst] in Hp. subst pa'.
    destruct pa as [[nm v]|]; [|leaf].
    match goal with |- context [if ?c then _ else _] => destruct c end; leaf.
  - match goal with |- context [parse_annotation_d ln line ?c ?x] =>
      pose proof (parse_annotation_fst ln line c ln line (cx_co b + gstart g_tag_fields cs) x) as Hp;
      destruct (parse_annotation_d ln line c x) as [pa da], (parse_annotation_d ln line (cx_co b + gstart g_tag_fields cs) x) as [pa' da'] end.
    cbn [fst] in Hp. subst pa'. destruct pa as [[nm v]|]; leaf.
Qed.

Lemma step_tag_c a b cs bk st st' : cx_same a b -> lst_c st = lst_c st' ->
  lst_c (step_tag a cs bk st) = lst_c (step_tag b cs bk st').
Proof.
  intros Hsame Hs. pose proof Hsame as [Hln [Hline Hind]]. pose proof (lst_c_inv _ _ Hs) as [E1 [E2 [E3 [E4 [E5 [E6 E7]]]]]].
  unfold step_tag. rewrite <- Hln, <- Hline, <- Hind.
  match goal with |- context [if ?c then _ else _] => destruct c end.
  { apply step_deprecated_tag_c; [exact Hsame|]. apply lst_c_eq; cbn; try assumption; reflexivity. }
  match goal with |- context [if ?c then _ else _] => destruct c end; [leaf|].
  cbn [l_part l_rseen l_warned l_indent l_pindent l_cur l_diags l_exc l_blk]. rewrite <- E4, <- E6.
  match goal with |- context [if existsb ?f return_tag_names then _ else _] => destruct (existsb f return_tag_names) end.
  - match goal with |- context [part_with_fields ?p ?l (cx_orig a) ?c ?f] =>
      pose proof (part_with_fields_fst p l (cx_orig a) c (cx_orig b) (cx_co b + gstart g_tag_fields cs) f) as H;
      destruct (part_with_fields p l (cx_orig a) c f) as [t1 d1], (part_with_fields p l (cx_orig b) (cx_co b + gstart g_tag_fields cs) f) as [t2 d2] end.
    cbn [fst] in H. subst t2. leaf.
  - match goal with |- context [plain_tag_part ?l (cx_orig a) ?c ?tl ?tf] =>
      destruct (plain_tag_part_content l (cx_orig a) c (cx_orig b) (cx_co b + gstart g_tag_fields cs) tl tf) as [H1 H2];
      destruct (plain_tag_part l (cx_orig a) c tl tf) as [[t1 d1] e1], (plain_tag_part l (cx_orig b) (cx_co b + gstart g_tag_fields cs) tl tf) as [[t2 d2] e2] end.
    cbn [fst snd] in H1, H2. subst t2 e2. apply lst_c_eq; cbn; try reflexivity; try assumption. rewrite E7. reflexivity.
Qed.

Lemma step_cont_c a b bk st st' : cx_same a b -> lst_c st = lst_c st' ->
  lst_c (step_cont a bk st) = lst_c (step_cont b bk st').
Proof.
  intros [Hln [Hline Hind]] Hs. apply lst_c_inv in Hs as [E1 [E2 [E3 [E4 [E5 [E6 E7]]]]]].
  unfold step_cont. rewrite <- Hln, <- Hline, <- E4, <- E5.
  set (ln := cx_ln a). set (line := if is_empty_line (cx_line a) then cx_line a else rstrip (cx_line a)).
  assert (Hid : forall (pk_is_ident : bool),
    lst_c (let try_anns := (negb (truthy (bk_desc bk)) && pk_is_ident)%bool in
           let r := parse_annotations_d true ln (cx_orig a) (cx_co a) line (Some (bk_anns bk, bk_apos bk)) in
           if (try_anns && po_success r && po_changed r)%bool then
             add_diags (set_blk st (blk_with bk (po_anns r) (po_apos r) (bk_params bk) (bk_desc bk) (bk_tags bk))) (po_diags r)
           else add_diags (set_blk st (blk_with bk (bk_anns bk) (bk_apos bk) (bk_params bk) (add_line (bk_desc bk) line) (bk_tags bk)))
                          (if try_anns then po_diags r else []))
    = lst_c (let try_anns := (negb (truthy (bk_desc bk)) && pk_is_ident)%bool in
           let r := parse_annotations_d true ln (cx_orig b) (cx_co b) line (Some (bk_anns bk, bk_apos bk)) in
           if (try_anns && po_success r && po_changed r)%bool then
             add_diags (set_blk st' (blk_with bk (po_anns r) (po_apos r) (bk_params bk) (bk_desc bk) (bk_tags bk))) (po_diags r)
           else add_diags (set_blk st' (blk_with bk (bk_anns bk) (bk_apos bk) (bk_params bk) (add_line (bk_desc bk) line) (bk_tags bk)))
                          (if try_anns then po_diags r else []))).
  { intro pk. cbv zeta.
    pose proof (parse_annotations_content true ln (cx_orig a) (cx_co a) (cx_orig b) (cx_co b) line (Some (bk_anns bk, bk_apos bk))) as H.
    set (r := parse_annotations_d true ln (cx_orig a) (cx_co a) line (Some (bk_anns bk, bk_apos bk))) in *.
    set (r' := parse_annotations_d true ln (cx_orig b) (cx_co b) line (Some (bk_anns bk, bk_apos bk))) in *.
    unfold po_c in H. injection H as H1 H2 H3 H4 H5 H6. rewrite <- H1, <- H5, <- H2, <- H3.
    destruct (negb (truthy (bk_desc bk)) && pk && po_success r && po_changed r)%bool; leaf. }
  assert (Hupd : forall l k,
    fst (match part_get l k with
         | None => (l, [])
         | Some p =>
             if truthy (pt_desc p) then (part_set l (part_with p (pt_anns p) (pt_apos p) (add_line (pt_desc p) line) (pt_value p)), [])
             else let '(r, d) := parse_fields_d true true ln (cx_orig a) (cx_co a) line (Some (pt_anns p, pt_apos p)) in
                  if (po_success r && po_changed r)%bool then (part_set l (part_with p (po_anns r) (po_apos r) (Some d) (pt_value p)), po_diags r)
                  else (part_set l (part_with p (pt_anns p) (pt_apos p) (add_line (pt_desc p) line) (pt_value p)), po_diags r)
         end)
    = fst (match part_get l k with
         | None => (l, [])
         | Some p =>
             if truthy (pt_desc p) then (part_set l (part_with p (pt_anns p) (pt_apos p) (add_line (pt_desc p) line) (pt_value p)), [])
             else let '(r, d) := parse_fields_d true true ln (cx_orig b) (cx_co b) line (Some (pt_anns p, pt_apos p)) in
                  if (po_success r && po_changed r)%bool then (part_set l (part_with p (po_anns r) (po_apos r) (Some d) (pt_value p)), po_diags r)
                  else (part_set l (part_with p (pt_anns p) (pt_apos p) (add_line (pt_desc p) line) (pt_value p)), po_diags r)
         end)).
  { intros l k. destruct (part_get l k) as [p|]; [|reflexivity]. destruct (truthy (pt_desc p)); [reflexivity|].
    destruct (parse_fields_content true true ln (cx_orig a) (cx_co a) (cx_orig b) (cx_co b) line (Some (pt_anns p, pt_apos p))) as [H Hd].
    destruct (parse_fields_d true true ln (cx_orig a) (cx_co a) line (Some (pt_anns p, pt_apos p))) as [r d],
             (parse_fields_d true true ln (cx_orig b) (cx_co b) line (Some (pt_anns p, pt_apos p))) as [r' d'].
    cbn [fst snd] in H, Hd. subst d'. unfold po_c in H. injection H as H1 H2 H3 H4 H5 H6. rewrite <- H1, <- H5, <- H2, <- H3.
    destruct (po_success r && po_changed r)%bool; reflexivity. }
  destruct (l_part st) as [[| | |]|] eqn:Ep; try apply (Hid true); try apply (Hid false).
  all: assert (E4' : l_part st = l_part st') by (first [exact E4 | rewrite Ep; exact E4]).
  all: destruct (l_cur st) as [|k|k] eqn:Ec.
  all: assert (E5' : l_cur st = l_cur st') by (first [exact E5 | rewrite Ec; exact E5]).
  all: try (apply lst_c_eq; assumption).
  all: try (specialize (Hupd (bk_params bk) k);
            match goal with |- lst_c (let '(_, _) := ?e1 in _) = lst_c (let '(_, _) := ?e2 in _) => destruct e1 as [p1 d1], e2 as [p2 d2] end;
            cbn [fst] in Hupd; subst p2; apply lst_c_eq; cbn; try reflexivity; assumption).
  all: specialize (Hupd (bk_tags bk) k);
       match goal with |- lst_c (let '(_, _) := ?e1 in _) = lst_c (let '(_, _) := ?e2 in _) => destruct e1 as [p1 d1], e2 as [p2 d2] end;
       cbn [fst] in Hupd; subst p2; apply lst_c_eq; cbn; try reflexivity; assumption.
Qed.


(* Third part: what COMMENT_ASTERISK_RE does with a line  <blanks> * <text> , by symbolic evaluation of the backtracking matcher. *)

Definition stops (c : cls) (x : str) : Prop := match x with [] => True | h :: _ => cls_mem c h = false end.

Lemma star_fix_stop c k n x pos cs : stops c x -> star_fix (bm (BCls c)) true k (S n) x pos cs = k x pos cs.
Proof.
  intro H. cbn [star_fix bm]. destruct x as [|h t]; [reflexivity|]. cbn in H. rewrite H. reflexivity.
Qed.

Lemma star_greedy_run c k r : forall w n s' pos cs,
  Forall (fun x => cls_mem c x = true) w -> stops c s' -> length w < n ->
  k s' (pos + length w) cs = Some r -> star_fix (bm (BCls c)) true k n (w ++ s') pos cs = Some r.
Proof.
  induction w as [|h t IH]; intros n s' pos cs Hw Hs Hn Hk.
  - destruct n as [|n]; [lia|]. cbn [app]. rewrite star_fix_stop by exact Hs. rewrite Nat.add_0_r in Hk. exact Hk.
  - destruct n as [|n]; [cbn in Hn; lia|]. apply Forall_cons_iff in Hw as [Hh Ht]. cbn [app].
    rewrite (star_fix_cls_step c true k n h (t ++ s') pos cs Hh).
    rewrite (IH n s' (S pos) cs Ht Hs); [reflexivity|cbn in Hn; lia|]. cbn [length] in Hk. replace (S pos + length t) with (pos + S (length t)) by lia. exact Hk.
Qed.

Lemma bm_star_greedy_run c w s' pos cs k r :
  Forall (fun x => cls_mem c x = true) w -> stops c s' -> k s' (pos + length w) cs = Some r ->
  bm (BStar true (BCls c)) (w ++ s') pos cs k = Some r.
Proof. intros Hw Hs Hk. rewrite bm_star_unfold. apply star_greedy_run; try assumption. rewrite app_length. lia. Qed.

Lemma bm_star_lazy_now a x pos cs k r : k x pos cs = Some r -> bm (BStar false a) x pos cs k = Some r.
Proof. intro Hk. rewrite bm_star_unfold. cbn [star_fix]. rewrite Hk. reflexivity. Qed.

Definition delta (rest : str) : nat := match rest with h :: _ => if cls_mem sp_cls h then 1 else 0 | [] => 0 end.

Lemma star_not_space : cls_mem sp_cls 42%N = false. Proof. vm_compute. reflexivity. Qed.

Lemma re_asterisk_shape : re_asterisk =
  BCat BBol (BCat (BStar true (BCls sp_cls)) (BCat (BGroup g_asterisk_comment (BStar false (BCls (CNot (CChar 10)))))
    (BCat (BStar true (BCls sp_cls)) (BCat (BCls (CChar 42)) (BOpt true (BCls sp_cls)))))).
Proof. reflexivity. Qed.

Lemma bm_cat_star_run c b w s' pos cs k r :
  Forall (fun x => cls_mem c x = true) w -> stops c s' -> bm b s' (pos + length w) cs k = Some r ->
  bm (BCat (BStar true (BCls c)) b) (w ++ s') pos cs k = Some r.
Proof.
  intros Hw Hs Hk. change (bm (BStar true (BCls c)) (w ++ s') pos cs (fun s0 p0 c0 => bm b s0 p0 c0 k) = Some r).
  apply bm_star_greedy_run; assumption.
Qed.
Lemma bm_cat_group_lazy id a b x pos cs k r :
  bm b x pos ((id, (pos, pos)) :: cs) k = Some r -> bm (BCat (BGroup id (BStar false a)) b) x pos cs k = Some r.
Proof.
  intro Hk. change (bm (BStar false a) x pos cs (fun s0 p0 c0 => bm b s0 p0 ((id, (pos, p0)) :: c0) k) = Some r).
  apply bm_star_lazy_now. exact Hk.
Qed.
Lemma bm_cat_cls c b h t pos cs k r : cls_mem c h = true -> bm b t (S pos) cs k = Some r -> bm (BCat (BCls c) b) (h :: t) pos cs k = Some r.
Proof. intros Hc Hk. cbn [bm]. rewrite Hc. exact Hk. Qed.

Lemma asterisk_match ind rest : Forall (fun x => cls_mem sp_cls x = true) ind ->
  bmatch re_asterisk (ind ++ 42%N :: rest)
  = Some [(0, (0, length ind + 1 + delta rest)); (g_asterisk_comment, (length ind, length ind))].
Proof.
  intro Hi. rewrite re_asterisk_shape. unfold bmatch, bmatch_at.
  change (bm (BCat BBol ?b) ?s 0 ?c ?k) with (bm b s 0 c k).
  apply bm_cat_star_run; [exact Hi|cbn; exact star_not_space|]. cbn [Nat.add].
  apply bm_cat_group_lazy.
  change (42%N :: rest) with ([] ++ 42%N :: rest).
  apply bm_cat_star_run; [constructor|cbn; exact star_not_space|]. cbn [app length]. rewrite Nat.add_0_r.
  apply bm_cat_cls; [reflexivity|].
  unfold delta. destruct rest as [|h t]; cbn [bm].
  - repeat f_equal; lia.
  - destruct (cls_mem sp_cls h); repeat f_equal; lia.
Qed.

Lemma blanks_space ind : blanks ind -> Forall (fun x => cls_mem sp_cls x = true) ind.
Proof. apply Forall_impl. intros x [H _]. exact H. Qed.
Lemma blanks_no_lf ind : blanks ind -> no_lf ind.
Proof. apply Forall_impl. intros x [_ H]. exact H. Qed.

Lemma prelude ln ind rest : blanks ind ->
  (match bmatch re_asterisk (ind ++ 42%N :: rest) with
   | Some cs => (gend 0 cs, if nonempty (gtext g_asterisk_comment (ind ++ 42%N :: rest) cs)
                            then [mkd true 6 ln (gstart g_asterisk_comment cs) (ind ++ 42%N :: rest)] else [])
   | None => (0, [])
   end) = (length ind + 1 + delta rest, []).
Proof.
  intro H. rewrite (asterisk_match ind rest (blanks_space _ H)).
  unfold gend, gstart, gtext, gspan, g_asterisk_comment. cbn [Backtrack.lookup Nat.eqb fst snd].
  unfold slice. rewrite Nat.sub_diag. cbn [firstn nonempty]. reflexivity.
Qed.

Lemma skipn_prefix ind rest d : skipn (length ind + 1 + d) (ind ++ 42%N :: rest) = skipn d rest.
Proof.
  replace (length ind + 1 + d) with (length ind + S d) by lia. rewrite skipn_app.
  rewrite skipn_all2 by lia. replace (length ind + S d - length ind) with (S d) by lia. reflexivity.
Qed.

#[local] Arguments step_ident : simpl never.
#[local] Arguments step_param : simpl never.
#[local] Arguments step_tag : simpl never.
#[local] Arguments step_cont : simpl never.
#[local] Arguments bmatch : simpl never.

(* C10: what one step of the line loop makes of a line does not depend on the blanks in front of its asterisk *)
Theorem step_indent_independent cb ca bl ln ind1 ind2 rest st1 st2 :
  blanks ind1 -> blanks ind2 -> no_lf rest -> lst_c st1 = lst_c st2 ->
  lst_c (step cb ca bl ln (ind1 ++ 42%N :: rest) st1) = lst_c (step cb ca bl ln (ind2 ++ 42%N :: rest) st2).
Proof.
  intros H1 H2 Hr Hs. pose proof (lst_c_inv _ _ Hs) as [E1 [E2 [E3 [E4 [E5 [E6 E7]]]]]].
  unfold step. rewrite (prelude ln ind1 rest H1), (prelude ln ind2 rest H2). rewrite !skipn_prefix.
  assert (Hn1 : no_lf (ind1 ++ 42%N :: rest)) by (apply Forall_app; split; [apply blanks_no_lf; exact H1|constructor; [discriminate|exact Hr]]).
  assert (Hn2 : no_lf (ind2 ++ 42%N :: rest)) by (apply Forall_app; split; [apply blanks_no_lf; exact H2|constructor; [discriminate|exact Hr]]).
  pose proof (total_on_lines_ok re_indent _ re_indent_total Hn1) as Hi1.
  pose proof (total_on_lines_ok re_indent _ re_indent_total Hn2) as Hi2.
  destruct (bmatch re_indent (ind1 ++ 42%N :: rest)) as [c1|]; [|contradiction].
  destruct (bmatch re_indent (ind2 ++ 42%N :: rest)) as [c2|]; [|contradiction].
  set (body := skipn (delta rest) rest).
  match goal with |- lst_c (match _ with None => step_ident ?a _ _ _ ?s | _ => _ end) = lst_c (match _ with None => step_ident ?b _ _ _ ?t | _ => _ end) =>
    set (cx1 := a); set (cx2 := b); set (s1 := s); set (s2 := t) end.
  assert (Hcx : cx_same cx1 cx2) by (repeat split).
  assert (Hs12 : lst_c s1 = lst_c s2) by (apply lst_c_eq; cbn; try assumption; rewrite E7; reflexivity).
  change (l_blk s1) with (l_blk st1). change (l_blk s2) with (l_blk st2). rewrite <- E1.
  destruct (l_blk st1) as [b|]; [|apply step_ident_c; assumption].
  destruct (bmatch re_parameter body) as [cs|]; [apply step_param_c; assumption|].
  change (l_part s1) with (l_part st1). change (l_part s2) with (l_part st2). rewrite <- E4.
  match goal with |- context [if ?c then _ else _] => destruct c end.
  { apply lst_c_eq; cbn; try reflexivity; try assumption. rewrite E7. reflexivity. }
  change (l_pindent s1) with (l_pindent st1). change (l_pindent s2) with (l_pindent st2). rewrite <- E3.
  destruct (bmatch re_tag body) as [cs|]; [|apply step_cont_c; assumption].
  match goal with |- context [if ?c then _ else _] => destruct c end; [apply step_tag_c; assumption|apply step_cont_c; assumption].
Qed.

(* C10: "any indentation in front of the asterisks": the line loop arrives at the same block, the same part, the same pending
   description and the same flags whatever blanks stand in front of each line's asterisk (they may differ from line to line) *)
Theorem run_lines_indent_independent cb ca bl : forall rests inds1 inds2 ln st1 st2,
  length inds1 = length rests -> length inds2 = length rests ->
  Forall blanks inds1 -> Forall blanks inds2 -> Forall no_lf rests -> lst_c st1 = lst_c st2 ->
  lst_c (run_lines cb ca bl ln (asterisk_lines inds1 rests) st1) = lst_c (run_lines cb ca bl ln (asterisk_lines inds2 rests) st2).
Proof.
  induction rests as [|r t IH]; intros inds1 inds2 ln st1 st2 L1 L2 B1 B2 Hr Hs.
  - destruct inds1, inds2; try discriminate. exact Hs.
  - destruct inds1 as [|i1 t1]; [discriminate|]. destruct inds2 as [|i2 t2]; [discriminate|].
    apply Forall_cons_iff in B1 as [B1 B1t]. apply Forall_cons_iff in B2 as [B2 B2t]. apply Forall_cons_iff in Hr as [Hr Hrt].
    unfold asterisk_lines. cbn [combine map run_lines fst snd].
    apply IH; try assumption; try (cbn in L1, L2; lia).
    apply step_indent_independent; assumption.
Qed.
