From Coq Require Import List Arith NArith Bool Lia.
From GIV.Lib Require Import Regex Str Backtrack.
From GIV.Gen Require Import AnnNames UnicodeRe BlockRegex.
From GIV.Model Require Import C02 C10 C10B.
Import ListNotations.

#[local] Arguments parse_annotations_d : simpl never.
#[local] Arguments parse_fields_d : simpl never.

(* C11: "a malformed annotation is ignored rather than half-applied" *)

(* a failed _parse_annotations hands nothing on *)
Lemma failed_parse_is_empty popt ln q column fields existing :
  po_success (parse_annotations_d popt ln q column fields existing) = false ->
  po_anns (parse_annotations_d popt ln q column fields existing) = [] /\ po_raws (parse_annotations_d popt ln q column fields existing) = [].
Proof.
  unfold parse_annotations_d. destruct (pa_loop _ _ _ _ _ _ _) as [st|ds]; [|split; reflexivity].
  destruct (pa_level st); cbn; [discriminate|split; reflexivity].
Qed.

Lemma part_get_name : forall l k p, part_get l k = Some p -> str_eqb (pt_name p) k = true.
Proof.
  induction l as [|a t IH]; intros k p H; cbn [part_get] in H; [discriminate|].
  destruct (str_eqb (pt_name a) k) eqn:E; [injection H as <-; exact E|apply IH; exact H].
Qed.
Lemma str_eqb_trans a b c : str_eqb a b = true -> str_eqb b c = true -> str_eqb a c = true.
Proof. intros H1 H2. apply str_eqb_eq in H1, H2. subst. apply str_eqb_refl. Qed.
Lemma str_eqb_sym a b : str_eqb a b = str_eqb b a.
Proof. destruct (str_eqb a b) eqn:E. - apply str_eqb_eq in E. subst. symmetry. apply str_eqb_refl.
  - destruct (str_eqb b a) eqn:E2; [|reflexivity]. apply str_eqb_eq in E2. subst. rewrite str_eqb_refl in E. discriminate. Qed.

Lemma part_get_set : forall l k p p', part_get l k = Some p -> str_eqb (pt_name p') k = true -> part_get (part_set l p') k = Some p'.
Proof.
  induction l as [|a t IH]; intros k p p' H Hn; cbn [part_get] in H; [discriminate|]. cbn [part_set].
  destruct (str_eqb (pt_name a) k) eqn:E.
  - assert (Hap : str_eqb (pt_name a) (pt_name p') = true) by (eapply str_eqb_trans; [exact E|rewrite str_eqb_sym; exact Hn]).
    rewrite Hap. cbn [part_get]. rewrite Hn. reflexivity.
  - destruct (str_eqb (pt_name a) (pt_name p')) eqn:E2.
    + exfalso. assert (str_eqb (pt_name a) k = true) by (eapply str_eqb_trans; [exact E2|exact Hn]). congruence.
    + cbn [part_get]. rewrite E. eapply IH; [exact H|exact Hn].
Qed.

(* a continuation line of a parameter whose annotations are malformed leaves the annotations of that parameter as they were *)
Theorem malformed_continuation_not_applied cx b st k p :
  l_part st = Some PParams -> l_cur st = CurParam k -> part_get (bk_params b) k = Some p ->
  (let line := if is_empty_line (cx_line cx) then cx_line cx else rstrip (cx_line cx) in
   po_success (fst (parse_fields_d true true (cx_ln cx) (cx_orig cx) (cx_co cx) line (Some (pt_anns p, pt_apos p)))) = false) ->
  exists b' p', l_blk (step_cont cx b st) = Some b' /\ part_get (bk_params b') k = Some p'
                /\ pt_anns p' = pt_anns p /\ pt_apos p' = pt_apos p /\ bk_anns b' = bk_anns b /\ bk_tags b' = bk_tags b.
Proof.
  intros Hp Hc Hg Hf. cbv zeta in Hf. unfold step_cont. rewrite Hp, Hc, Hg.
  set (line := if is_empty_line (cx_line cx) then cx_line cx else rstrip (cx_line cx)) in *.
  pose proof (part_get_name _ _ _ Hg) as Hn.
  destruct (truthy (pt_desc p)).
  - eexists. eexists. cbn. split; [reflexivity|]. split; [eapply part_get_set; [exact Hg|exact Hn]|]. cbn. repeat split; reflexivity.
  - destruct (parse_fields_d true true (cx_ln cx) (cx_orig cx) (cx_co cx) line (Some (pt_anns p, pt_apos p))) as [r d].
    cbn [fst] in Hf. rewrite Hf. cbn [andb].
    eexists. eexists. cbn. split; [reflexivity|]. split; [eapply part_get_set; [exact Hg|exact Hn]|]. cbn. repeat split; reflexivity.
Qed.
