From Coq Require Import List NArith ZArith Bool Lia.
From GIV.Lib Require Import Regex Str.
From GIV.Model Require Import C20 C20Spec C20D.
From GIV.Proofs Require Import C20.
Import ListNotations.
Local Open Scope N_scope.

(* ------------------------------------------------------------ what a pure program writes *)

(* the text a statement adds at indentation i *)
Fixpoint rs (i : Z) (p : stmt) : str :=
  match p with
  | SLeaf t a d => sp i ++ build_xml_tag t a d i [32] ++ [10]
  | SComment x => sp i ++ ([60;33;45;45;32] ++ x ++ [32;45;45;62]) ++ [10]
  | SCtx t a body =>
      (sp i ++ ([60] ++ t ++ collect_attributes t a i [32] (zlen t + 2) ++ [62]) ++ [10])
      ++ flat_map (rs (i + 2)) body ++ (sp i ++ ([60;47] ++ t ++ [62]) ++ [10])
  | _ => []
  end.

Definition appended (st : wstate) (s : str) : wstate :=
  {| w_out := w_out st ++ s; w_stack := w_stack st; w_indent := w_indent st |}.

Lemma appended_nil st : appended st [] = st.
Proof. destruct st. unfold appended. simpl. rewrite app_nil_r. reflexivity. Qed.

Lemma appended_app st a b : appended (appended st a) b = appended st (a ++ b).
Proof. unfold appended. simpl. rewrite app_assoc. reflexivity. Qed.

Lemma exec_list_pure l :
  Forall (fun p => pure p = true -> forall st, exec p st = (appended st (rs (w_indent st) p), false)) l ->
  forallb pure l = true ->
  forall st, exec_list l st = (appended st (flat_map (rs (w_indent st)) l), false).
Proof.
  induction l as [|x r IH]; intros Hf Hp st.
  - simpl. rewrite appended_nil. reflexivity.
  - inversion Hf as [|? ? Hx Hr]; subst. simpl in Hp. apply andb_true_iff in Hp as [Hpx Hpr].
    cbn [exec_list flat_map]. rewrite (Hx Hpx st). rewrite (IH Hr Hpr).
    rewrite appended_app. reflexivity.
Qed.

Theorem exec_pure : forall p, pure p = true ->
  forall st, exec p st = (appended st (rs (w_indent st) p), false).
Proof.
  apply (stmt_ind_nested (fun p => pure p = true ->
           forall st, exec p st = (appended st (rs (w_indent st) p), false))).
  - intros t a d _ st. reflexivity.
  - intros x _ st. reflexivity.
  - intros t a body Hbody Hp st. cbn [pure] in Hp.
    rewrite exec_ctx_unfold. rewrite (exec_list_pure body Hbody Hp).
    unfold pop_tag, appended, push_tag, write_line. cbn [w_out w_stack w_indent].
    rewrite zsub2, orb_false_r. cbn [rs].
    f_equal. f_equal. unfold sp. rewrite <- !app_assoc. reflexivity.
  - intros t a H. discriminate.
  - intro H. discriminate.
  - intro H. discriminate.
Qed.

Theorem run_program_pure l : forallb pure l = true ->
  run_program l = (xml_decl ++ flat_map (rs 0) l, false).
Proof.
  intro Hp. unfold run_program.
  rewrite (exec_list_pure l); [reflexivity| |exact Hp].
  apply Forall_forall. intros p _. apply exec_pure.
Qed.

(* ------------------------------------------------------------ the attribute scanner, step by step *)

Fixpoint pa_run (s : str) (st : pstate) (acc : list (str * str)) : option (pstate * list (str * str)) :=
  match s with
  | [] => Some (st, acc)
  | c :: t => match pa_step c st acc with
              | Some (st', acc') => pa_run t st' acc'
              | None => None
              end
  end.

Lemma pa_as_run s : forall st acc,
  pa s st acc = match pa_run s st acc with Some (st', acc') => pa [] st' acc' | None => None end.
Proof.
  induction s as [|c t IH]; intros st acc; [reflexivity|].
  cbn [pa_run]. destruct st; cbn [pa pa_step];
    repeat match goal with
           | |- context [if ?b then _ else _] => destruct b
           | |- context [match unescape ?x with _ => _ end] => destruct (unescape x)
           end; try apply IH; reflexivity.
Qed.

Lemma name_char_all c : name_char c = true ->
  xml_ws c = false /\ N.eqb c 61 = false /\ N.eqb c 60 = false /\ N.eqb c 62 = false /\ N.eqb c 47 = false.
Proof.
  unfold name_char. intro H. apply negb_true_iff in H.
  do 6 (apply orb_false_iff in H as [H ?]). repeat split; assumption.
Qed.

Lemma pa_step_not_end c st acc r : pa_step c st acc = Some r -> between_attrs st = true ->
  N.eqb c 62 = false /\ N.eqb c 47 = false.
Proof.
  intros H Hb.
  destruct (N.eqb_spec c 62) as [->|_]; [destruct st; try discriminate; vm_compute in H; discriminate|].
  destruct (N.eqb_spec c 47) as [->|_]; [destruct st; try discriminate; vm_compute in H; discriminate|].
  split; reflexivity.
Qed.

Lemma lx_attrs_run x : forall n st acc r c st' acc',
  pa_run x st acc = Some (st', acc') ->
  lx (x ++ r) (LAttrs n st acc) c = lx r (LAttrs n st' acc') c.
Proof.
  induction x as [|ch t IH]; intros n st acc r c st' acc' H.
  - simpl in H. injection H as -> ->. reflexivity.
  - cbn [pa_run] in H. destruct (pa_step ch st acc) as [[s1 a1]|] eqn:E; [|discriminate].
    simpl app. cbn [lx].
    destruct (between_attrs st) eqn:Eb.
    + destruct (pa_step_not_end _ _ _ _ E Eb) as [H62 H47]. rewrite H62, H47. simpl. rewrite E.
      apply IH. exact H.
    + simpl. rewrite E. apply IH. exact H.
Qed.

Lemma collect_loop_shape il ichar attrs :
  (collect_loop attrs il ichar true = [] /\ present attrs = []) \/
  exists x, collect_loop attrs il ichar true = 32 :: x.
Proof.
  induction attrs as [|[n [v|]] t IH].
  - left. split; reflexivity.
  - right. cbn [collect_loop]. rewrite andb_false_r. simpl. eexists. reflexivity.
  - cbn [collect_loop present flat_map snd fst]. simpl app. exact IH.
Qed.

Definition valid_tag (t : str) : Prop :=
  valid_name t /\ match t with c :: _ => c <> 33 /\ c <> 63 | [] => False end.

Lemma lx_open_name t : forall buf r c, forallb name_char t = true ->
  lx (t ++ r) (LOpen buf) c = lx r (LOpen (rev t ++ buf)) c.
Proof.
  induction t as [|ch t IH]; intros buf r c H; [reflexivity|].
  simpl in H. apply andb_true_iff in H as [Hc Ht].
  destruct (name_char_all ch Hc) as (Hws & _ & _ & H62 & H47).
  simpl app. cbn [lx]. rewrite Hws, H62, H47, Hc. rewrite IH by exact Ht.
  simpl. rewrite <- app_assoc. reflexivity.
Qed.

(* after '<': the name, the attribute text of collect_attributes, and what ends the tag *)
Lemma lx_tag t a si ichar ind r c :
  valid_tag t -> names_ok a -> forallb xml_ws ichar = true ->
  let x := collect_attributes t a si ichar ind in
  lx (t ++ x ++ 62 :: r) LLt c = lx r (LText []) (open_el t (present a) c) /\
  lx (t ++ x ++ 47 :: 62 :: r) LLt c = lx r (LText []) (add_node (NElem t (present a) []) c).
Proof.
  intros [[Hne Hall] Hfirst] Hn Hic x.
  destruct t as [|c0 t']; [contradiction|]. destruct Hfirst as [H33 H63].
  simpl in Hall. apply andb_true_iff in Hall as [Hc0 Ht'].
  destruct (name_char_all c0 Hc0) as (_ & _ & _ & _ & H47).
  assert (Hstart : forall rest, lx ((c0 :: t') ++ rest) LLt c = lx rest (LOpen (rev (c0 :: t'))) c).
  { intro rest. simpl app. cbn [lx].
    destruct (N.eqb_spec c0 33); [contradiction|]. destruct (N.eqb_spec c0 63); [contradiction|].
    rewrite H47, Hc0. rewrite lx_open_name by exact Ht'. reflexivity. }
  rewrite !Hstart. unfold x. clear x. remember (c0 :: t') as tt eqn:Ett. clear Ett Hstart. set (x := collect_attributes tt a si ichar ind).
  assert (Hrev : rev (rev tt) = tt) by apply rev_involutive.
  pose proof (parse_collect tt a si ichar ind Hn Hic) as Hpc. fold x in Hpc.
  unfold x, collect_attributes in *. destruct a as [|a0 at'].
  - simpl. rewrite Hrev. split; reflexivity.
  - set (il := if Z.ltb 79 (calc_attrs_length (a0 :: at') ind si) then (si + zlen tt + 1)%Z else 0%Z) in *.
    destruct (collect_loop_shape il ichar (a0 :: at')) as [[E Ep]|[x' E]]; rewrite E in *.
    + rewrite Ep. simpl. rewrite Hrev. split; reflexivity.
    + unfold parse_attrs in Hpc. simpl in Hpc. rewrite pa_as_run in Hpc.
      destruct (pa_run x' PWs []) as [[st' acc']|] eqn:Er; [|discriminate].
      assert (Hst : between_attrs st' = true /\ rev acc' = present (a0 :: at')).
      { destruct st'; simpl in Hpc; try discriminate; injection Hpc as Hpc; split; auto. }
      destruct Hst as [Hb Hacc].
      simpl app. cbn [lx]. simpl xml_ws. cbv iota. rewrite Hrev.
      rewrite !(lx_attrs_run x' tt PWs [] _ c st' acc' Er).
      cbn [lx]. rewrite Hb. simpl. rewrite Hacc. split; reflexivity.
Qed.

(* ------------------------------------------------------------ character data, end tags, comments *)

Lemma lx_text w : ~ In 60 w -> forall buf r c,
  lx (w ++ 60 :: r) (LText buf) c =
  match flush (rev w ++ buf) c with Some c' => lx r LLt c' | None => None end.
Proof.
  induction w as [|ch w IH]; intros Hn buf r c.
  - simpl. reflexivity.
  - simpl app. cbn [lx]. destruct (N.eqb_spec ch 60) as [->|Hc]; [exfalso; apply Hn; left; reflexivity|].
    rewrite IH by (intro H; apply Hn; right; exact H). simpl. rewrite <- app_assoc. reflexivity.
Qed.

Lemma unesc_plain s : ~ In 38 s -> unesc s None = Some s.
Proof.
  induction s as [|c t IH]; intro H; [reflexivity|]. simpl.
  destruct (N.eqb_spec c 38) as [->|Hc]; [exfalso; apply H; left; reflexivity|].
  rewrite IH by (intro Hi; apply H; right; exact Hi). reflexivity.
Qed.

Lemma in_sp x i : In x (sp i) -> x = 32.
Proof.
  unfold sp, mul_str. induction (Z.to_nat i) as [|k IH]; simpl; [tauto|].
  intros [H|H]; [symmetry; exact H|apply IH; exact H].
Qed.

Lemma flush_ws i c : flush (rev (sp i) ++ [10]) c = Some (add_node (NText (10 :: sp i)) c).
Proof.
  unfold flush. destruct (rev (sp i) ++ [10]) as [|a b] eqn:E.
  - destruct (rev (sp i)); discriminate.
  - rewrite <- E. rewrite rev_app_distr, rev_involutive. simpl rev. simpl app.
    unfold unescape. rewrite unesc_plain; [reflexivity|].
    intros [H|H]; [discriminate|]. apply in_sp in H. discriminate.
Qed.

Lemma sp_no_lt i : ~ In 60 (sp i).
Proof. intro H. apply in_sp in H. discriminate. Qed.

(* a line of the writer begins: the pending line break and the indentation are one text node *)
Lemma lx_indent i r c :
  lx (sp i ++ 60 :: r) (LText [10]) c = lx r LLt (add_node (NText (10 :: sp i)) c).
Proof. rewrite lx_text by apply sp_no_lt. rewrite flush_ws. reflexivity. Qed.

Lemma esc_char_nonempty c : esc_char c <> [].
Proof.
  unfold esc_char. destruct (N.eqb c 38); [discriminate|]. destruct (N.eqb c 62); [discriminate|].
  destruct (N.eqb c 60); discriminate.
Qed.

Lemma flush_data d c :
  flush (rev (escape d) ++ []) c =
  Some (match d with [] => c | x :: d' => add_node (NText (x :: d')) c end).
Proof.
  rewrite app_nil_r. destruct d as [|x d']; [reflexivity|].
  unfold flush. destruct (rev (escape (x :: d'))) as [|a b] eqn:E.
  - exfalso. apply (f_equal (@rev N)) in E. rewrite rev_involutive in E.
    rewrite escape_flat in E. simpl in E. apply app_eq_nil in E as [E _].
    exact (esc_char_nonempty x E).
  - rewrite <- E, rev_involutive, unescape_escape. reflexivity.
Qed.

Lemma lx_close t : forallb name_char t = true -> forall buf r c,
  lx (t ++ 62 :: r) (LClose buf) c =
  match close_el (rev buf ++ t) c with Some c' => lx r (LText []) c' | None => None end.
Proof.
  induction t as [|ch t IH]; intros H buf r c.
  - simpl. rewrite app_nil_r. reflexivity.
  - simpl in H. apply andb_true_iff in H as [Hc Ht].
    destruct (name_char_all ch Hc) as (_ & _ & _ & H62 & _).
    simpl app. cbn [lx]. rewrite H62, Hc. rewrite IH by exact Ht. simpl. rewrite <- app_assoc. reflexivity.
Qed.

(* comment text: the end mark does not occur in it *)
Definition no_cend (s : str) : Prop := forall p q, s <> p ++ [45;45;62] ++ q.

Lemma lx_comment x : forall buf r c, no_cend (rev buf ++ x) ->
  lx (x ++ 45 :: 45 :: 62 :: r) (LComment buf) c = lx r (LText []) (add_node (NComment (rev buf ++ x)) c).
Proof.
  induction x as [|ch x IH]; intros buf r c Hn.
  - simpl. rewrite app_nil_r. reflexivity.
  - simpl app. cbn [lx].
    assert (Hnext : lx (x ++ 45 :: 45 :: 62 :: r) (LComment (ch :: buf)) c =
                    lx r (LText []) (add_node (NComment (rev buf ++ ch :: x)) c)).
    { rewrite IH; simpl; rewrite <- app_assoc; [reflexivity|exact Hn]. }
    destruct (N.eqb_spec ch 62) as [->|Hc]; [|exact Hnext].
    destruct buf as [|a [|b rest]]; try exact Hnext.
    destruct (N.eqb_spec a 45) as [->|Ha]; [|exact Hnext].
    destruct (N.eqb_spec b 45) as [->|Hb]; [|exact Hnext].
    exfalso. apply (Hn (rev rest) x). simpl. rewrite <- !app_assoc. reflexivity.
Qed.

(* ------------------------------------------------------------ statements *)

Fixpoint wf (p : stmt) : Prop :=
  match p with
  | SLeaf t a _ => valid_tag t /\ names_ok a
  | SComment x => no_cend (32 :: x ++ [32])
  | SCtx t a body =>
      valid_tag t /\ names_ok a /\
      (fix all (l : list stmt) : Prop := match l with [] => True | x :: r => wf x /\ all r end) body
  | _ => True
  end.

Lemma wf_ctx t a body : wf (SCtx t a body) <-> valid_tag t /\ names_ok a /\ Forall wf body.
Proof.
  cbn [wf]. assert (H : forall l, (fix all (l : list stmt) : Prop :=
                        match l with [] => True | x :: r => wf x /\ all r end) l <-> Forall wf l).
  { induction l as [|x r IH].
    - split; intro H; [constructor|exact I].
    - split; intro H.
      + destruct H as [H1 H2]. constructor; [exact H1|apply IH; exact H2].
      + inversion H; subst. split; [assumption|apply IH; assumption]. }
  rewrite H. tauto.
Qed.

Definition parses (i : Z) (p : stmt) : Prop :=
  forall r cur stk,
    lx (rs i p ++ r) (LText [10]) (cur, stk) =
    lx r (LText [10]) (rev (layout i p) ++ NText (10 :: sp i) :: cur, stk).

Lemma parses_list j l :
  Forall (fun p => pure p = true -> wf p -> forall i, parses i p) l ->
  forallb pure l = true -> Forall wf l ->
  forall r cur stk,
    lx (flat_map (rs j) l ++ r) (LText [10]) (cur, stk) =
    lx r (LText [10]) (rev (flat_map (fun c => NText (10 :: sp j) :: layout j c) l) ++ cur, stk).
Proof.
  induction l as [|x t IH]; intros Hf Hp Hw r cur stk; [reflexivity|].
  inversion Hf as [|? ? Hx Ht]; subst. inversion Hw as [|? ? Hwx Hwt]; subst.
  simpl in Hp. apply andb_true_iff in Hp as [Hpx Hpt].
  cbn [flat_map]. rewrite <- app_assoc. rewrite (Hx Hpx Hwx j). rewrite (IH Ht Hpt Hwt).
  f_equal. f_equal. rewrite rev_app_distr. simpl. rewrite <- !app_assoc. reflexivity.
Qed.

Theorem stmt_parses : forall p, pure p = true -> wf p -> forall i, parses i p.
Proof.
  apply (stmt_ind_nested (fun p => pure p = true -> wf p -> forall i, parses i p)).
  - (* leaf element *)
    intros t a d _ [Ht Ha] i r cur stk. cbn [rs layout].
    unfold build_xml_tag. destruct d as [d|].
    + set (ind := Z.add (zlen ([60] ++ t)) (zlen _)). clearbody ind.
      set (x := collect_attributes t a i [32] ind).
      rewrite <- !app_assoc.
      change (sp i ++ [60] ++ t ++ x ++ [62] ++ escape d ++ [60; 47] ++ t ++ [62] ++ [10] ++ r)
        with (sp i ++ 60 :: (t ++ x ++ 62 :: (escape d ++ 60 :: (47 :: t ++ 62 :: 10 :: r)))).
      rewrite lx_indent.
      destruct (lx_tag t a i [32] ind (escape d ++ 60 :: 47 :: t ++ 62 :: 10 :: r)
                  (add_node (NText (10 :: sp i)) (cur, stk)) Ht Ha eq_refl) as [Ho _].
      fold x in Ho. rewrite Ho.
      rewrite lx_text by (apply escape_no_markup). rewrite flush_data.
      destruct Ht as [[_ Hall] _].
      assert (Hcl : forall c', lx (47 :: t ++ 62 :: 10 :: r) LLt c' =
                     match close_el t c' with Some c'' => lx r (LText [10]) c'' | None => None end).
      { intro c'. cbn [lx]. simpl N.eqb. cbv iota. rewrite lx_close by exact Hall. simpl.
        destruct (close_el t c'); reflexivity. }
      destruct d as [|x0 d']; rewrite Hcl; unfold close_el, open_el, add_node; cbn [fst snd];
        rewrite str_eqb_refl; reflexivity.
    + set (ind := Z.add (zlen ([60] ++ t)) (zlen _)). clearbody ind.
      set (x := collect_attributes t a i [32] ind).
      rewrite <- !app_assoc.
      change (sp i ++ [60] ++ t ++ x ++ [47; 62] ++ [10] ++ r)
        with (sp i ++ 60 :: (t ++ x ++ 47 :: 62 :: (10 :: r))).
      rewrite lx_indent.
      destruct (lx_tag t a i [32] ind (10 :: r)
                  (add_node (NText (10 :: sp i)) (cur, stk)) Ht Ha eq_refl) as [_ Hs].
      fold x in Hs. rewrite Hs. reflexivity.
  - (* comment *)
    intros x _ Hx i r cur stk. cbn [rs layout wf] in *.
    rewrite <- !app_assoc.
    change (sp i ++ [60; 33; 45; 45; 32] ++ x ++ [32; 45; 45; 62] ++ [10] ++ r)
      with (sp i ++ 60 :: (33 :: 45 :: 45 :: 32 :: x ++ 32 :: 45 :: 45 :: 62 :: 10 :: r)).
    rewrite lx_indent.
    cbn [lx]. simpl N.eqb. cbv iota.
    replace (x ++ 32 :: 45 :: 45 :: 62 :: 10 :: r) with ((x ++ [32]) ++ 45 :: 45 :: 62 :: (10 :: r))
      by (rewrite <- app_assoc; reflexivity).
    rewrite lx_comment by exact Hx. reflexivity.
  - (* with tagcontext *)
    intros t a body Hbody Hp Hw i r cur stk. cbn [pure] in Hp.
    apply wf_ctx in Hw as (Ht & Ha & Hwb). cbn [rs layout].
    set (x := collect_attributes t a i [32] (zlen t + 2)%Z).
    rewrite <- !app_assoc.
    change (sp i ++ [60] ++ t ++ x ++ [62] ++ [10] ++ flat_map (rs (i + 2)) body ++
            sp i ++ [60; 47] ++ t ++ [62] ++ [10] ++ r)
      with (sp i ++ 60 :: (t ++ x ++ 62 :: (10 :: flat_map (rs (i + 2)) body ++
            sp i ++ 60 :: (47 :: t ++ 62 :: 10 :: r)))).
    rewrite lx_indent.
    destruct (lx_tag t a i [32] (zlen t + 2)%Z (10 :: flat_map (rs (i + 2)) body ++ sp i ++ 60 :: 47 :: t ++ 62 :: 10 :: r)
                (add_node (NText (10 :: sp i)) (cur, stk)) Ht Ha eq_refl) as [Ho _].
    fold x in Ho. rewrite Ho. unfold open_el, add_node. cbn [fst snd].
    cbn [lx]. simpl N.eqb. cbv iota.
    rewrite (parses_list (i + 2)%Z body Hbody Hp Hwb).
    rewrite lx_indent. destruct Ht as [[_ Hall] _].
    cbn [lx]. simpl N.eqb. cbv iota. rewrite lx_close by exact Hall. simpl rev at 1. simpl app at 1.
    unfold close_el, add_node. cbn [fst snd]. rewrite str_eqb_refl.
    cbn [lx]. simpl N.eqb. cbv iota.
    rewrite app_nil_r. cbn [rev]. rewrite rev_involutive. reflexivity.
  - intros t a H. discriminate.
  - intro H. discriminate.
  - intro H. discriminate.
Qed.

(* ------------------------------------------------------------ whole documents *)

Lemma lx_decl r : lx (xml_decl ++ r) (LText []) ([], []) = lx r (LText [10]) ([NPI decl_body], []).
Proof. reflexivity. Qed.

Theorem document_roundtrip l : forallb pure l = true -> Forall wf l ->
  xml_parse (fst (run_program l)) = Some (layout_doc l).
Proof.
  intros Hp Hw. rewrite run_program_pure by exact Hp. cbn [fst]. unfold xml_parse.
  rewrite lx_decl. rewrite <- (app_nil_r (flat_map (rs 0) l)).
  rewrite (parses_list 0%Z l); [| |exact Hp|exact Hw].
  - change (lx [] (LText [10]) ?c) with
      (match flush [10] c with Some (cur, []) => Some (rev cur) | _ => None end).
    change (flush [10] ?c) with (Some (add_node (NText [10]) c)).
    unfold add_node. cbn [fst snd]. unfold layout_doc.
    cbn [rev]. rewrite rev_app_distr, rev_involutive. reflexivity.
  - apply Forall_forall. intros p _. apply stmt_parses.
Qed.

(* the end mark cannot be produced by the blanks the writer puts around the text *)
Lemma no_cend_padded x : no_cend x -> no_cend (32 :: x ++ [32]).
Proof.
  intros H p q E. destruct p as [|c p']; [discriminate E|].
  change ((c :: p') ++ [45; 45; 62] ++ q) with (c :: (p' ++ [45; 45; 62] ++ q)) in E.
  injection E as _ E.
  destruct (rev q) as [|z q'] eqn:Eq; apply (f_equal (@rev N)) in Eq; rewrite rev_involutive in Eq;
    simpl in Eq; subst q.
  - assert (E' : x ++ [32] = (p' ++ [45; 45]) ++ [62]) by (rewrite E, <- app_assoc; reflexivity).
    apply app_inj_tail in E' as [_ E']. discriminate.
  - assert (E' : x ++ [32] = (p' ++ [45; 45; 62] ++ rev q') ++ [z])
      by (rewrite E, <- !app_assoc; reflexivity).
    apply app_inj_tail in E' as [E' _]. exact (H p' (rev q') E').
Qed.

(* ------------------------------------------------------------ the reader's view: indentation dropped *)

Fixpoint data_ok (p : stmt) : bool :=
  match p with
  | SLeaf _ _ (Some s) => negb (forallb xml_ws s)
  | SCtx _ _ body => forallb data_ok body
  | _ => true
  end.

Lemma strip_elem t a kids : strip (NElem t a kids) = NElem t a (strip_all kids).
Proof.
  reflexivity.
Qed.

Lemma strip_all_app a : forall b, strip_all (a ++ b) = strip_all a ++ strip_all b.
Proof.
  induction a as [|k r IH]; intro b; [reflexivity|]. simpl app. cbn [strip_all].
  destruct (blank k); [apply IH|]. simpl. f_equal. apply IH.
Qed.

Lemma blank_indent i : blank (NText (10 :: sp i)) = true.
Proof.
  cbn [blank forallb]. simpl xml_ws. apply forallb_forall. intros x Hx. apply in_sp in Hx. subst. reflexivity.
Qed.

Lemma strip_layout_list j l :
  Forall (fun p => pure p = true -> data_ok p = true -> forall i, strip_all (layout i p) = doc_of p) l ->
  forallb pure l = true -> forallb data_ok l = true ->
  strip_all (flat_map (fun c => NText (10 :: sp j) :: layout j c) l) = flat_map doc_of l.
Proof.
  induction l as [|x r IH]; intros Hf Hp Hd; [reflexivity|].
  inversion Hf as [|? ? Hx Hr]; subst. simpl in Hp, Hd.
  apply andb_true_iff in Hp as [Hpx Hpr]. apply andb_true_iff in Hd as [Hdx Hdr].
  cbn [flat_map]. change (NText (10 :: sp j) :: layout j x) with ([NText (10 :: sp j)] ++ layout j x).
  rewrite <- app_assoc, !strip_all_app. cbn [strip_all]. rewrite blank_indent.
  rewrite (Hx Hpx Hdx), (IH Hr Hpr Hdr). reflexivity.
Qed.

Theorem strip_layout : forall p, pure p = true -> data_ok p = true ->
  forall i, strip_all (layout i p) = doc_of p.
Proof.
  apply (stmt_ind_nested (fun p => pure p = true -> data_ok p = true ->
           forall i, strip_all (layout i p) = doc_of p)).
  - intros t a d _ Hd i. cbn [layout doc_of strip_all blank]. rewrite strip_elem. f_equal. f_equal.
    destruct d as [[|x d']|]; try reflexivity.
    cbn [data_nodes strip_all]. cbn [data_ok] in Hd. apply negb_true_iff in Hd.
    cbn [blank]. rewrite Hd. reflexivity.
  - intros x _ _ i. reflexivity.
  - intros t a body Hbody Hp Hd i. cbn [pure data_ok] in Hp, Hd.
    cbn [layout doc_of strip_all blank]. rewrite strip_elem. f_equal. f_equal.
    rewrite strip_all_app, (strip_layout_list (i + 2)%Z body Hbody Hp Hd).
    cbn [strip_all]. rewrite blank_indent. apply app_nil_r.
  - intros t a H. discriminate.
  - intro H. discriminate.
  - intro H. discriminate.
Qed.

Theorem document_meaning l : forallb pure l = true -> Forall wf l -> forallb data_ok l = true ->
  exists d, xml_parse (fst (run_program l)) = Some d /\
            strip_all d = NPI decl_body :: flat_map doc_of l.
Proof.
  intros Hp Hw Hd. exists (layout_doc l). split; [apply document_roundtrip; assumption|].
  unfold layout_doc. cbn [strip_all blank]. f_equal.
  rewrite strip_all_app. change [10] with (10 :: sp 0) at 1.
  rewrite (strip_layout_list 0%Z l); [| |exact Hp|exact Hd].
  - cbn [strip_all blank forallb]. simpl. apply app_nil_r.
  - apply Forall_forall. intros p _. apply strip_layout.
Qed.

(* the hypothesis on comment text is decidable *)
Fixpoint has_cend (s : str) : bool :=
  match s with
  | a :: t => match t with
              | b :: c :: _ => N.eqb a 45 && N.eqb b 45 && N.eqb c 62
              | _ => false
              end || has_cend t
  | [] => false
  end.

Lemma no_cend_dec s : has_cend s = false -> no_cend s.
Proof.
  intros H p q E. subst s. induction p as [|a p IH].
  - simpl in H. discriminate.
  - apply IH. change ((a :: p) ++ [45; 45; 62] ++ q) with (a :: (p ++ [45; 45; 62] ++ q)) in H.
    cbn [has_cend] in H. apply orb_false_iff in H as [_ H]. exact H.
Qed.

(* ------------------------------------------------------------ programs that abort *)
Lemma cut_ctx_unfold t a body :
  cut (SCtx t a body) = let '(b', r) := cutl body in ([SCtx t a b'], r).
Proof. reflexivity. Qed.

Definition cut_ok (p : stmt) : Prop :=
  forallb pure (fst (cut p)) = true /\
  forall st, exec p st = (appended st (flat_map (rs (w_indent st)) (fst (cut p))), snd (cut p)).

Lemma flat_map_rs_app i a b : flat_map (rs i) (a ++ b) = flat_map (rs i) a ++ flat_map (rs i) b.
Proof. apply flat_map_app. Qed.

Lemma cutl_ok l : Forall (fun p => ctx_only p = true -> cut_ok p) l -> forallb ctx_only l = true ->
  forallb pure (fst (cutl l)) = true /\
  forall st, exec_list l st = (appended st (flat_map (rs (w_indent st)) (fst (cutl l))), snd (cutl l)).
Proof.
  induction l as [|x r IH]; intros Hf Hc.
  - split; [reflexivity|]. intro st. simpl. rewrite appended_nil. reflexivity.
  - inversion Hf as [|? ? Hx Hr]; subst. simpl in Hc. apply andb_true_iff in Hc as [Hcx Hcr].
    destruct (Hx Hcx) as [Hpx Hex]. destruct (IH Hr Hcr) as [Hpr Her].
    cbn [cutl]. destruct (cut x) as [x' rx] eqn:Ex. cbn [fst snd] in *.
    destruct rx.
    + split; [exact Hpx|]. intro st. cbn [exec_list]. rewrite Hex. reflexivity.
    + destruct (cutl r) as [r' rr] eqn:Er. cbn [fst snd] in *. split.
      * rewrite forallb_app, Hpx, Hpr. reflexivity.
      * intro st. cbn [exec_list]. rewrite Hex. rewrite Her. cbn [appended w_indent].
        rewrite appended_app, flat_map_app. reflexivity.
Qed.

Theorem cut_spec : forall p, ctx_only p = true -> cut_ok p.
Proof.
  apply (stmt_ind_nested (fun p => ctx_only p = true -> cut_ok p)).
  - intros t a d _. split; [reflexivity|]. intro st. cbn [cut fst snd flat_map]. rewrite app_nil_r. reflexivity.
  - intros x _. split; [reflexivity|]. intro st. cbn [cut fst snd flat_map]. rewrite app_nil_r. reflexivity.
  - intros t a body Hbody Hc. cbn [ctx_only] in Hc.
    destruct (cutl_ok body Hbody Hc) as [Hpb Heb].
    unfold cut_ok. rewrite cut_ctx_unfold. destruct (cutl body) as [b' rb] eqn:Eb. cbn [fst snd] in *.
    split; [cbn [forallb pure]; rewrite Hpb; reflexivity|].
    intro st. cbn [flat_map]. rewrite app_nil_r.
    assert (Hpure : pure (SCtx t a b') = true) by exact Hpb.
    pose proof (exec_pure _ Hpure st) as Hp. rewrite exec_ctx_unfold in Hp.
    rewrite (exec_list_pure b') in Hp; [| apply Forall_forall; intros q _; apply exec_pure | exact Hpb].
    rewrite exec_ctx_unfold, Heb.
    change (w_indent (push_tag st t a)) with (w_indent st + 2)%Z in *.
    destruct (pop_tag (appended (push_tag st t a) (flat_map (rs (w_indent st + 2)) b'))) as [st3 r3].
    injection Hp as -> Hr3. cbn [orb] in Hr3. subst r3. rewrite orb_false_r. reflexivity.
  - intros t a H. discriminate.
  - intro H. discriminate.
  - intros _. split; [reflexivity|]. intro st. cbn [cut fst snd flat_map exec]. rewrite appended_nil. reflexivity.
Qed.

Lemma wf_cutl l : Forall (fun p => wf p -> Forall wf (fst (cut p))) l -> Forall wf l -> Forall wf (fst (cutl l)).
Proof.
  induction l as [|x r IH]; intros Hf Hw; [constructor|].
  inversion Hf as [|? ? Hx Hr]; subst. inversion Hw as [|? ? Hwx Hwr]; subst.
  cbn [cutl]. destruct (cut x) as [x' rx] eqn:Ex. specialize (Hx Hwx). cbn [fst] in Hx.
  destruct rx; [exact Hx|]. specialize (IH Hr Hwr). destruct (cutl r) as [r' rr]. cbn [fst] in *.
  apply Forall_app. split; assumption.
Qed.

Theorem wf_cut : forall p, wf p -> Forall wf (fst (cut p)).
Proof.
  apply (stmt_ind_nested (fun p => wf p -> Forall wf (fst (cut p)))).
  - intros t a d H. constructor; [exact H|constructor].
  - intros x H. constructor; [exact H|constructor].
  - intros t a body Hbody Hw. apply wf_ctx in Hw as (Ht & Ha & Hwb).
    rewrite cut_ctx_unfold. pose proof (wf_cutl body Hbody Hwb) as Hb.
    destruct (cutl body) as [b' rb]. cbn [fst] in *. constructor; [|constructor].
    apply wf_ctx. split; [exact Ht|]. split; [exact Ha|exact Hb].
  - intros t a _. constructor; [exact I|constructor].
  - intros _. constructor; [exact I|constructor].
  - intros _. constructor.
Qed.

Theorem document_roundtrip_abort l : forallb ctx_only l = true -> Forall wf l ->
  xml_parse (fst (run_program l)) = Some (layout_doc (fst (cutl l))) /\
  snd (run_program l) = snd (cutl l).
Proof.
  intros Hc Hw.
  assert (Hf : Forall (fun p => ctx_only p = true -> cut_ok p) l)
    by (apply Forall_forall; intros p _; apply cut_spec).
  destruct (cutl_ok l Hf Hc) as [Hp He].
  assert (Hw' : Forall wf (fst (cutl l))).
  { apply wf_cutl; [|exact Hw]. apply Forall_forall. intros p _. apply wf_cut. }
  pose proof (document_roundtrip _ Hp Hw') as Hd. rewrite run_program_pure in Hd by exact Hp.
  unfold run_program. rewrite He. cbn [appended w_out w_init w_indent fst snd] in *. split; [exact Hd|reflexivity].
Qed.

(* lossless: two programs that make the writer return the same bytes describe the same document *)
Theorem same_bytes_same_document l1 l2 :
  forallb pure l1 = true -> Forall wf l1 -> forallb data_ok l1 = true ->
  forallb pure l2 = true -> Forall wf l2 -> forallb data_ok l2 = true ->
  fst (run_program l1) = fst (run_program l2) -> flat_map doc_of l1 = flat_map doc_of l2.
Proof.
  intros P1 W1 D1 P2 W2 D2 E.
  destruct (document_meaning l1 P1 W1 D1) as (d1 & Hp1 & Hs1).
  destruct (document_meaning l2 P2 W2 D2) as (d2 & Hp2 & Hs2).
  rewrite E in Hp1. rewrite Hp1 in Hp2. injection Hp2 as ->.
  rewrite Hs1 in Hs2. injection Hs2 as H. exact H.
Qed.
