From Coq Require Import List Arith NArith Bool Lia.
From GIV.Lib Require Import Regex Str.
From GIV.Model Require Import C11.
Import ListNotations.

Lemma fold_log_count ms : forall l, l_count (fold_left log ms l) = (l_count l + List.length ms)%nat.
Proof. induction ms as [|m t IH]; intros l; cbn; [lia|]. rewrite IH. cbn. lia. Qed.

Theorem counted_even_when_suppressed enabled ms : l_count (log_all enabled ms) = List.length ms.
Proof. unfold log_all. rewrite fold_log_count. reflexivity. Qed.

Theorem fails_iff_diagnosed enabled ms : run_fails (log_all enabled ms) = true <-> ms <> [].
Proof.
  unfold run_fails. rewrite counted_even_when_suppressed. destruct ms; cbn; split; intros H; try congruence; try discriminate; reflexivity.
Qed.

Lemma fold_log_out_disabled ms : forall l, l_enabled l = false ->
  l_out (fold_left log ms l) = l_out l ++ filter (fun m => match fst (fst m) with KFatal => true | _ => false end) ms.
Proof.
  induction ms as [|m t IH]; intros l H; cbn; [rewrite app_nil_r; reflexivity|].
  rewrite IH by exact H. cbn. rewrite H. destruct (fst (fst m)); cbn; rewrite ?app_nil_r, <- ?app_assoc; reflexivity.
Qed.

Lemma number_lines_spec first lines : forall k x, nth_error lines k = Some x -> nth_error (number_lines first lines) k = Some ((first + k)%nat, x).
Proof.
  revert first. induction lines as [|y t IH]; intros first k x H; [destruct k; discriminate|].
  destruct k; cbn in *.
  - inversion H; subst. rewrite Nat.add_0_r. reflexivity.
  - rewrite (IH (S first) k x H). f_equal. f_equal. lia.
Qed.

Theorem block_line_numbers opening lines k x :
  nth_error lines k = Some x -> nth_error (block_lines opening lines) k = Some ((opening + 1 + k)%nat, x).
Proof. intros H. unfold block_lines. rewrite (number_lines_spec _ _ _ _ H). f_equal. f_equal. lia. Qed.
